package main

import (
	"bufio"
	"encoding/json"
	"fmt"
	"os"
	"path/filepath"
	"strings"
	"sync"
	"time"
)

// randomSchemas produces n schemas as TLC -simulate walks of spec/Schema.tla (one walk per TLC
// process, seeded), and writes them as a JSON array of corpus files.
func randomSchemas(n int, seed int64, workDir string) (string, []string, error) {
	os.MkdirAll(workDir, 0o755)
	var mu sync.Mutex
	var wg sync.WaitGroup
	schemas := make([]json.RawMessage, n)
	var errs []string
	for i := 0; i < n; i++ {
		wg.Add(1)
		go func(i int) {
			defer wg.Done()
			steps := 10 + (i%3)*6
			maxFields := 6 + i%5
			if limit := 2 + 3*maxFields; steps > limit {
				steps = limit // the construction machine stops when every message is full
			}
			res, err := RunTLC(filepath.Join(workDir, fmt.Sprintf("w%d", i)), TLCOpts{Spec: "Schema", Cfg: "Schema.cfg", Workers: 1, Timeout: 10 * time.Minute,
				Env:   map[string]string{"VERIF_MAXMSGS": "3", "VERIF_MAXFIELDS": fmt.Sprint(maxFields), "VERIF_STEPS": fmt.Sprint(steps), "VERIF_TAG": fmt.Sprintf("s%dn%d", seed, i), "VERIF_EXPORT": "1"},
				Extra: []string{"-simulate", "num=1", "-depth", fmt.Sprint(steps + 1), "-seed", fmt.Sprint(seed*1000 + int64(i))}})
			mu.Lock()
			defer mu.Unlock()
			if err != nil {
				errs = append(errs, err.Error())
				return
			}
			if res.InvViolated != "" || strings.Contains(res.Err, "Invariant") {
				errs = append(errs, "Schema.tla: "+trunc(res.Err, 500))
				return
			}
			for _, l := range res.Lines {
				if strings.HasPrefix(l, "SCHEMA ") {
					schemas[i] = json.RawMessage(l[7:])
					break
				}
			}
			if schemas[i] == nil {
				errs = append(errs, fmt.Sprintf("walk %d produced no schema: %s", i, trunc(res.Err+res.Raw, 500)))
			}
		}(i)
	}
	wg.Wait()
	var ok []json.RawMessage
	for _, s := range schemas {
		if s != nil {
			ok = append(ok, s)
		}
	}
	b, _ := json.Marshal(ok)
	path := filepath.Join(workDir, "extra.json")
	if err := os.WriteFile(path, b, 0o644); err != nil {
		return "", errs, err
	}
	return path, errs, nil
}

// pluginRuns model-checks Plugin.tla, exports its request cases, executes them with the plugin
// built from the tree (fresh processes, varied environments) and validates the recorded runs.
func pluginRuns(c *Ctx, runs, stride int, scope func(class, sha, name, hermetic bool) string) {
	dir := filepath.Join(c.S.Dir, "plugin")
	os.MkdirAll(dir, 0o755)
	exp := filepath.Join(dir, "cases.txt")
	ef, _ := os.Create(exp)
	bw := bufio.NewWriter(ef)
	res, err := RunTLC(filepath.Join(dir, "tlc"), TLCOpts{Spec: "Plugin", Cfg: "Plugin.cfg", Workers: 1, Timeout: 20 * time.Minute,
		Env: map[string]string{"VERIF_EXPORT": "1"}, LineSink: func(l string) { bw.WriteString(l); bw.WriteByte('\n') }})
	bw.Flush()
	ef.Close()
	if err != nil || res.Err != "" {
		c.R.InternalErr("Plugin.tla: %v %s", err, trunc(res.Err, 1500))
		return
	}
	c.R.AddCount("states", res.Distinct)
	c.R.AddCount("transitions", res.Generated)
	evs := filepath.Join(dir, "events.ndjson")
	if o, err := run(c.S.Repo, goEnv(), 60*time.Minute, c.S.Gen, "plugin", "--plugin", c.S.Plugin, "--in", exp, "--out", evs, "--runs", fmt.Sprint(runs), "--stride", fmt.Sprint(stride), "--seed", fmt.Sprint(c.Seed)); err != nil {
		c.R.InternalErr("gen plugin: %v %s", err, trunc(o, 1500))
		return
	}
	lines := readLines(evs)
	tres, err := RunTLC(filepath.Join(dir, "tlc2"), TLCOpts{Spec: "Trace_Plugin", Cfg: "Trace_Plugin.cfg", Env: map[string]string{"VERIF_TRACE": evs, "VERIF_EXPORT": "0"}, Timeout: 60 * time.Minute, HeapMB: 4000})
	if err != nil || tres.Err != "" {
		c.R.InternalErr("Trace_Plugin: %v %s", err, trunc(tres.Err, 1500))
		return
	}
	done := false
	for _, l := range tres.Lines {
		if strings.HasPrefix(l, "TRACE-DONE") {
			done = true
		}
		if strings.HasPrefix(l, "VERDICT ") {
			var v struct {
				L                          int
				Class, Sha, Name, Hermetic bool
			}
			json.Unmarshal([]byte(l[8:]), &v)
			ev := ""
			if v.L >= 1 && v.L <= len(lines) {
				ev = lines[v.L-1]
			}
			if sig := scope(v.Class, v.Sha, v.Name, v.Hermetic); sig != "" {
				var e struct {
					Param, Obs, Kind, Err string
					Gen                   []string
				}
				json.Unmarshal([]byte(ev), &e)
				c.R.Violate(sig, fmt.Sprintf("param=%q files_to_generate=%v observed=%s expected=%s err=%s", e.Param, e.Gen, e.Obs, e.Kind, trunc(e.Err, 200)),
					map[string]any{"engine": "plugin", "event": json.RawMessage(ev)})
			}
		}
	}
	if !done {
		c.R.InternalErr("Trace_Plugin did not consume the trace")
	}
	c.R.AddCount("traces_validated_against_impl", int64(len(lines)))
	c.R.AddCount("evaluations", int64(len(lines)))
	c.R.Cov["plugin_runs_validated"] = len(lines)
	c.R.Cov["plugin_request_cases_in_model"] = res.Distinct / 2
	if len(lines) > 0 {
		c.R.Sample(trunc(lines[0], 600))
	}
}

func init() {
	register(&Check{ID: "C12", Level: "model_checking", Probes: true, Random: func(tier string) int {
		if tier == "thorough" {
			return 24
		}
		return 3
	}, Run: func(c *Ctx) {
		c.R.Trusted = []string{"TLC 1.8.0 / SANY", "Go compiler (for 'the sources compile')", "protobuf-go protogen/protodesc (request validation)", "dynamicpb reference for the behavioural checks on generated types"}
		dir := filepath.Join(c.S.Dir, "schema")
		os.MkdirAll(dir, 0o755)
		// (1) the static corpus is inside the supported subset as specified by Schema.tla
		corpusJSON := filepath.Join(dir, "corpus.json")
		known := filepath.Join(dir, "known.json")
		out, err := run(c.S.Repo, goEnv(), 5*time.Minute, c.S.Gen, "dump", "--known", known)
		if err != nil {
			c.R.InternalErr("gen dump: %v", err)
			return
		}
		os.WriteFile(corpusJSON, []byte(out), 0o644)
		res, err := RunTLC(filepath.Join(dir, "tlc"), TLCOpts{Spec: "Schema", Cfg: "Schema_corpus.cfg", Timeout: 10 * time.Minute,
			Env: map[string]string{"VERIF_CORPUS": corpusJSON, "VERIF_KNOWN": known, "VERIF_MAXMSGS": "1", "VERIF_MAXFIELDS": "1", "VERIF_STEPS": "0", "VERIF_TAG": "x", "VERIF_EXPORT": "0"}})
		if err != nil || res.Err != "" {
			c.R.InternalErr("Schema.tla corpus check: %v %s", err, trunc(res.Err, 1000))
		}
		// (2) every group (static, probes, random walks of Schema.tla) generates and compiles
		groups, msgs := 0, 0
		for _, g := range c.S.Groups {
			groups++
			msgs += len(g.Messages)
			tag := g.Group
			for _, t := range g.Tags {
				if strings.HasPrefix(t, "probe:") {
					tag = strings.TrimPrefix(t, "probe:")
				}
			}
			if strings.HasPrefix(g.Group, "rnd") {
				tag = "random-schema"
			}
			replay := map[string]any{"engine": "gen", "group": g.Group, "files": g.Files}
			switch {
			case g.Crash != "":
				c.R.Violate("gen:crash:"+tag, fmt.Sprintf("group=%s plugin process failed: %s %s", g.Group, g.Crash, trunc(g.Stderr, 400)), replay)
			case g.Error != "":
				c.R.Violate("gen:error:"+tag, fmt.Sprintf("group=%s plugin answered with an error for a valid proto3 schema: %s", g.Group, trunc(g.Error, 400)), replay)
			case g.InitPanic != "":
				c.R.Violate("gen:init-panic:"+tag, fmt.Sprintf("group=%s the generated package panics when it is loaded: %s", g.Group, trunc(g.InitPanic, 600)), replay)
			case g.CompileErr != "":
				c.R.Violate("gen:compile:"+tag, fmt.Sprintf("group=%s generated sources do not compile: %s", g.Group, trunc(g.CompileErr, 600)), replay)
			}
		}
		c.R.Cov["schema_groups"] = groups
		c.R.Cov["generated_message_types"] = msgs
		c.R.AddCount("evaluations", int64(groups))
		// (3) request space of the plugin
		pluginRuns(c, 1, c.pick(5, 1), func(class, sha, name, hermetic bool) string {
			if !class {
				return "plugin:response-class"
			}
			return ""
		})
		// (4) the generated types work: codec traces and reflection histories on fresh types only
		fresh := func(t TypeInfo) bool { return strings.HasPrefix(t.Pkg, "verif.") }
		saved := c.S.Types
		c.S.Types = c.S.TypesWhere(fresh)
		codecTraceRun(c, "all", 3, 25, func(v CodecVerdict) bool { return true })
		var jobs []ReflJob
		for _, t := range c.S.Types {
			if strings.HasPrefix(t.Pkg, "verif.rnd") && t.Fields > 0 {
				jobs = append(jobs, ReflJob{t.Name, "", c.pick(1, 2), 0})
			}
		}
		// ... and the bounded-exhaustive histories of the corpus types, which are fresh code too
		for _, j := range reflJobs(c) {
			if strings.HasPrefix(j.Type, "verif.") {
				jobs = append(jobs, j)
			}
		}
		verdicts, st := runMCReflect(c, jobs)
		for _, v := range verdicts {
			if v.Who != "pulsar" {
				c.R.InternalErr("spec and reference disagree on random schema: %v %s %s", v.Job, v.What, trunc(string(v.Obs), 200))
				continue
			}
			c.R.Violate("works:reflect:"+v.What, fmt.Sprintf("type=%s history=%v op=%s read=%s observed=%s expected=%s", v.Job.Type, v.P, trunc(string(v.Op), 200), trunc(string(v.Read), 200), trunc(string(v.Obs), 200), trunc(string(v.Want), 200)),
				map[string]any{"engine": "mc_reflect", "job": v.Job, "path": v.P, "op": v.I})
		}
		c.R.AddCount("states", st.States)
		c.R.AddCount("transitions", st.Transitions)
		c.R.AddCount("traces_validated_against_impl", st.Edges)
		c.R.Cov["random_schema_reflect_edges"] = st.Edges
		// long random histories on every fresh type (random schemas included)
		reflectTraceRun(c, c.pick(3, 12), c.pick(40, 120), func(what, op string) bool { return true })
		c.S.Types = saved
		c.R.Cov["rule"] = "programs = schema groups (static matrix/names/cross-package corpus, probes, TLC-simulated random schemas); each is generated by the working-tree plugin, compiled, and its types run through the codec trace validation and reflection replay"
	}})
	register(&Check{ID: "C13", Level: "model_checking", Run: func(c *Ctx) {
		c.R.Trusted = []string{"TLC 1.8.0 / SANY", "sha256 of emitted contents", "Go toolchain"}
		pluginRuns(c, c.pick(3, 8), c.pick(3, 1), func(class, sha, name, hermetic bool) string {
			switch {
			case !hermetic:
				return "plugin:not-hermetic"
			case class && !sha:
				return "plugin:content-varies"
			case class && !name:
				return "plugin:name-varies"
			}
			return ""
		})
		// the corpus groups themselves: regenerate each group several times in fresh processes and
		// compare with the files this run already generated
		regen := 0
		for _, g := range c.S.Groups {
			if !g.OK() {
				continue
			}
			for r := 0; r < c.pick(2, 6); r++ {
				outDir := filepath.Join(c.S.Dir, fmt.Sprintf("regen-%s-%d", g.Group, r))
				os.MkdirAll(outDir, 0o755)
				if o, err := run(c.S.Repo, append(goEnv(), "TZ=Pacific/Auckland", "HOME="+outDir), 10*time.Minute, c.S.Gen, "corpus", "--root", outDir, "--plugin", c.S.Plugin, "--only", g.Group, "--out", filepath.Join(outDir, "gen.json"), "--probes"); err != nil {
					c.R.InternalErr("regen %s: %v %s", g.Group, err, trunc(o, 500))
					continue
				}
				for _, w := range g.Written {
					a, _ := os.ReadFile(filepath.Join(c.S.Repo, w))
					b, _ := os.ReadFile(filepath.Join(outDir, w))
					regen++
					if string(a) != string(b) {
						c.R.Violate("plugin:content-varies", fmt.Sprintf("group=%s file=%s differs between two runs of the same request", g.Group, w), map[string]any{"engine": "gen", "group": g.Group})
					}
				}
				os.RemoveAll(outDir)
			}
		}
		c.R.Cov["corpus_files_regenerated_and_compared"] = regen
		c.R.AddCount("evaluations", int64(regen))
		c.R.AddCount("distinct_nontrivial", int64(regen))
		c.R.Assumptions = append(c.R.Assumptions, "Go randomises map iteration per process; R fresh processes per request miss a 2-way order flip with probability 2^-(R-1)")
		c.R.Cov["rule"] = "each model request case run R times in fresh processes under different HOME/TMPDIR/TZ/LANG/GOMAXPROCS; content hash must be a function of the model's content key"
	}})
}
