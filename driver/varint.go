package main

import (
	"bufio"
	"encoding/json"
	"fmt"
	"os"
	"path/filepath"
	"strings"
	"time"
)

func init() {
	register(&Check{ID: "C15", Level: "model_checking", Run: func(c *Ctx) {
		c.R.Trusted = []string{"TLC 1.8.0 / SANY", "Apalache 0.58.0 + Z3 (unbounded integers)", "google.golang.org/protobuf/encoding/protowire (cross-check of the spec)", "Go toolchain"}
		dir := filepath.Join(c.S.Dir, "varint")
		os.MkdirAll(dir, 0o755)
		// (a) MC_Digits: boundary words, walked by the word operators; formula = definition; export
		exp := filepath.Join(dir, "words.txt")
		ef, _ := os.Create(exp)
		bw := bufio.NewWriter(ef)
		res, err := RunTLC(filepath.Join(dir, "tlc1"), TLCOpts{Spec: "MC_Digits", Cfg: "MC_Digits.cfg", Workers: 1, Timeout: 20 * time.Minute,
			Env:      map[string]string{"VERIF_EXPORT": "1", "VERIF_MAXLEN": fmt.Sprint(c.pick(2, 3))},
			LineSink: func(l string) { bw.WriteString(l); bw.WriteByte('\n') }})
		bw.Flush()
		ef.Close()
		if err != nil || res.Err != "" {
			c.R.InternalErr("MC_Digits: %v %s", err, trunc(res.Err, 1500))
		} else {
			c.R.AddCount("states", res.Distinct)
			c.R.AddCount("transitions", res.Generated)
			verd := filepath.Join(dir, "wv.ndjson")
			if o, err := c.S.HRun(10*time.Minute, "varint-replay", "--in", exp, "--out", verd); err != nil {
				c.R.InternalErr("varint-replay: %v %s", err, trunc(o, 1000))
			} else if vs, sum, err := readVerdicts(verd); err != nil {
				c.R.InternalErr("varint-replay: %v", err)
			} else {
				words := int64(sum["words"].(float64))
				if words != res.Distinct {
					c.R.InternalErr("MC_Digits: replayed %d words, TLC found %d states", words, res.Distinct)
				}
				c.R.AddCount("traces_validated_against_impl", words)
				c.R.AddCount("evaluations", words)
				c.R.Cov["boundary_words_replayed"] = words
				for _, v := range vs {
					if strings.Contains(v.Note, "INTERNAL") {
						c.R.InternalErr("spec and protowire disagree on word %v: %s", v.In, v.Note)
						continue
					}
					c.R.Violate("varint:"+firstWord(v.Note), fmt.Sprintf("word=%v %s", v.In, v.Note), map[string]any{"engine": "varint", "digits": v.In})
				}
				c.R.Sample(map[string]any{"word_digits_base128": []int{127, 127, 127, 127, 127, 127, 127, 127, 127, 1}, "expect": "Sov=10, EncodeVarint writes ff..ff01 ending at off, nothing else touched"})
			}
		}
		// (b) Apalache: the size formula for ALL 64-bit values
		adir := filepath.Join(dir, "apa")
		os.MkdirAll(adir, 0o755)
		src, _ := os.ReadFile(filepath.Join(verifDir, "spec", "APA_Sov.tla"))
		os.WriteFile(filepath.Join(adir, "APA_Sov.tla"), src, 0o644)
		out, err := run(adir, nil, 10*time.Minute, "apalache-mc", "check", "--inv=SovIsDigits", "--length=0", "--out-dir="+filepath.Join(adir, "out"), "APA_Sov.tla")
		if err != nil || !strings.Contains(out, "The outcome is: NoError") {
			c.R.InternalErr("Apalache did not confirm SovIsDigits: %v %s", err, trunc(lastLines(out, 8), 800))
		} else {
			c.R.Cov["apalache_sov_formula_all_uint64"] = "NoError"
		}
		// (c) the Skip machine: every byte string up to L steps (shared with C06), Skip verdicts only
		verdicts, total, pres := runMCParse(c, c.pick(4, 5), nil)
		if pres != nil {
			c.R.AddCount("states", pres.Distinct)
			c.R.AddCount("transitions", pres.Generated)
		}
		if total != nil {
			c.R.AddCount("traces_validated_against_impl", int64(total["buffers"].(float64)))
			c.R.AddCount("evaluations", int64(total["buffers"].(float64)))
			c.R.Cov["skip_buffers"] = total["buffers"]
			c.R.Cov["skip_wellformed_first_record"] = total["wellformed_first"]
			c.R.Cov["skip_accepts_malformed_first_record"] = total["skip_accepts_malformed"] // not constrained by C15; see C06
		}
		for _, v := range verdicts {
			if v.Kind != "skip" {
				continue
			}
			if strings.Contains(v.Note, "INTERNAL") {
				c.R.InternalErr("Skip: %s in=%v", v.Note, v.In)
				continue
			}
			c.R.Violate("skip:"+firstWord(v.Note), fmt.Sprintf("in=%v %s", v.In, v.Note), map[string]any{"engine": "skip", "in": v.In})
		}
		// (c') record-length sweep: well-formed records far outside that alphabet
		skipSweepRun(c, func(what string) bool { return what == "skip" })
		// (d) sweep of the 32-bit range (and its images in the high half / sign-extended), sample to TLC
		stride := uint64(c.pick(64, 1))
		evs := filepath.Join(dir, "sweep.ndjson")
		sv := filepath.Join(dir, "sweepv.ndjson")
		if o, err := c.S.HRun(30*time.Minute, "varint-sweep", "--stride", fmt.Sprint(stride), "--sample", fmt.Sprint(c.pick(2000, 20000)), "--seed", fmt.Sprint(c.Seed), "--out", evs, "--verdicts", sv); err != nil {
			c.R.InternalErr("varint-sweep: %v %s", err, trunc(o, 1000))
		} else if vs, sum, err := readVerdicts(sv); err != nil {
			c.R.InternalErr("varint-sweep: %v", err)
		} else {
			c.R.AddCount("evaluations", int64(sum["evaluated"].(float64)))
			c.R.Cov["sweep_evaluated"] = sum["evaluated"]
			c.R.Cov["sweep_stride"] = stride
			for _, v := range vs {
				c.R.Violate("sweep", v.Note, map[string]any{"engine": "varint", "digits": v.In})
			}
			tres, err := RunTLC(filepath.Join(dir, "tlc2"), TLCOpts{Spec: "Trace_Varint", Cfg: "Trace_Varint.cfg", Env: map[string]string{"VERIF_TRACE": evs}, Timeout: 20 * time.Minute})
			if err != nil || tres.Err != "" {
				c.R.InternalErr("Trace_Varint: %v %s", err, trunc(tres.Err, 1000))
			} else {
				done := false
				for _, l := range tres.Lines {
					if strings.HasPrefix(l, "TRACE-DONE") {
						done = true
					}
					if strings.HasPrefix(l, "VERDICT ") {
						c.R.Violate("varint:trace", l, map[string]any{"engine": "varint", "event": l})
					}
				}
				if !done {
					c.R.InternalErr("Trace_Varint did not consume the trace")
				}
				c.R.AddCount("traces_validated_against_impl", tres.Distinct-1)
			}
		}
		c.R.AddCount("distinct_nontrivial", res.Distinct)
		c.R.Cov["rule"] = "boundary words 2^k-1, 2^k, 2^k+1 (k=0..64) closed under zigzag/shift/not walks; all byte strings over the wire alphabet for Skip; full 32-bit sweep x3 images in the thorough tier"
	}})
}

func firstWord(s string) string {
	s = strings.TrimSpace(s)
	for i, c := range s {
		if c == ' ' || c == '=' || c == '(' || c == ':' {
			return s[:i]
		}
	}
	return s
}

// skipSweepRun: record-length sweep (spec/Trace_Skip.tla). what = "skip" (runtime.Skip returned
// another length than the record's) or "unknown" (the record was not stored / re-emitted byte for
// byte by a type that does not declare the field).
func skipSweepRun(c *Ctx, inScope func(what string) bool) {
	for i, t := range []string{"ImportedMessage", "verif.nm.Namespace", "verif.s0.N"} {
		found := false
		for _, x := range c.S.Types {
			if x.Name == t {
				found = true
			}
		}
		if !found {
			continue
		}
		dir := filepath.Join(c.S.Dir, fmt.Sprintf("skipsweep%d", i))
		os.MkdirAll(dir, 0o755)
		evs := filepath.Join(dir, "events.ndjson")
		if o, err := c.S.HRun(10*time.Minute, "skip-sweep", "--type", t, "--maxlen", fmt.Sprint(c.pick(1100, 5000)), "--seed", fmt.Sprint(c.Seed), "--out", evs); err != nil {
			c.R.InternalErr("skip-sweep %s: %v %s", t, err, trunc(o, 500))
			continue
		}
		lines := readLines(evs)
		res, err := RunTLC(filepath.Join(dir, "tlc"), TLCOpts{Spec: "Trace_Skip", Cfg: "Trace_Skip.cfg", Env: map[string]string{"VERIF_TRACE": evs}, Timeout: 20 * time.Minute})
		if err != nil || res.Err != "" {
			c.R.InternalErr("Trace_Skip %s: %v %s", t, err, trunc(res.Err, 500))
			continue
		}
		done := false
		for _, l := range res.Lines {
			if strings.HasPrefix(l, "TRACE-DONE") {
				done = true
			}
			if !strings.HasPrefix(l, "VERDICT ") {
				continue
			}
			var v struct {
				L    int
				What string
				Want int
			}
			json.Unmarshal([]byte(l[8:]), &v)
			ev := ""
			if v.L >= 1 && v.L <= len(lines) {
				ev = lines[v.L-1]
			}
			if strings.HasPrefix(v.What, "INTERNAL") {
				c.R.InternalErr("Trace_Skip %s: %s %s", t, v.What, trunc(ev, 300))
				continue
			}
			if inScope(v.What) {
				c.R.Violate("skipsweep:"+v.What, fmt.Sprintf("type=%s expected record length %d: %s", t, v.Want, trunc(ev, 400)), map[string]any{"engine": "skipsweep", "type": t, "event": trunc(ev, 2000)})
			}
		}
		if !done {
			c.R.InternalErr("Trace_Skip %s did not consume the trace", t)
		}
		c.R.AddCount("traces_validated_against_impl", int64(len(lines)))
		c.R.AddCount("evaluations", int64(len(lines)))
		c.R.Cov["skip_sweep_records"] = len(lines)
	}
}
