// Command verif is the orchestrator of the model-based verification of cosmos-proto:
// it builds a scratch copy of /repo's working tree, drives the harness worker built from it,
// runs TLC on the specifications in /verif/spec, and writes verdicts and evidence.
package main

import (
	"flag"
	"fmt"
	"os"
	"sort"
	"strconv"
)

type Ctx struct {
	Tier  string
	Seed  int64
	Extra string // path of the JSON file with this run's random schemas ("" if none)
	S     *Scratch
	R     *Result
}

func (c *Ctx) Thorough() bool { return c.Tier == "thorough" }

// pick returns q in the quick tier and t in the thorough tier.
func (c *Ctx) pick(q, t int) int {
	if c.Thorough() {
		return t
	}
	return q
}

type Check struct {
	ID     string
	Level  string
	Probes bool
	Random func(tier string) int // number of TLC-simulated random schemas to add to the corpus
	Run    func(c *Ctx)
}

var checks = map[string]*Check{}

func register(c *Check) { checks[c.ID] = c }

func usage() {
	fmt.Fprintln(os.Stderr, "usage: verif check <ID> [--tier quick|thorough] | replay <path> | warm | selftest | list")
	os.Exit(2)
}

func main() {
	if len(os.Args) < 2 {
		usage()
	}
	switch os.Args[1] {
	case "list":
		var ids []string
		for id := range checks {
			ids = append(ids, id)
		}
		sort.Strings(ids)
		for _, id := range ids {
			fmt.Println(id)
		}
	case "check":
		if len(os.Args) < 3 {
			usage()
		}
		id := os.Args[2]
		fs := flag.NewFlagSet("check", flag.ExitOnError)
		tier := fs.String("tier", "", "quick|thorough")
		fs.Parse(os.Args[3:])
		if *tier == "" {
			*tier = os.Getenv("VERIF_TIER")
		}
		if *tier == "" {
			*tier = "quick"
		}
		seed := int64(1)
		if v := os.Getenv("VERIF_SEED"); v != "" {
			if n, err := strconv.ParseInt(v, 10, 64); err == nil {
				seed = n
			}
		}
		os.Exit(runCheck(id, *tier, seed))
	case "replay":
		if len(os.Args) < 3 {
			usage()
		}
		os.Exit(runReplay(os.Args[2]))
	case "warm":
		os.Exit(runWarm())
	case "selftest":
		os.Exit(runSelftest(os.Args[2:]))
	default:
		usage()
	}
}

func runCheck(id, tier string, seed int64) int {
	ck, ok := checks[id]
	if !ok {
		fmt.Fprintf(os.Stderr, "unknown check %s\n", id)
		return 2
	}
	r := NewResult(id, ck.Level, tier, seed)
	c := &Ctx{Tier: tier, Seed: seed, R: r}
	extra := ""
	if ck.Random != nil {
		if n := ck.Random(tier); n > 0 {
			tmp, _ := os.MkdirTemp(os.Getenv("VERIF_TMP"), "verif-rnd-")
			defer os.RemoveAll(tmp)
			p, errs, err := randomSchemas(n, seed, tmp)
			if err != nil || len(errs) > 0 {
				r.InternalErr("random schemas: %v %v", err, errs)
			}
			extra = p
		}
	}
	s, err := NewScratch(ck.Probes, extra)
	defer s.Close()
	if err != nil {
		r.InternalErr("scratch build failed: %v", err)
		r.Cov["evaluations"] = 0
		return r.Finish()
	}
	c.S = s
	c.Extra = extra
	func() {
		defer func() {
			if p := recover(); p != nil {
				r.InternalErr("driver panic: %v", p)
			}
		}()
		ck.Run(c)
	}()
	return r.Finish()
}
