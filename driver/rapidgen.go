package main

import (
	"encoding/json"
	"fmt"
	"path/filepath"
	"strings"
	"sync"
	"time"
)

func init() {
	register(&Check{ID: "C18", Level: "model_checking", Run: func(c *Ctx) {
		c.R.Trusted = []string{"TLC 1.8.0 / SANY", "pgregory.net/rapid (draw engine)", "dynamicpb + proto.Marshal as 'the reference marshaller accepts'", "timestamppb/durationpb CheckValid"}
		c.R.Assumptions = append(c.R.Assumptions, "outputs are checked against the specification's predicate (NodeOK); the generator's draws cannot be injected from outside rapid, so model behaviours are not replayed (DESIGN 6.C18)")
		for _, variant := range [][2]string{{"1", "0"}, {"0", "0"}, {"1", "1"}, {"0", "1"}} {
			res, err := RunTLC(filepath.Join(c.S.Dir, "rgtlc"+variant[0]+variant[1]), TLCOpts{Spec: "RapidGen", Cfg: "RapidGen.cfg", Workers: 4, Timeout: 10 * time.Minute,
				Env: map[string]string{"VERIF_ENUMIDX": "0", "VERIF_NOEMPTY": variant[0], "VERIF_NONIL": variant[1]}})
			if err != nil || res.Err != "" {
				c.R.InternalErr("RapidGen.tla: %v %s", err, trunc(res.Err, 1000))
			} else {
				c.R.AddCount("states", res.Distinct)
				c.R.AddCount("transitions", res.Generated)
			}
		}
		types := []string{"google.protobuf.Any"}
		for _, t := range c.S.Types {
			types = append(types, t.Name)
		}
		// ... and for descriptor-driven (dynamicpb) messages of the types that embed well-known types
		dynFrom := len(types)
		for _, t := range []string{"verif.xa.Times", "verif.xa.Holder", "verif.opt.WithOptions"} {
			for _, x := range c.S.Types {
				if x.Name == t {
					types = append(types, t)
				}
			}
		}
		var mu sync.Mutex
		var wg sync.WaitGroup
		sem := make(chan struct{}, 12)
		var events int64
		for i, t := range types {
			wg.Add(1)
			sem <- struct{}{}
			go func(i int, t string) {
				defer wg.Done()
				defer func() { <-sem }()
				evs := filepath.Join(c.S.Dir, fmt.Sprintf("rg%d.ndjson", i))
				args := []string{"rapidgen", "--type", t, "--n", fmt.Sprint(c.pick(3, 100)), "--seed", fmt.Sprint(c.Seed*50 + int64(i)), "--out", evs}
				if i >= dynFrom {
					args = append(args, "--dynamic")
				}
				if o, err := c.S.HRun(30*time.Minute, args...); err != nil {
					mu.Lock()
					c.R.InternalErr("rapidgen %s: %v %s", t, err, trunc(o, 800))
					mu.Unlock()
					return
				}
				lines := readLines(evs)
				if len(lines) == 0 || lines[0] == "" {
					mu.Lock()
					c.R.InternalErr("rapidgen %s: no events", t)
					mu.Unlock()
					return
				}
				tres, err := RunTLC(filepath.Join(c.S.Dir, fmt.Sprintf("rgt%d", i)), TLCOpts{Spec: "Trace_RapidGen", Cfg: "Trace_RapidGen.cfg", Env: map[string]string{"VERIF_TRACE": evs}, Timeout: 30 * time.Minute})
				mu.Lock()
				defer mu.Unlock()
				if err != nil || tres.Err != "" {
					c.R.InternalErr("Trace_RapidGen %s: %v %s", t, err, trunc(tres.Err, 800))
					return
				}
				done := false
				for _, l := range tres.Lines {
					if strings.HasPrefix(l, "TRACE-DONE") {
						done = true
					}
					if strings.HasPrefix(l, "VERDICT ") {
						var v struct {
							L   int
							Sig string
						}
						json.Unmarshal([]byte(l[8:]), &v)
						ev := ""
						if v.L >= 1 && v.L <= len(lines) {
							ev = lines[v.L-1]
						}
						var e struct {
							Seed int
							Opts map[string]bool
							Note string
						}
						json.Unmarshal([]byte(ev), &e)
						c.R.Violate(v.Sig, fmt.Sprintf("type=%s rapid seed=%d opts=%v %s", t, e.Seed, e.Opts, trunc(e.Note, 300)),
							map[string]any{"engine": "rapidgen", "type": t, "seed": e.Seed, "opts": e.Opts})
					}
				}
				if !done {
					c.R.InternalErr("Trace_RapidGen %s did not consume the trace", t)
				}
				events += int64(len(lines))
				if len(lines) > 0 {
					c.R.Sample(trunc(lines[0], 500))
				}
			}(i, t)
		}
		wg.Wait()
		c.R.AddCount("traces_validated_against_impl", events)
		c.R.AddCount("evaluations", events)
		c.R.AddCount("distinct_nontrivial", events)
		c.R.Cov["generator_outputs_validated"] = events
		c.R.Cov["rule"] = "every message type x 16 option sets (NoEmptyLists, DisallowNilMessages, field mapper, Any type URLs) x n rapid seeds; each output walked into per-node facts and validated against RapidGen!NodeOK"
	}})
}
