package main

import (
	"bufio"
	"encoding/json"
	"fmt"
	"os"
	"os/exec"
	"path/filepath"
	"regexp"
	"strconv"
	"strings"
	"time"
)

const tlaJar = "/opt/veriftools/tla/tla2tools.jar:/opt/veriftools/tla/CommunityModules-deps.jar"

type TLCResult struct {
	Lines       []string // PrintT payload lines (unquoted)
	Generated   int64
	Distinct    int64
	Depth       int
	Err         string // TLC-level error (spec error, invariant violation...), "" if none
	InvViolated string
	Raw         string
	Wall        time.Duration
	Coverage    map[string]int64
}

var reStates = regexp.MustCompile(`(\d+) states generated, (\d+) distinct states found`)
var reDepth = regexp.MustCompile(`depth of the complete state graph search is (\d+)`)

// unquote a TLC-printed string value: "..." with \" and \\ escapes
func tlcUnquote(s string) string {
	s = strings.TrimSpace(s)
	if len(s) >= 2 && s[0] == '"' && s[len(s)-1] == '"' {
		var out string
		if err := json.Unmarshal([]byte(s), &out); err == nil {
			return out
		}
		s = s[1 : len(s)-1]
		s = strings.ReplaceAll(s, `\"`, `"`)
		s = strings.ReplaceAll(s, `\\`, `\`)
	}
	return s
}

type TLCOpts struct {
	Spec      string            // module name (file Spec.tla in spec dir)
	Cfg       string            // cfg file name
	Env       map[string]string // IOEnv parameters
	Workers   int
	Timeout   time.Duration
	HeapMB    int
	Extra     []string     // extra TLC args (e.g. -simulate ...)
	LineSink  func(string) // optional streaming consumer of PrintT lines
	KeepLines bool
	DFS       bool
}

// RunTLC runs TLC in a private copy of the spec directory under workDir.
func RunTLC(workDir string, o TLCOpts) (*TLCResult, error) {
	if err := os.MkdirAll(workDir, 0o755); err != nil {
		return nil, err
	}
	specSrc := filepath.Join(verifDir, "spec")
	ents, err := os.ReadDir(specSrc)
	if err != nil {
		return nil, err
	}
	for _, e := range ents {
		if e.IsDir() {
			continue
		}
		b, err := os.ReadFile(filepath.Join(specSrc, e.Name()))
		if err != nil {
			return nil, err
		}
		if err := os.WriteFile(filepath.Join(workDir, e.Name()), b, 0o644); err != nil {
			return nil, err
		}
	}
	if o.Workers == 0 {
		o.Workers = 1
	}
	if o.HeapMB == 0 {
		o.HeapMB = 3000
	}
	if o.Timeout == 0 {
		o.Timeout = 10 * time.Minute
	}
	// SANY unpacks its standard modules into java.io.tmpdir on every start: keep that inside the
	// run's own directory (removed with it) instead of littering /tmp
	jtmp := filepath.Join(workDir, "jtmp")
	os.MkdirAll(jtmp, 0o755)
	args := []string{"-Xss512m", fmt.Sprintf("-Xmx%dm", o.HeapMB), "-XX:+UseParallelGC", "-Djava.io.tmpdir=" + jtmp}
	if o.DFS {
		args = append(args, "-Dtlc2.tool.queue.IStateQueue=StateDeque")
	}
	args = append(args, "-cp", tlaJar, "tlc2.TLC", "-workers", strconv.Itoa(o.Workers), "-metadir", filepath.Join(workDir, "md"),
		"-config", o.Cfg)
	args = append(args, o.Extra...)
	args = append(args, o.Spec+".tla")
	cmd := exec.Command("java", args...)
	cmd.Dir = workDir
	cmd.Env = os.Environ()
	for k, v := range o.Env {
		cmd.Env = append(cmd.Env, k+"="+v)
	}
	stdout, err := cmd.StdoutPipe()
	if err != nil {
		return nil, err
	}
	cmd.Stderr = cmd.Stdout
	start := time.Now()
	if err := cmd.Start(); err != nil {
		return nil, err
	}
	timer := time.AfterFunc(o.Timeout, func() { cmd.Process.Kill() })
	defer timer.Stop()
	res := &TLCResult{Coverage: map[string]int64{}}
	var raw strings.Builder
	sc := bufio.NewScanner(stdout)
	sc.Buffer(make([]byte, 1<<20), 1<<30)
	inErr := false
	for sc.Scan() {
		line := sc.Text()
		if strings.HasPrefix(line, "Parsing file") || strings.HasPrefix(line, "Semantic processing") || strings.HasPrefix(line, "Linting of") || line == "" {
			continue
		}
		if strings.HasPrefix(line, `"`) {
			p := tlcUnquote(line)
			if o.LineSink != nil {
				o.LineSink(p)
			}
			if o.LineSink == nil || o.KeepLines {
				res.Lines = append(res.Lines, p)
			}
			continue
		}
		if raw.Len() < 200000 {
			raw.WriteString(line)
			raw.WriteByte('\n')
		}
		if m := reStates.FindStringSubmatch(line); m != nil {
			res.Generated, _ = strconv.ParseInt(m[1], 10, 64)
			res.Distinct, _ = strconv.ParseInt(m[2], 10, 64)
		}
		if m := reDepth.FindStringSubmatch(line); m != nil {
			res.Depth, _ = strconv.Atoi(m[1])
		}
		if strings.HasPrefix(line, "Error:") {
			inErr = true
			if res.Err == "" {
				res.Err = line
			}
			if strings.Contains(line, "Invariant") && strings.Contains(line, "is violated") {
				res.InvViolated = line
			}
		} else if inErr && len(res.Err) < 3000 {
			res.Err += "\n" + line
		}
	}
	werr := cmd.Wait()
	res.Wall = time.Since(start)
	res.Raw = raw.String()
	if time.Since(start) >= o.Timeout {
		return res, fmt.Errorf("tlc timeout after %v (%s)", o.Timeout, o.Spec)
	}
	if werr != nil && res.Err == "" {
		res.Err = fmt.Sprintf("tlc exit: %v\n%s", werr, trunc(res.Raw, 3000))
	}
	os.RemoveAll(filepath.Join(workDir, "md"))
	return res, nil
}
