package main

import (
	"bufio"
	"encoding/json"
	"fmt"
	"os"
	"path/filepath"
	"strings"
	"sync"
	"time"
)

type ParseVerdict struct {
	Kind  string `json:"kind"`
	Type  string `json:"type"`
	In    []int  `json:"in"`
	Note  string `json:"note"`
	Fault string `json:"fault"`
}

func readVerdicts(path string) ([]ParseVerdict, map[string]any, error) {
	f, err := os.Open(path)
	if err != nil {
		return nil, nil, err
	}
	defer f.Close()
	sc := bufio.NewScanner(f)
	sc.Buffer(make([]byte, 1<<20), 1<<28)
	var out []ParseVerdict
	var sum map[string]any
	for sc.Scan() {
		line := sc.Bytes()
		if strings.Contains(string(line), `"summary":true`) {
			json.Unmarshal(line, &sum)
			continue
		}
		var v ParseVerdict
		if err := json.Unmarshal(line, &v); err != nil {
			return out, sum, err
		}
		out = append(out, v)
	}
	if sum == nil {
		return out, nil, fmt.Errorf("no summary line in %s (worker died?)", path)
	}
	return out, sum, nil
}

// runMCParse model-checks MC_Parse (all byte strings up to maxLen steps over the byte alphabet),
// exports every state and replays it against runtime.Skip and Unmarshal of the given types.
func runMCParse(c *Ctx, maxLen int, types []string) ([]ParseVerdict, map[string]any, *TLCResult) {
	dir := filepath.Join(c.S.Dir, "mcparse")
	os.MkdirAll(dir, 0o755)
	exp := filepath.Join(dir, "export.txt")
	ef, err := os.Create(exp)
	if err != nil {
		c.R.InternalErr("%v", err)
		return nil, nil, nil
	}
	bw := bufio.NewWriterSize(ef, 1<<20)
	res, err := RunTLC(filepath.Join(dir, "tlc"), TLCOpts{Spec: "MC_Parse", Cfg: "MC_Parse.cfg", Workers: 1, Timeout: 60 * time.Minute, HeapMB: 6000,
		Env:      map[string]string{"VERIF_MAXLEN": fmt.Sprint(maxLen), "VERIF_EXPORT": "1"},
		LineSink: func(l string) { bw.WriteString(l); bw.WriteByte('\n') }})
	bw.Flush()
	ef.Close()
	if err != nil {
		c.R.InternalErr("MC_Parse: %v", err)
		return nil, nil, res
	}
	if res.Err != "" {
		c.R.InternalErr("MC_Parse: TLC error on the model (spec problem): %s", trunc(res.Err, 1500))
		return nil, nil, res
	}
	// replay in parallel shards
	lines, err := os.ReadFile(exp)
	if err != nil {
		c.R.InternalErr("%v", err)
		return nil, nil, res
	}
	all := strings.Split(strings.TrimRight(string(lines), "\n"), "\n")
	shards := 12
	var mu sync.Mutex
	aborted := false
	var wg sync.WaitGroup
	var verdicts []ParseVerdict
	total := map[string]any{"buffers": 0.0, "wellformed_first": 0.0, "unmarshals": 0.0, "accepted": 0.0, "skip_accepts_malformed": 0.0}
	for s := 0; s < shards; s++ {
		lo, hi := len(all)*s/shards, len(all)*(s+1)/shards
		if lo == hi {
			continue
		}
		wg.Add(1)
		go func(s, lo, hi int) {
			defer wg.Done()
			in := filepath.Join(dir, fmt.Sprintf("shard%d.txt", s))
			out := filepath.Join(dir, fmt.Sprintf("verdicts%d.ndjson", s))
			os.WriteFile(in, []byte(strings.Join(all[lo:hi], "\n")+"\n"), 0o644)
			if o, err := c.S.HRun(30*time.Minute, "parse-replay", "--in", in, "--types", strings.Join(types, ","), "--out", out); err != nil {
				mu.Lock()
				c.R.InternalErr("parse-replay: %v %s", err, trunc(o, 1500))
				mu.Unlock()
				return
			}
			vs, sum, err := readVerdicts(out)
			mu.Lock()
			defer mu.Unlock()
			if err != nil {
				c.R.InternalErr("parse-replay: %v", err)
				return
			}
			verdicts = append(verdicts, vs...)
			if a, _ := sum["aborted_after_hang"].(bool); a {
				aborted = true
			}
			for k := range total {
				if x, ok := sum[k].(float64); ok {
					total[k] = total[k].(float64) + x
				}
			}
		}(s, lo, hi)
	}
	wg.Wait()
	if int64(total["buffers"].(float64)) != res.Generated-1 && !aborted {
		c.R.InternalErr("MC_Parse: replayed %v buffers, TLC generated %d states", total["buffers"], res.Generated)
	}
	return verdicts, total, res
}

func faultSig(v ParseVerdict) string {
	note := v.Note
	switch {
	case strings.Contains(note, "panic"):
		note = "panic"
	case v.Kind == "reject" || v.Kind == "state" || v.Kind == "alloc":
		note = ""
	default:
		if i := strings.Index(note, ":"); i > 0 {
			note = note[:i]
		}
	}
	s := v.Kind
	if note != "" {
		s += ":" + note
	}
	return s
}

func init() {
	register(&Check{ID: "C06", Level: "model_checking", Run: func(c *Ctx) {
		c.R.Trusted = append(codecTrusted, "Go runtime (recover, MemStats), child-process isolation for stack exhaustion")
		types := []string{"A", "goproto.proto.test3.TestAllTypes", "verif.s0.M", "verif.s0.N", "verif.mx.All", "verif.mxmap.Maps", "verif.mxtag.Tags", "verif.xa.Holder", "verif.nm.Locals"}
		var have []string
		for _, t := range types {
			for _, x := range c.S.Types {
				if x.Name == t {
					have = append(have, t)
				}
			}
		}
		// (i) every byte string up to L steps over the model's byte alphabet
		mcTypes := have
		if !c.Thorough() && len(mcTypes) > 4 {
			mcTypes = mcTypes[:4]
		}
		verdicts, total, res := runMCParse(c, c.pick(4, 5), mcTypes)
		for _, v := range verdicts {
			if v.Kind == "skip" {
				continue // C15's business
			}
			if v.Kind == "reject" || v.Kind == "state" {
				continue // acceptance differences on non-well-typed input are outside C06 (DESIGN 10)
			}
			c.R.Violate(faultSig(v), fmt.Sprintf("type=%s in=%v %s", v.Type, v.In, v.Note), map[string]any{"engine": "parse", "type": v.Type, "in": v.In})
		}
		if res != nil {
			c.R.AddCount("states", res.Distinct)
			c.R.AddCount("transitions", res.Generated)
		}
		if total != nil {
			c.R.AddCount("traces_validated_against_impl", int64(total["unmarshals"].(float64)))
			c.R.AddCount("evaluations", int64(total["unmarshals"].(float64)))
			c.R.Cov["mc_buffers"] = total["buffers"]
			c.R.Cov["mc_unmarshals_accepted"] = total["accepted"]
			c.R.Sample(map[string]any{"buffer": []int{10, 2, 8, 1}, "into": mcTypes, "expect": "no panic; if accepted, Size/Marshal/Equal/Clone/Range usable; value equals reference when both accept"})
		}
		c.R.Cov["exhaustive"] = true
		// (ii) single (and sampled double) faults of valid streams, length bombs
		var mu sync.Mutex
		var wg sync.WaitGroup
		sem := make(chan struct{}, 12)
		var cases, bombs float64
		for i, t := range c.S.Types {
			if t.Fields == 0 {
				continue
			}
			wg.Add(1)
			sem <- struct{}{}
			go func(i int, t TypeInfo) {
				defer wg.Done()
				defer func() { <-sem }()
				out := filepath.Join(c.S.Dir, fmt.Sprintf("faults%d.ndjson", i))
				args := []string{"faults", "--type", t.Name, "--n", fmt.Sprint(c.pick(6, 150)), "--seed", fmt.Sprint(c.Seed*100 + int64(i)), "--out", out}
				if c.Thorough() {
					args = append(args, "--double")
				}
				if o, err := c.S.HRun(60*time.Minute, args...); err != nil {
					mu.Lock()
					c.R.InternalErr("faults %s: %v %s", t.Name, err, trunc(o, 1500))
					mu.Unlock()
					return
				}
				vs, sum, err := readVerdicts(out)
				mu.Lock()
				defer mu.Unlock()
				if err != nil {
					c.R.InternalErr("faults %s: %v", t.Name, err)
					return
				}
				cases += sum["cases"].(float64)
				bombs += sum["bombs"].(float64)
				for _, v := range vs {
					if v.Kind == "reject" || v.Kind == "state" {
						continue
					}
					c.R.Violate(faultSig(v), fmt.Sprintf("type=%s fault=%s in=%v %s", v.Type, v.Fault, v.In, v.Note), map[string]any{"engine": "parse", "type": v.Type, "in": v.In})
				}
			}(i, t)
		}
		wg.Wait()
		c.R.AddCount("evaluations", int64(cases+bombs))
		c.R.AddCount("traces_validated_against_impl", int64(cases+bombs))
		c.R.Cov["fault_cases"] = cases
		c.R.Cov["length_bombs"] = bombs
		// (iii) nesting depth, in child processes
		depthChecks(c)
		stormChecks(c, have)
		c.R.AddCount("distinct_nontrivial", int64(cases))
		c.R.Cov["rule"] = "evaluations = Unmarshal calls on model-enumerated byte strings, fault-injected valid streams and length bombs; each under recover with post-operations"
	}})
}

func depthChecks(c *Ctx) {
	// (type, shape of the recursion that is followed)
	type probe struct{ t, via string }
	var rec []probe
	for _, t := range []string{"verif.s0.N", "verif.mx.Sub", "verif.mxtag.Tags", "verif.xb.Tree", "verif.xa.Holder", "verif.mxmap.V", "verif.nm.Locals"} {
		rec = append(rec, probe{t, ""})
	}
	for _, t := range []string{"goproto.proto.test3.TestAllTypes", "A", "verif.xb.Tree", "verif.mx.Sub", "verif.s0.N", "verif.nm.Locals"} {
		for _, via := range []string{"map", "list", "oneof"} {
			rec = append(rec, probe{t, via})
		}
	}
	n := 0
	for _, pr := range rec {
		t, via := pr.t, pr.via
		found := false
		for _, x := range c.S.Types {
			if x.Name == t {
				found = true
			}
		}
		if !found {
			continue
		}
		depths := []int{1, 100, 9998, 9999, 10000, 10001, 20000}
		if via != "" {
			depths = []int{100, 10000, 10001, 12001}
		}
		if c.Thorough() {
			depths = append(depths, 100000)
			if via == "" {
				// (the chains through a map / list / oneof are built level by level around the
				// previous payload, which is quadratic in the depth: 10^5 levels is their ceiling)
				depths = append(depths, 1000000)
			}
		}
		for _, d := range depths {
			args := []string{"deep", "--type", t, "--depth", fmt.Sprint(d), "--via", via}
			if d >= 100000 {
				args = append(args, "--maxstack", "67108864")
			}
			out, err := c.S.HRun(10*time.Minute, args...)
			n++
			if err != nil {
				if strings.Contains(out, "not directly self-recursive") {
					n--
					break
				}
				c.R.Violate("depth:process-died", fmt.Sprintf("type=%s depth=%d: child process failed: %v: %s", t, d, err, trunc(lastLines(out, 3), 400)),
					map[string]any{"engine": "deep", "type": t, "depth": d})
				continue
			}
			var r struct {
				Ok, RefOk bool
				Panic     string
				Post      string
				Err       string
			}
			if e := json.Unmarshal([]byte(lastLines(out, 1)), &struct {
				Ok    *bool   `json:"ok"`
				RefOk *bool   `json:"ref_ok"`
				Panic *string `json:"panic"`
				Post  *string `json:"post"`
				Err   *string `json:"err"`
			}{&r.Ok, &r.RefOk, &r.Panic, &r.Post, &r.Err}); e != nil {
				c.R.InternalErr("deep: bad output %q", trunc(out, 300))
				continue
			}
			switch {
			case r.Panic != "":
				c.R.Violate("depth:panic", fmt.Sprintf("type=%s depth=%d panic=%s", t, d, r.Panic), map[string]any{"engine": "deep", "type": t, "depth": d})
			case r.Ok && !r.RefOk:
				c.R.Violate("depth:accepts-beyond-limit", fmt.Sprintf("type=%s depth=%d accepted, reference: exceeded max recursion depth", t, d), map[string]any{"engine": "deep", "type": t, "depth": d})
			case !r.Ok && r.RefOk:
				c.R.Violate("depth:rejects-within-limit", fmt.Sprintf("type=%s depth=%d rejected (%s), reference accepts", t, d, r.Err), map[string]any{"engine": "deep", "type": t, "depth": d})
			case r.Post != "":
				c.R.Violate("depth:post", fmt.Sprintf("type=%s depth=%d post-ops: %s", t, d, r.Post), map[string]any{"engine": "deep", "type": t, "depth": d})
			}
		}
	}
	c.R.Cov["depth_probes"] = n
	c.R.AddCount("evaluations", int64(n))
}

// stormChecks: concurrent decodes of different inputs into different messages, one child
// process per type (a runtime fatal error -- e.g. concurrent map writes in state the generated
// code keeps between calls -- kills the process and cannot be recovered).
func stormChecks(c *Ctx, types []string) {
	// the design-level statement: decodes of different inputs into different messages share no
	// state (Decoders.tla; the INTERN variant must fail: selftest)
	if res, err := RunTLC(filepath.Join(c.S.Dir, "decoderstlc"), TLCOpts{Spec: "Decoders", Cfg: "Decoders.cfg", Workers: 2, Timeout: 10 * time.Minute, Env: map[string]string{"VERIF_INTERN": "0"}}); err != nil || res.Err != "" {
		c.R.InternalErr("Decoders.tla: %v %s", err, trunc(res.Err, 1000))
	} else {
		c.R.AddCount("states", res.Distinct)
		c.R.AddCount("transitions", res.Generated)
	}
	n := 0
	for _, t := range types {
		out, err := c.S.HRun(10*time.Minute, "storm", "--type", t, "--n", fmt.Sprint(c.pick(150, 1500)), "--k", "8", "--seed", fmt.Sprint(c.Seed))
		if err != nil {
			c.R.Violate("concurrent:process-died", fmt.Sprintf("type=%s: concurrent decodes of distinct inputs into distinct messages killed the process: %v: %s", t, err, trunc(lastLines(out, 4), 500)),
				map[string]any{"engine": "storm", "type": t})
			continue
		}
		var r struct {
			Storm   bool
			Decodes int64
			Bad     int64
			Note    string
		}
		if e := json.Unmarshal([]byte(lastLines(out, 1)), &r); e != nil || !r.Storm {
			c.R.InternalErr("storm: bad output %q", trunc(out, 300))
			continue
		}
		n += int(r.Decodes)
		if r.Bad > 0 {
			c.R.Violate("concurrent:result", fmt.Sprintf("type=%s: %d of %d concurrent decodes differ from the sequential reference decode: %s", t, r.Bad, r.Decodes, r.Note),
				map[string]any{"engine": "storm", "type": t})
		}
	}
	c.R.Cov["concurrent_decodes"] = n
	c.R.AddCount("evaluations", int64(n))
}

func lastLines(s string, n int) string {
	ls := strings.Split(strings.TrimRight(s, "\n"), "\n")
	if len(ls) > n {
		ls = ls[len(ls)-n:]
	}
	return strings.Join(ls, "\n")
}
