package main

import (
	"encoding/json"
	"fmt"
	"os"
	"os/exec"
	"path/filepath"
	"regexp"
	"sort"
	"strings"
	"time"
)

// repoDir is the tree under test. VERIF_REPO exists only so that the machinery can be tried
// against scratch worktrees carrying seeded changes in parallel (tools/try_patch_wt.sh); every
// registered command runs without it and therefore rebuilds from /repo's working tree.
var repoDir = func() string {
	if d := os.Getenv("VERIF_REPO"); d != "" {
		return d
	}
	return "/repo"
}()

var verifDir = func() string {
	if v := os.Getenv("VERIF_DIR"); v != "" {
		return v
	}
	return "/verif"
}()

type GroupResult struct {
	Group    string         `json:"group"`
	Files    []string       `json:"files"`
	GoPkgs   []string       `json:"gopkgs"`
	Written  []string       `json:"written"`
	Error    string         `json:"error"`
	Crash    string         `json:"crash"`
	Tags     []string       `json:"tags"`
	ReqPath  string         `json:"req_path"`
	Messages []string       `json:"messages"`
	Stderr   string         `json:"stderr"`
	Surface  []SurfaceEntry `json:"surface"`
	// filled by the driver
	CompileErr string `json:"compile_err"`
	InitPanic  string `json:"init_panic"` // the generated package panics while it registers itself (at program start)
}

// SurfaceEntry is one exported Go identifier a generated package must provide (see gen).
type SurfaceEntry struct {
	Pkg  string `json:"pkg"`
	Go   string `json:"go"`
	Kind string `json:"kind"`
	Full string `json:"full"`
	Num  int32  `json:"num"`
}

// surfaceSource renders surface_gen.go: the worker refers to every exported identifier of the
// linked generated packages by name, so that which Go value a name denotes can be checked.
func surfaceSource(groups []GroupResult, linked map[string]bool) (string, map[string]int) {
	var sb strings.Builder
	alias := map[string]string{}
	owner := map[string]int{}
	var order []string
	var body strings.Builder
	for gi, g := range groups {
		if !g.OK() {
			continue
		}
		for _, e := range g.Surface {
			if !linked[e.Pkg] {
				continue
			}
			a, ok := alias[e.Pkg]
			if !ok {
				a = fmt.Sprintf("sp%d", len(alias))
				alias[e.Pkg] = a
				owner[a] = gi
				order = append(order, e.Pkg)
			}
			var v string
			switch e.Kind {
			case "message":
				v = fmt.Sprintf("(*%s.%s)(nil)", a, e.Go)
			case "enum":
				v = fmt.Sprintf("%s.%s(0)", a, e.Go)
			default:
				v = fmt.Sprintf("%s.%s", a, e.Go)
			}
			fmt.Fprintf(&body, "\t\t{%q, %q, %q, %q, %d, %s},\n", e.Kind, e.Full, e.Pkg, e.Go, e.Num, v)
		}
	}
	sb.WriteString("package main\n\nimport (\n")
	for _, p := range order {
		fmt.Fprintf(&sb, "\t%s %q\n", alias[p], p)
	}
	sb.WriteString(")\n\nfunc init() {\n\tsurface = []surfaceEntry{\n")
	sb.WriteString(body.String())
	sb.WriteString("\t}\n}\n")
	return sb.String(), owner
}

func (g *GroupResult) OK() bool {
	return g.Error == "" && g.Crash == "" && g.CompileErr == "" && g.InitPanic == ""
}
func (g *GroupResult) HasTag(t string) bool {
	for _, x := range g.Tags {
		if x == t || strings.HasPrefix(x, t+":") {
			return true
		}
	}
	return false
}

type TypeInfo struct {
	Name   string   `json:"name"`
	File   string   `json:"file"`
	Pkg    string   `json:"pkg"`
	Fields int      `json:"fields"`
	GoType string   `json:"gotype"`
	Names  []string `json:"names"`
}

type Scratch struct {
	Dir    string // scratch root
	Repo   string // copy of the working tree
	Plugin string
	Gen    string
	H      string
	Groups []GroupResult
	Types  []TypeInfo
	Log    []string
	tlcN   int
}

// scratchGoCache: the Go build cache of this run lives inside the scratch directory, so that
// the build output of the scratch copy goes away with it (the shared cache would keep about
// 150 MB per run for good: its keys contain the scratch path, which is new every time).
var scratchGoCache string

func goEnv() []string {
	env := os.Environ()
	env = append(env, "GOFLAGS=-mod=mod", "GOPROXY=off", "GOSUMDB=off", "GOTOOLCHAIN=local")
	if scratchGoCache != "" {
		env = append(env, "GOCACHE="+scratchGoCache)
	}
	return env
}

func run(dir string, env []string, timeout time.Duration, name string, args ...string) (string, error) {
	cmd := exec.Command(name, args...)
	cmd.Dir = dir
	if env != nil {
		cmd.Env = env
	}
	done := make(chan struct{})
	var out []byte
	var err error
	go func() { out, err = cmd.CombinedOutput(); close(done) }()
	select {
	case <-done:
	case <-time.After(timeout):
		if cmd.Process != nil {
			cmd.Process.Kill()
		}
		<-done
		return string(out), fmt.Errorf("timeout after %v: %s %v", timeout, name, args)
	}
	return string(out), err
}

func copyTree(src, dst string) error {
	out, err := run("", nil, 5*time.Minute, "rsync", "-a", "--delete", "--exclude", ".git", src+"/", dst+"/")
	if err != nil {
		return fmt.Errorf("rsync: %v: %s", err, out)
	}
	return nil
}

// NewScratch copies the working tree, injects the harness, builds the plugin from the tree,
// generates the corpus with it and builds the harness worker against whatever compiled.
// extra is an optional JSON file of additional schemas (TLC-generated random schemas).
func NewScratch(probes bool, extra string) (*Scratch, error) {
	base := os.Getenv("VERIF_TMP")
	if base == "" {
		base = os.TempDir()
	}
	dir, err := os.MkdirTemp(base, "verif-")
	if err != nil {
		return nil, err
	}
	s := &Scratch{Dir: dir, Repo: filepath.Join(dir, "repo")}
	if err := os.MkdirAll(s.Repo, 0o755); err != nil {
		return nil, err
	}
	scratchGoCache = filepath.Join(dir, "gocache")
	if err := os.MkdirAll(scratchGoCache, 0o755); err != nil {
		return nil, err
	}
	if err := copyTree(repoDir, s.Repo); err != nil {
		return s, err
	}
	if err := copyTree(filepath.Join(verifDir, "harness"), filepath.Join(s.Repo, "zzverif")); err != nil {
		return s, err
	}
	bin := filepath.Join(dir, "bin")
	os.MkdirAll(bin, 0o755)
	s.Plugin = filepath.Join(bin, "protoc-gen-go-pulsar")
	s.Gen = filepath.Join(bin, "gen")
	s.H = filepath.Join(bin, "h")
	if out, err := run(s.Repo, goEnv(), 10*time.Minute, "go", "build", "-tags", "verif", "-o", s.Plugin, "./cmd/protoc-gen-go-pulsar"); err != nil {
		return s, fmt.Errorf("build plugin: %v\n%s", err, out)
	}
	if out, err := run(s.Repo, goEnv(), 10*time.Minute, "go", "build", "-tags", "verif", "-o", s.Gen, "./zzverif/cmd/gen"); err != nil {
		return s, fmt.Errorf("build gen: %v\n%s", err, out)
	}
	genOut := filepath.Join(dir, "gen.json")
	args := []string{"corpus", "--root", s.Repo, "--plugin", s.Plugin, "--out", genOut}
	if probes {
		args = append(args, "--probes")
	}
	if extra != "" {
		args = append(args, "--extra", extra)
	}
	if out, err := run(s.Repo, goEnv(), 10*time.Minute, s.Gen, args...); err != nil {
		return s, fmt.Errorf("gen corpus: %v\n%s", err, out)
	}
	b, err := os.ReadFile(genOut)
	if err != nil {
		return s, err
	}
	if err := json.Unmarshal(b, &s.Groups); err != nil {
		return s, err
	}
	// compile each generated package on its own, so that one bad group does not hide the others
	var imports []string
	for i := range s.Groups {
		g := &s.Groups[i]
		if g.Error != "" || g.Crash != "" {
			continue
		}
		var pk []string
		for _, p := range g.GoPkgs {
			pk = append(pk, "./"+strings.TrimPrefix(p, "github.com/cosmos/cosmos-proto/"))
		}
		out, err := run(s.Repo, goEnv(), 15*time.Minute, "go", append([]string{"build", "-tags", "verif"}, pk...)...)
		if err != nil {
			g.CompileErr = trunc(out, 4000)
			for _, p := range pk {
				os.RemoveAll(filepath.Join(s.Repo, p))
			}
			continue
		}
		imports = append(imports, g.GoPkgs...)
	}
	// link everything into the worker and start it once; a generated package that panics while
	// registering itself (init) is attributed to its group, left out, and the worker is rebuilt
	var out string
	for attempt := 0; ; attempt++ {
		sort.Strings(imports)
		var sb strings.Builder
		sb.WriteString("package main\n\nimport (\n")
		seen := map[string]bool{}
		for _, p := range imports {
			if !seen[p] {
				seen[p] = true
				fmt.Fprintf(&sb, "\t_ %q\n", p)
			}
		}
		sb.WriteString(")\n")
		if err := os.WriteFile(filepath.Join(s.Repo, "zzverif", "cmd", "h", "imports_gen.go"), []byte(sb.String()), 0o644); err != nil {
			return s, err
		}
		src, owner := surfaceSource(s.Groups, seen)
		if err := os.WriteFile(filepath.Join(s.Repo, "zzverif", "cmd", "h", "surface_gen.go"), []byte(src), 0o644); err != nil {
			return s, err
		}
		if o, err := run(s.Repo, goEnv(), 15*time.Minute, "go", "build", "-tags", "verif", "-o", s.H, "./zzverif/cmd/h"); err != nil {
			// a generated package that lacks (or mistypes) an identifier the naming rules assign
			// to one of its entities: attributed to its group, which is left out
			if m := surfaceErrRe.FindStringSubmatch(o); m != nil && attempt < 6 {
				if gi, ok := owner[m[1]]; ok {
					g := &s.Groups[gi]
					g.CompileErr = "exported Go API: " + trunc(o, 3000)
					imports = dropPkgs(imports, g.GoPkgs)
					continue
				}
			}
			return s, fmt.Errorf("build harness: %v\n%s", err, o)
		}
		var err error
		out, err = run(s.Repo, goEnv(), time.Minute, s.H, "types")
		if err == nil {
			break
		}
		culprit := -1
		if strings.Contains(out, "panic:") && attempt < 6 {
			for i := range s.Groups {
				g := &s.Groups[i]
				if !g.OK() {
					continue
				}
				for _, p := range g.GoPkgs {
					if strings.Contains(out, p+".") || strings.Contains(out, strings.TrimPrefix(p, "github.com/cosmos/cosmos-proto/")+"/") {
						culprit = i
					}
				}
			}
		}
		if culprit < 0 {
			return s, fmt.Errorf("h types: %v\n%s", err, out)
		}
		g := &s.Groups[culprit]
		g.InitPanic = trunc(out, 3000)
		imports = dropPkgs(imports, g.GoPkgs)
	}
	if err := json.Unmarshal([]byte(out), &s.Types); err != nil {
		return s, fmt.Errorf("h types: %v", err)
	}
	return s, nil
}

var surfaceErrRe = regexp.MustCompile(`surface_gen\.go:\d+:\d+: .*\b(sp\d+)\.`)

func dropPkgs(imports, drop []string) []string {
	var keep []string
	for _, p := range imports {
		d := false
		for _, q := range drop {
			if p == q {
				d = true
			}
		}
		if !d {
			keep = append(keep, p)
		}
	}
	return keep
}

func (s *Scratch) Close() {
	if s != nil && s.Dir != "" && os.Getenv("VERIF_KEEP") == "" {
		os.RemoveAll(s.Dir)
	}
}

// HRun runs the harness worker.
func (s *Scratch) HRun(timeout time.Duration, args ...string) (string, error) {
	return run(s.Repo, goEnv(), timeout, s.H, args...)
}

func trunc(s string, n int) string {
	if len(s) > n {
		return s[:n] + "…"
	}
	return s
}

// TypesWhere selects message types.
func (s *Scratch) TypesWhere(pred func(TypeInfo) bool) []TypeInfo {
	var out []TypeInfo
	for _, t := range s.Types {
		if pred(t) {
			out = append(out, t)
		}
	}
	return out
}

func isCheckedIn(t TypeInfo) bool { return !strings.HasPrefix(t.Pkg, "verif.") }
