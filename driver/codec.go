package main

import (
	"bufio"
	"crypto/md5"
	"encoding/json"
	"fmt"
	"os"
	"path/filepath"
	"strings"
	"sync"
	"time"
)

// CodecJob: record random cases of one message type in the given mode and validate the trace.
type CodecJob struct {
	Type  string
	N     int
	Mode  string
	Seed  int64
	Depth int
	Plan  string // optional plan file instead of random cases
}

type CodecVerdict struct {
	Type  string         `json:"type"`
	Case  int            `json:"case"`
	Ev    string         `json:"ev"`
	Tag   string         `json:"tag"`
	Impl  bool           `json:"impl"`
	Ref   bool           `json:"ref"`
	Sig   string         `json:"sig"`
	Ops   []any          `json:"ops"`   // the ops of the case up to and including the failing one (replay)
	Event map[string]any `json:"event"` // trimmed observation
}

type CodecStats struct {
	Events    int64
	Cases     int64
	WellTyped int64 // unmarshal events on which the spec had a definite expectation
	States    int64
	ByEv      map[string]int64
	Types     map[string]bool
	Distinct  map[[16]byte]bool // distinct non-trivial (type, value, input) cases
	Samples   []any
}

func opOf(ev map[string]any) map[string]any {
	op := map[string]any{}
	for _, k := range []string{"op", "t", "v", "det", "prefix", "cap", "in", "merge", "discard", "tag"} {
		if v, ok := ev[k]; ok {
			op[k] = v
		}
	}
	return op
}

func trimEvent(ev map[string]any) map[string]any {
	out := map[string]any{}
	for _, k := range []string{"ev", "tag", "ok", "err", "panic", "n", "n_direct", "ref_n", "ref_ok", "ref_err", "fast_eq", "det", "merge", "discard", "case"} {
		if v, ok := ev[k]; ok {
			out[k] = v
		}
	}
	return out
}

// runCodecJobs executes jobs in parallel: harness recording, then TLC trace validation in chunks.
func runCodecJobs(c *Ctx, jobs []CodecJob, chunk int) ([]CodecVerdict, *CodecStats) {
	st := &CodecStats{ByEv: map[string]int64{}, Types: map[string]bool{}, Distinct: map[[16]byte]bool{}}
	var verdicts []CodecVerdict
	var mu sync.Mutex
	par := 12
	sem := make(chan struct{}, par)
	var wg sync.WaitGroup
	for ji, job := range jobs {
		wg.Add(1)
		sem <- struct{}{}
		go func(ji int, job CodecJob) {
			defer wg.Done()
			defer func() { <-sem }()
			dir := filepath.Join(c.S.Dir, "codec", fmt.Sprintf("j%d", ji))
			os.MkdirAll(dir, 0o755)
			schema := filepath.Join(dir, "schema.json")
			events := filepath.Join(dir, "events.ndjson")
			if out, err := c.S.HRun(2*time.Minute, "schema", "--type", job.Type, "--out", schema); err != nil {
				mu.Lock()
				c.R.InternalErr("h schema %s: %v %s", job.Type, err, trunc(out, 500))
				mu.Unlock()
				return
			}
			args := []string{"codec", "--type", job.Type, "--out", events, "--seed", fmt.Sprint(job.Seed), "--n", fmt.Sprint(job.N), "--mode", job.Mode}
			if job.Depth > 0 {
				args = append(args, "--depth", fmt.Sprint(job.Depth))
			}
			if job.Plan != "" {
				args = append(args, "--plan", job.Plan)
			}
			if out, err := c.S.HRun(20*time.Minute, args...); err != nil {
				mu.Lock()
				c.R.InternalErr("h codec %s: %v %s", job.Type, err, trunc(out, 1500))
				mu.Unlock()
				return
			}
			vs, err := validateCodecTrace(c, dir, schema, events, job.Type, chunk, st, &mu)
			mu.Lock()
			if err != nil {
				c.R.InternalErr("trace validation %s: %v", job.Type, err)
			}
			verdicts = append(verdicts, vs...)
			st.Types[job.Type] = true
			mu.Unlock()
		}(ji, job)
	}
	wg.Wait()
	return verdicts, st
}

// validateCodecTrace splits the event file at case boundaries into chunks of about `chunk`
// events, validates each chunk with TLC (Trace_Codec) and maps verdict lines back to events.
func validateCodecTrace(c *Ctx, dir, schema, events, typ string, chunk int, st *CodecStats, mu *sync.Mutex) ([]CodecVerdict, error) {
	f, err := os.Open(events)
	if err != nil {
		return nil, err
	}
	defer f.Close()
	sc := bufio.NewScanner(f)
	sc.Buffer(make([]byte, 1<<20), 1<<30)
	var chunks [][]string
	var cur []string
	for sc.Scan() {
		line := sc.Text()
		if strings.HasPrefix(line, `{"op":"load"`) && len(cur) >= chunk {
			chunks = append(chunks, cur)
			cur = nil
		}
		cur = append(cur, line)
	}
	if len(cur) > 0 {
		chunks = append(chunks, cur)
	}
	var out []CodecVerdict
	for ci, lines := range chunks {
		cdir := filepath.Join(dir, fmt.Sprintf("c%d", ci))
		os.MkdirAll(cdir, 0o755)
		tf := filepath.Join(cdir, "trace.ndjson")
		if err := os.WriteFile(tf, []byte(strings.Join(lines, "\n")+"\n"), 0o644); err != nil {
			return out, err
		}
		res, err := RunTLC(cdir, TLCOpts{Spec: "Trace_Codec", Cfg: "Trace_Codec.cfg", Env: map[string]string{"VERIF_SCHEMA": schema, "VERIF_TRACE": tf}, Timeout: 20 * time.Minute, HeapMB: 2500})
		if err != nil {
			return out, err
		}
		done := false
		var wt int64
		for _, l := range res.Lines {
			if strings.HasPrefix(l, "TRACE-DONE ") {
				var n int
				fmt.Sscanf(l, "TRACE-DONE %d welltyped-unmarshals %d", &n, &wt)
				done = n == len(lines)
			}
		}
		if res.Err != "" || !done {
			return out, fmt.Errorf("TLC did not accept/finish the trace (%d events): %s", len(lines), trunc(res.Err+"\n"+res.Raw, 1500))
		}
		mu.Lock()
		st.Events += int64(len(lines))
		st.WellTyped += wt
		st.States += res.Distinct
		for _, l := range lines {
			var hdr struct {
				Ev string `json:"ev"`
			}
			json.Unmarshal([]byte(l), &hdr)
			st.ByEv[hdr.Ev]++
			if hdr.Ev == "load" {
				st.Cases++
			}
			// a case/event is non-trivial when it carries a non-empty value or input
			if (hdr.Ev == "load" && !strings.Contains(l, `"v":{"f":{},"u":[]}`)) || (hdr.Ev == "unmarshal" && !strings.Contains(l, `"in":[]`)) {
				var key struct {
					T  string          `json:"t"`
					V  json.RawMessage `json:"v"`
					In json.RawMessage `json:"in"`
				}
				json.Unmarshal([]byte(l), &key)
				h := md5.Sum(append(append([]byte(typ), key.V...), key.In...))
				st.Distinct[h] = true
			}
		}
		if len(st.Samples) < 3 && len(lines) > 2 {
			var e map[string]any
			json.Unmarshal([]byte(lines[1]), &e)
			st.Samples = append(st.Samples, map[string]any{"type": typ, "event": compactEvent(e)})
		}
		mu.Unlock()
		for _, l := range res.Lines {
			if !strings.HasPrefix(l, "VERDICT ") {
				continue
			}
			var v struct {
				L    int    `json:"l"`
				C    int    `json:"c"`
				Ev   string `json:"ev"`
				Impl bool   `json:"impl"`
				Ref  bool   `json:"ref"`
				Sig  string `json:"sig"`
			}
			if err := json.Unmarshal([]byte(strings.TrimPrefix(l, "VERDICT ")), &v); err != nil {
				return out, fmt.Errorf("bad verdict line %q: %v", l, err)
			}
			if v.L < 1 || v.L > len(lines) {
				return out, fmt.Errorf("verdict index out of range: %d", v.L)
			}
			var ev map[string]any
			json.Unmarshal([]byte(lines[v.L-1]), &ev)
			cv := CodecVerdict{Type: typ, Case: v.C, Ev: v.Ev, Impl: v.Impl, Ref: v.Ref, Sig: v.Sig, Event: trimEvent(ev)}
			cv.Tag, _ = ev["tag"].(string)
			// ops of the case up to this event
			start := v.L - 1
			for start > 0 && !strings.HasPrefix(lines[start], `{"op":"load"`) {
				start--
			}
			for i := start; i <= v.L-1; i++ {
				var e map[string]any
				json.Unmarshal([]byte(lines[i]), &e)
				cv.Ops = append(cv.Ops, opOf(e))
			}
			out = append(out, cv)
		}
		os.RemoveAll(cdir)
	}
	return out, nil
}

func compactEvent(e map[string]any) map[string]any {
	out := map[string]any{}
	for k, v := range e {
		switch k {
		case "st", "ref_st", "v":
			b, _ := json.Marshal(v)
			out[k] = trunc(string(b), 300)
		case "out", "ref_out", "in", "prefix":
			b, _ := json.Marshal(v)
			out[k] = trunc(string(b), 200)
		default:
			out[k] = v
		}
	}
	return out
}

// codecCheck is the common shape of C01..C04, C14 direction-B runs: which types, which mode,
// which events are in scope for the property.
func codecTraceRun(c *Ctx, mode string, nQuick, nThorough int, inScope func(v CodecVerdict) bool) *CodecStats {
	n := c.pick(nQuick, nThorough)
	var jobs []CodecJob
	for i, t := range c.S.Types {
		if t.Fields == 0 && i%2 == 1 {
			continue
		}
		nn := n
		if t.Fields > 40 {
			nn = n/2 + 1 // very wide messages (test3.TestAllTypes, matrix) produce large events
		}
		jobs = append(jobs, CodecJob{Type: t.Name, N: nn, Mode: mode, Seed: c.Seed*1000 + int64(i)})
	}
	verdicts, st := runCodecJobs(c, jobs, 400)
	other := map[string]int{}
	for _, v := range verdicts {
		if !v.Ref {
			c.R.InternalErr("spec and reference disagree: type=%s ev=%s sig=%s event=%v", v.Type, v.Ev, v.Sig, v.Event)
			continue
		}
		if !inScope(v) {
			other[v.Sig]++
			continue
		}
		c.R.Violate(v.Sig, fmt.Sprintf("type=%s ev=%s tag=%s obs=%v", v.Type, v.Ev, v.Tag, v.Event),
			map[string]any{"engine": "codec", "type": v.Type, "ops": v.Ops})
	}
	if len(other) > 0 {
		c.R.Cov["out_of_scope_mismatches"] = other
	}
	c.R.AddCount("traces_validated_against_impl", st.Cases)
	c.R.AddCount("states", st.States)
	c.R.AddCount("transitions", st.Events)
	c.R.AddCount("evaluations", st.Events)
	c.R.AddCount("distinct_nontrivial", int64(len(st.Distinct)))
	c.R.Cov["rule"] = "one evaluation = one recorded API call validated as a step of the TLA+ trace spec; distinct_nontrivial = distinct (type, loaded value | unmarshal input) pairs with a non-empty value/input, counted by hash"
	c.R.AddCount("trace_events", st.Events)
	c.R.AddCount("trace_states", st.States)
	c.R.AddCount("welltyped_unmarshal_events", st.WellTyped)
	c.R.Cov["events_by_kind"] = st.ByEv
	c.R.Cov["message_types"] = len(st.Types)
	for _, s := range st.Samples {
		c.R.Sample(s)
	}
	return st
}

// ---- direction A: TLC-exported transitions of the decoder machine replayed in the code -------

type MCJob struct {
	Type   string
	Fields string // comma separated field filter on the root type ("" = all)
	MaxLen int
}

type EdgeVerdict struct {
	N       int    `json:"n"`
	P       []int  `json:"p"`
	I       int    `json:"i"`
	Shape   string `json:"shape"`
	Ref     bool   `json:"ref"`
	Fresh   bool   `json:"fresh"`
	Merge   bool   `json:"merge"`
	Fast    bool   `json:"fast"`
	Enc     bool   `json:"enc"`
	Size    bool   `json:"size"`
	RefEnc  bool   `json:"refenc"`
	RT      bool   `json:"rt"`
	Disc    bool   `json:"disc"`
	RefDisc bool   `json:"refdisc"`
	Note    string `json:"note"`
	Job     MCJob  `json:"job"`
}

type MCStats struct {
	States, Transitions, Edges int64
	Alphabet                   int64
	Jobs                       int
	Sample                     any
}

// runMCCodec model-checks MC_Codec for each job (invariants + per-transition assertions), with
// the export hook on, and replays every exported transition in the real code.
func runMCCodec(c *Ctx, jobs []MCJob) ([]EdgeVerdict, *MCStats) {
	st := &MCStats{}
	var out []EdgeVerdict
	var mu sync.Mutex
	sem := make(chan struct{}, 12)
	var wg sync.WaitGroup
	for ji, job := range jobs {
		wg.Add(1)
		sem <- struct{}{}
		go func(ji int, job MCJob) {
			defer wg.Done()
			defer func() { <-sem }()
			fail := func(f string, a ...any) {
				mu.Lock()
				c.R.InternalErr("MC_Codec %s[%s]: %s", job.Type, job.Fields, fmt.Sprintf(f, a...))
				mu.Unlock()
			}
			dir := filepath.Join(c.S.Dir, "mc", fmt.Sprintf("j%d", ji))
			os.MkdirAll(dir, 0o755)
			schema := filepath.Join(dir, "schema.json")
			args := []string{"schema", "--type", job.Type, "--out", schema}
			if job.Fields != "" {
				args = append(args, "--fields", job.Fields)
			}
			if o, err := c.S.HRun(2*time.Minute, args...); err != nil {
				fail("h schema: %v %s", err, trunc(o, 500))
				return
			}
			exp := filepath.Join(dir, "export.txt")
			ef, err := os.Create(exp)
			if err != nil {
				fail("%v", err)
				return
			}
			bw := bufio.NewWriterSize(ef, 1<<20)
			res, err := RunTLC(filepath.Join(dir, "tlc"), TLCOpts{Spec: "MC_Codec", Cfg: "MC_Codec.cfg", Workers: 1, Timeout: 60 * time.Minute, HeapMB: 4000,
				Env:      map[string]string{"VERIF_SCHEMA": schema, "VERIF_TYPE": job.Type, "VERIF_MAXLEN": fmt.Sprint(job.MaxLen), "VERIF_EXPORT": "1", "VERIF_FWD": "1"},
				LineSink: func(l string) { bw.WriteString(l); bw.WriteByte('\n') }})
			bw.Flush()
			ef.Close()
			if err != nil {
				fail("tlc: %v", err)
				return
			}
			if res.Err != "" {
				// an invariant or StepOK failure on the model is a modelling error, never a verdict
				fail("TLC reported an error on the model (spec problem, not a code violation): %s", trunc(res.Err, 1500))
				return
			}
			verd := filepath.Join(dir, "verdicts.ndjson")
			if o, err := c.S.HRun(30*time.Minute, "codec-replay", "--type", job.Type, "--in", exp, "--out", verd); err != nil {
				fail("h codec-replay: %v %s", err, trunc(o, 1500))
				return
			}
			vf, err := os.Open(verd)
			if err != nil {
				fail("%v", err)
				return
			}
			defer vf.Close()
			sc := bufio.NewScanner(vf)
			sc.Buffer(make([]byte, 1<<20), 1<<28)
			var local []EdgeVerdict
			var edges, alpha int64
			var sample any
			for sc.Scan() {
				line := sc.Bytes()
				if strings.Contains(string(line), `"summary":true`) {
					var s struct {
						Edges    int64 `json:"edges"`
						Alphabet int64 `json:"alphabet"`
						Sample   any   `json:"sample"`
					}
					json.Unmarshal(line, &s)
					edges, alpha, sample = s.Edges, s.Alphabet, s.Sample
					continue
				}
				var v EdgeVerdict
				if err := json.Unmarshal(line, &v); err != nil {
					fail("bad verdict: %v", err)
					return
				}
				v.Job = job
				local = append(local, v)
			}
			if edges == 0 || edges != res.Generated-1 {
				fail("edge count mismatch: replayed %d, TLC generated %d states", edges, res.Generated)
				return
			}
			mu.Lock()
			st.States += res.Distinct
			st.Transitions += res.Generated
			st.Edges += edges
			st.Alphabet += alpha
			st.Jobs++
			if st.Sample == nil && sample != nil {
				st.Sample = map[string]any{"job": job, "edge": sample}
			}
			out = append(out, local...)
			mu.Unlock()
			os.RemoveAll(dir)
		}(ji, job)
	}
	wg.Wait()
	return out, st
}

// mcJobs returns the model-checking jobs for a tier.
func mcJobs(c *Ctx) []MCJob {
	has := func(name string) bool {
		for _, t := range c.S.Types {
			if t.Name == name {
				return true
			}
		}
		return false
	}
	var jobs []MCJob
	add := func(t, f string, q, th int) {
		if has(t) {
			jobs = append(jobs, MCJob{t, f, c.pick(q, th)})
		}
	}
	// freshly generated model schema: whole message shallow, families deeper
	add("verif.s0.M", "", 2, 2)
	add("verif.s0.M", "i,d,s,b,e,z,t,f,fl", 2, 3)
	add("verif.s0.M", "ri,rn,rs,ru", 2, 3)
	add("verif.s0.M", "msi,min,mbb", 2, 3)
	add("verif.s0.M", "n,oi,os,on,qb,qd", 2, 3)
	add("verif.s0.N", "", 2, 3)
	// every ORDER of three records over the members of one oneof (message member, other member,
	// message member again ...): small alphabets, length 3 also in the quick tier
	add("verif.s0.M", "os,on", 3, 4)
	add("A", "ONEOF_B,ONEOF_STRING", 3, 4)
	add("goproto.proto.test3.TestAllTypes", "oneof_nested_message,oneof_string,oneof_uint32", 3, 3)
	// checked-in types (sub-schemas derived from the real descriptors)
	add("A", "enum,some_boolean,INT32,SINT32,UINT32,INT64,SING64,UINT64,SFIXED32,FIXED32,FLOAT,SFIXED64,FIXED64,DOUBLE,STRING,BYTES", 2, 2)
	add("A", "MESSAGE,MAP,LIST,ONEOF_B,ONEOF_STRING,LIST_ENUM,imported", 2, 3)
	add("goproto.proto.test3.TestAllTypes", "singular_int32,singular_sint64,singular_nested_message,repeated_int32,repeated_nested_message,map_int32_int32,map_string_nested_message,oneof_uint32,oneof_nested_message,oneof_string", 2, 3)
	add("goproto.proto.test3.TestAllTypes", "repeated_sint32,repeated_fixed64,repeated_float,repeated_bool,repeated_string,repeated_bytes,repeated_nested_enum,map_bool_bool,map_string_bytes,map_sint64_sint64,map_fixed32_fixed32,map_string_nested_enum", 2, 2)
	// matrix corpus (fresh)
	add("verif.mx.Sub", "", 2, 3)
	add("verif.mxtag.Tags", "t1,t2047,t2048,t262144,t33554432,t536870911,rp20,ru300001,mp40000002,ow536870004,rm3003", 2, 2)
	if c.Thorough() {
		add("verif.mx.All", "s_sint32,s_sint64,s_bool,s_float,s_enum,r_sint32,r_bool,r_enum,u_sint64,u_double,u_enum,o_message,o_message2,o_bool,o_enum", 2, 2)
		add("verif.mxmap.Maps", "", 1, 1)
		add("verif.xa.Holder", "", 1, 2)
		add("verif.nm.CollideShapes", "", 2, 2)
	}
	return jobs
}

// mcCodecCheck runs direction A for a property; bad(v) says whether an edge verdict is in the
// property's scope and failing, returning the flag name.
func mcCodecCheck(c *Ctx, bad func(v EdgeVerdict) string) {
	jobs := mcJobs(c)
	verdicts, st := runMCCodec(c, jobs)
	for _, v := range verdicts {
		if !v.Ref || !v.RefEnc || !v.RefDisc {
			c.R.InternalErr("spec and reference disagree on exported edge: %+v", v)
			continue
		}
		if flag := bad(v); flag != "" {
			c.R.Violate("mc:"+flag+":"+v.Shape, fmt.Sprintf("type=%s fields=%s path=%v record#=%d %s", v.Job.Type, v.Job.Fields, v.P, v.I, v.Note),
				map[string]any{"engine": "mc_codec", "job": v.Job, "path": v.P, "record": v.I})
		}
	}
	c.R.AddCount("states", st.States)
	c.R.AddCount("transitions", st.Transitions)
	c.R.AddCount("traces_validated_against_impl", st.Edges)
	c.R.AddCount("evaluations", st.Edges)
	c.R.AddCount("mc_edges_replayed", st.Edges)
	c.R.AddCount("mc_states", st.States)
	c.R.Cov["mc_jobs"] = st.Jobs
	c.R.Cov["mc_alphabet_records_total"] = st.Alphabet
	c.R.Cov["exhaustive"] = true
	c.R.Cov["exhaustive_note"] = "all record sequences up to MaxLen over the schema-derived alphabet, for each model-checking job; every generated transition replayed in the code"
	if st.Sample != nil {
		c.R.Sample(st.Sample)
	}
}
