package main

import (
	"bufio"
	"encoding/json"
	"fmt"
	"os"
	"path/filepath"
	"strings"
	"time"
)

// apalacheInv checks one invariant of an APA_* spec at length 0; returns "NoError", "Error" or "".
func apalacheInv(dir, spec, inv string) (string, string) {
	os.MkdirAll(dir, 0o755)
	src, err := os.ReadFile(filepath.Join(verifDir, "spec", spec+".tla"))
	if err != nil {
		return "", err.Error()
	}
	os.WriteFile(filepath.Join(dir, spec+".tla"), src, 0o644)
	out, _ := run(dir, nil, 15*time.Minute, "apalache-mc", "check", "--inv="+inv, "--length=0", "--out-dir="+filepath.Join(dir, "out-"+inv), spec+".tla")
	switch {
	case strings.Contains(out, "The outcome is: NoError"):
		return "NoError", out
	case strings.Contains(out, "The outcome is: Error"):
		return "Error", out
	}
	return "", out
}

// apalacheCheck runs `apalache-mc check <args> spec.tla` on a private copy of the module.
func apalacheCheck(dir, spec string, args ...string) (string, string) {
	os.MkdirAll(dir, 0o755)
	src, err := os.ReadFile(filepath.Join(verifDir, "spec", spec+".tla"))
	if err != nil {
		return "", err.Error()
	}
	os.WriteFile(filepath.Join(dir, spec+".tla"), src, 0o644)
	full := append(append([]string{"check"}, args...), "--out-dir="+filepath.Join(dir, "out"), spec+".tla")
	out, _ := run(dir, nil, 15*time.Minute, "apalache-mc", full...)
	switch {
	case strings.Contains(out, "The outcome is: NoError"):
		return "NoError", out
	case strings.Contains(out, "The outcome is: Error"):
		return "Error", out
	}
	return "", out
}

// oneofInductive: unbounded-history proof of the oneof discipline of the reflection machine
// (spec/APA_Oneof.tla): base case, inductive step, and the action properties after one step.
func oneofInductive(c *Ctx) {
	dir := filepath.Join(c.S.Dir, "apa-oneof")
	for _, a := range [][]string{
		{"--init=Init", "--inv=IndInv", "--length=0"},
		{"--init=IndInit", "--inv=IndInv", "--length=1"},
		{"--init=IndInit", "--inv=StepProps", "--length=1"},
	} {
		if r, out := apalacheCheck(dir, "APA_Oneof", a...); r != "NoError" {
			c.R.InternalErr("Apalache did not confirm APA_Oneof %v: %q %s", a, r, trunc(lastLines(out, 8), 600))
			return
		}
	}
	c.R.Cov["apalache_oneof_inductive_invariant"] = "IndInv inductive (Init => IndInv; IndInv /\\ Next => IndInv'), StepProps after every step: NoError"
}

func init() {
	register(&Check{ID: "C17", Level: "model_checking", Run: func(c *Ctx) {
		c.R.Trusted = []string{"TLC 1.8.0 / SANY", "Apalache 0.58.0 + Z3", "Go toolchain", "timestamppb/durationpb"}
		dir := filepath.Join(c.S.Dir, "timepb")
		os.MkdirAll(dir, 0o755)
		// (a) scaled exhaustive model, exported and replayed
		exp := filepath.Join(dir, "cases.txt")
		ef, _ := os.Create(exp)
		bw := bufio.NewWriter(ef)
		res, err := RunTLC(filepath.Join(dir, "tlc"), TLCOpts{Spec: "TimePB", Cfg: "TimePB.cfg", Workers: 1, Timeout: 30 * time.Minute,
			Env: map[string]string{"VERIF_EXPORT": "1", "VERIF_BORROW": "negative"}, LineSink: func(l string) { bw.WriteString(l); bw.WriteByte('\n') }})
		bw.Flush()
		ef.Close()
		if err != nil || res.Err != "" {
			c.R.InternalErr("TimePB.tla: %v %s", err, trunc(res.Err, 1500))
			return
		}
		c.R.AddCount("states", res.Distinct)
		c.R.AddCount("transitions", res.Generated)
		verd := filepath.Join(dir, "v.ndjson")
		if o, err := c.S.HRun(20*time.Minute, "timepb-replay", "--in", exp, "--out", verd); err != nil {
			c.R.InternalErr("timepb-replay: %v %s", err, trunc(o, 1500))
			return
		}
		f, _ := os.Open(verd)
		sc := bufio.NewScanner(f)
		okSum := false
		for sc.Scan() {
			var v struct {
				Summary bool   `json:"summary"`
				Kind    string `json:"kind"`
				Note    string `json:"note"`
				Case    any    `json:"case"`
				Cases   int64  `json:"cases"`
			}
			json.Unmarshal(sc.Bytes(), &v)
			if v.Summary {
				okSum = true
				c.R.AddCount("traces_validated_against_impl", v.Cases)
				c.R.AddCount("evaluations", 3*v.Cases)
				c.R.Cov["scaled_cases_replayed"] = v.Cases
				continue
			}
			c.R.Violate(v.Kind, v.Note, map[string]any{"engine": "timepb", "scaled_case": v.Case})
		}
		f.Close()
		if !okSum {
			c.R.InternalErr("timepb-replay: no summary")
		}
		// (b) true-scale recorded executions validated by TLC in 64-bit digit arithmetic
		evs := filepath.Join(dir, "events.ndjson")
		n := c.pick(4000, 200000)
		if o, err := c.S.HRun(20*time.Minute, "timepb-record", "--n", fmt.Sprint(n), "--seed", fmt.Sprint(c.Seed), "--out", evs); err != nil {
			c.R.InternalErr("timepb-record: %v %s", err, trunc(o, 1500))
			return
		}
		tres, err := RunTLC(filepath.Join(dir, "tlc2"), TLCOpts{Spec: "Trace_TimePB", Cfg: "Trace_TimePB.cfg", Env: map[string]string{"VERIF_TRACE": evs}, Timeout: 60 * time.Minute})
		if err != nil || tres.Err != "" {
			c.R.InternalErr("Trace_TimePB: %v %s", err, trunc(tres.Err, 1500))
			return
		}
		done := false
		lines := readLines(evs)
		for _, l := range tres.Lines {
			if strings.HasPrefix(l, "TRACE-DONE") {
				done = true
			}
			if strings.HasPrefix(l, "VERDICT ") {
				var v struct {
					L              int
					Add, Std, Norm bool
				}
				json.Unmarshal([]byte(l[8:]), &v)
				sig := "add:value"
				switch {
				case !v.Norm:
					sig = "add:not-normalised"
				case !v.Std && v.Add:
					sig = "addstd"
				}
				ev := ""
				if v.L >= 1 && v.L <= len(lines) {
					ev = lines[v.L-1]
				}
				c.R.Violate(sig, "recorded call is not a step of Trace_TimePB: "+trunc(ev, 400), map[string]any{"engine": "timepb", "event": ev})
			}
		}
		if !done {
			c.R.InternalErr("Trace_TimePB did not consume the trace")
		}
		c.R.AddCount("traces_validated_against_impl", int64(n))
		c.R.AddCount("evaluations", int64(n))
		c.R.AddCount("distinct_nontrivial", res.Distinct)
		c.R.Cov["true_scale_events"] = n
		// (c) Apalache: the algorithm at true scale, all inputs
		for _, inv := range []string{"ExactOnValid", "OverflowPanics"} {
			r, out := apalacheInv(filepath.Join(dir, "apa"), "APA_TimePB", inv)
			if r != "NoError" {
				c.R.InternalErr("Apalache %s: outcome %q: %s", inv, r, trunc(lastLines(out, 6), 600))
			}
			c.R.Cov["apalache_"+inv] = r
		}
		c.R.Cov["exhaustive"] = true
		c.R.Cov["rule"] = "scaled model (4 nanos per second, 6-bit int64): every (t, d) pair; true scale: boundary/random/overflow inputs validated in 64-bit digit arithmetic; Apalache: all inputs symbolically"
		c.R.Sample(map[string]any{"t": "(0s, 1ns)", "d": "(0s, -5ns)", "want": "(-1s, 999999996ns)"})
	}})
}

func readLines(path string) []string {
	b, err := os.ReadFile(path)
	if err != nil {
		return nil
	}
	return strings.Split(strings.TrimRight(string(b), "\n"), "\n")
}
