package main

import (
	"bufio"
	"crypto/sha256"
	"encoding/hex"
	"encoding/json"
	"fmt"
	"os"
	"path/filepath"
	"sort"
	"strings"
	"time"
)

type KnownFinding struct {
	Property string `json:"property"`
	Sig      string `json:"sig"`
	What     string `json:"what"`
	Fixed    string `json:"fixed,omitempty"` // commit id when repaired; a fixed entry suppresses nothing
}

func loadKnown() []KnownFinding {
	f, err := os.Open(filepath.Join(verifDir, "known_findings.jsonl"))
	if err != nil {
		return nil
	}
	defer f.Close()
	var out []KnownFinding
	sc := bufio.NewScanner(f)
	for sc.Scan() {
		line := strings.TrimSpace(sc.Text())
		if line == "" || strings.HasPrefix(line, "#") {
			continue
		}
		var k KnownFinding
		if err := json.Unmarshal([]byte(line), &k); err == nil && k.Property != "" {
			out = append(out, k)
		}
	}
	return out
}

type Violation struct {
	Sig    string `json:"sig"`
	Detail string `json:"detail"`
	Replay any    `json:"replay"`
}

type Result struct {
	ID          string
	Level       string
	Tier        string
	Seed        int64
	Start       time.Time
	Violations  []Violation
	Internal    []string
	Cov         map[string]any
	Samples     []any
	Assumptions []string
	Trusted     []string
	Notes       []string
}

func NewResult(id, level, tier string, seed int64) *Result {
	return &Result{ID: id, Level: level, Tier: tier, Seed: seed, Start: time.Now(), Cov: map[string]any{}}
}

func (r *Result) AddCount(key string, n int64) {
	if v, ok := r.Cov[key].(int64); ok {
		r.Cov[key] = v + n
	} else {
		r.Cov[key] = n
	}
}

func (r *Result) Violate(sig, detail string, replay any) {
	r.Violations = append(r.Violations, Violation{sig, detail, replay})
}
func (r *Result) InternalErr(f string, a ...any) {
	r.Internal = append(r.Internal, fmt.Sprintf(f, a...))
}
func (r *Result) Sample(s any) {
	if len(r.Samples) < 6 {
		r.Samples = append(r.Samples, s)
	}
}

// Finish prints the verdict lines, writes the evidence file and returns the exit code.
func (r *Result) Finish() int {
	known := loadKnown()
	knownBySig := map[string]KnownFinding{}
	for _, k := range known {
		if k.Property == r.ID && k.Fixed == "" {
			knownBySig[k.Sig] = k
		}
	}
	bySig := map[string][]Violation{}
	var order []string
	for _, v := range r.Violations {
		if _, ok := bySig[v.Sig]; !ok {
			order = append(order, v.Sig)
		}
		bySig[v.Sig] = append(bySig[v.Sig], v)
	}
	sort.Strings(order)
	unlisted := 0
	knownCounts := map[string]int{}
	printed := 0
	for _, sig := range order {
		vs := bySig[sig]
		if k, ok := knownBySig[sig]; ok {
			fmt.Printf("KNOWN-FINDING: property=%s %s [sig=%s, %d occurrence(s)]\n", r.ID, k.What, sig, len(vs))
			knownCounts[sig] = len(vs)
			continue
		}
		unlisted += len(vs)
		// one replay file per signature (first occurrence), all listed in it
		dir := filepath.Join(outDir(), "replays", r.ID)
		os.MkdirAll(dir, 0o755)
		payload := map[string]any{"property": r.ID, "sig": sig, "detail": vs[0].Detail, "replay": vs[0].Replay, "occurrences": len(vs), "seed": r.Seed, "tier": r.Tier}
		b, _ := json.MarshalIndent(payload, "", " ")
		h := sha256.Sum256(b)
		path := filepath.Join(dir, hex.EncodeToString(h[:6])+".json")
		os.WriteFile(path, b, 0o644)
		printed++
		if printed <= 12 {
			fmt.Printf("VIOLATION property=%s replay=%s\n", r.ID, path)
			fmt.Printf("  sig=%s occurrences=%d detail=%s\n", sig, len(vs), trunc(vs[0].Detail, 600))
		} else if printed == 13 {
			fmt.Printf("  (further violation signatures are listed in the evidence file and under %s)\n", dir)
		}
	}
	for _, m := range r.Internal {
		fmt.Printf("INTERNAL property=%s %s\n", r.ID, trunc(m, 2000))
	}
	cov := r.Cov
	if len(r.Samples) == 0 {
		r.Samples = []any{"(no sample recorded)"}
	}
	cov["samples"] = r.Samples
	cov["known_findings_seen"] = knownCounts
	if len(r.Trusted) > 0 {
		cov["trusted_base"] = r.Trusted
	}
	if len(r.Notes) > 0 {
		cov["notes"] = r.Notes
	}
	if r.Assumptions == nil {
		r.Assumptions = []string{}
	}
	ev := map[string]any{
		"property_id": r.ID,
		"tier":        r.Tier,
		"seed":        r.Seed,
		"level":       r.Level,
		"coverage":    cov,
		"assumptions": r.Assumptions,
		"wall_s":      time.Since(r.Start).Seconds(),
		"violations":  unlisted,
	}
	if len(r.Internal) > 0 {
		ev["internal_errors"] = r.Internal
	}
	b, merr := json.MarshalIndent(ev, "", " ")
	if merr != nil {
		// never write an unreadable evidence file: fall back to a textual rendering of the samples
		var ss []any
		for _, s := range r.Samples {
			ss = append(ss, fmt.Sprint(s))
		}
		cov["samples"] = ss
		b, merr = json.MarshalIndent(ev, "", " ")
		if merr != nil {
			fmt.Printf("INTERNAL cannot encode evidence: %v\n", merr)
			return 2
		}
	}
	os.MkdirAll(filepath.Join(outDir(), "evidence"), 0o755)
	if err := os.WriteFile(filepath.Join(outDir(), "evidence", r.ID+".json"), b, 0o644); err != nil {
		fmt.Printf("INTERNAL cannot write evidence: %v\n", err)
		return 2
	}
	switch {
	case unlisted > 0:
		return 1
	case len(r.Internal) > 0:
		return 2
	}
	fmt.Printf("OK property=%s tier=%s seed=%d wall=%.1fs\n", r.ID, r.Tier, r.Seed, time.Since(r.Start).Seconds())
	return 0
}

// outDir is where evidence and replay files go: /verif, unless a trial run against a scratch
// worktree (tools/try_patch_wt.sh) redirects them so that parallel trials do not overwrite the
// evidence of the real tree.
func outDir() string {
	if d := os.Getenv("VERIF_EVIDENCE_DIR"); d != "" {
		return d
	}
	return verifDir
}
