package main

import (
	"encoding/json"
	"fmt"
	"os"
	"path/filepath"
	"strings"
	"time"
)

// runReplay re-runs one recorded violation against the current tree.
// exit 1: it still reproduces; 0: it no longer does; 2: could not be replayed.
func runReplay(path string) int {
	b, err := os.ReadFile(path)
	if err != nil {
		fmt.Fprintf(os.Stderr, "replay: %v\n", err)
		return 2
	}
	var rec struct {
		Property string `json:"property"`
		Sig      string `json:"sig"`
		Seed     int64  `json:"seed"`
		Tier     string `json:"tier"`
		Replay   struct {
			Engine string `json:"engine"`
			Type   string `json:"type"`
			Ops    []any  `json:"ops"`
		} `json:"replay"`
	}
	if err := json.Unmarshal(b, &rec); err != nil {
		fmt.Fprintf(os.Stderr, "replay: %v\n", err)
		return 2
	}
	if rec.Replay.Engine == "codec" && len(rec.Replay.Ops) > 0 {
		// precise replay: the recorded operation sequence, re-executed and re-validated by TLC
		s, err := NewScratch(true, "")
		defer s.Close()
		if err != nil {
			fmt.Fprintf(os.Stderr, "replay: scratch: %v\n", err)
			return 2
		}
		r := NewResult(rec.Property, "model_checking", "quick", rec.Seed)
		c := &Ctx{Tier: "quick", Seed: rec.Seed, S: s, R: r}
		plan := filepath.Join(s.Dir, "plan.ndjson")
		var sb strings.Builder
		for _, op := range rec.Replay.Ops {
			ob, _ := json.Marshal(op)
			sb.Write(ob)
			sb.WriteByte('\n')
		}
		os.WriteFile(plan, []byte(sb.String()), 0o644)
		verdicts, st := runCodecJobs(c, []CodecJob{{Type: rec.Replay.Type, Plan: plan, Mode: "all", N: 1, Seed: 1}}, 1000)
		if len(r.Internal) > 0 {
			for _, m := range r.Internal {
				fmt.Println("INTERNAL", m)
			}
			return 2
		}
		fmt.Printf("replayed %d events of type %s\n", st.Events, rec.Replay.Type)
		for _, v := range verdicts {
			fmt.Printf("mismatch: ev=%s sig=%s impl=%v ref=%v obs=%v\n", v.Ev, v.Sig, v.Impl, v.Ref, v.Event)
			if v.Sig == rec.Sig && !v.Impl {
				fmt.Printf("VIOLATION property=%s replay=%s\n", rec.Property, path)
				return 1
			}
		}
		fmt.Println("the recorded case no longer violates the specification")
		return 0
	}
	// other engines: re-run the property's check with the recorded seed and tier and look for the
	// same signature
	tier := rec.Tier
	if tier == "" {
		tier = "quick"
	}
	ck, ok := checks[rec.Property]
	if !ok {
		return 2
	}
	r := NewResult(rec.Property, ck.Level, tier, rec.Seed)
	c := &Ctx{Tier: tier, Seed: rec.Seed, R: r}
	extra := ""
	if ck.Random != nil {
		if n := ck.Random(tier); n > 0 {
			tmp, _ := os.MkdirTemp(os.Getenv("VERIF_TMP"), "verif-rnd-")
			defer os.RemoveAll(tmp)
			extra, _, _ = randomSchemas(n, rec.Seed, tmp)
		}
	}
	s, err := NewScratch(ck.Probes, extra)
	defer s.Close()
	if err != nil {
		fmt.Fprintf(os.Stderr, "replay: scratch: %v\n", err)
		return 2
	}
	c.S, c.Extra = s, extra
	ck.Run(c)
	for _, v := range r.Violations {
		if v.Sig == rec.Sig {
			fmt.Printf("VIOLATION property=%s replay=%s\n  sig=%s %s\n", rec.Property, path, v.Sig, trunc(v.Detail, 400))
			return 1
		}
	}
	if len(r.Internal) > 0 {
		return 2
	}
	fmt.Println("the recorded signature no longer occurs")
	return 0
}

// runWarm parses every specification (SANY) so that a broken spec is found at setup time.
func runWarm() int {
	dir, _ := os.MkdirTemp("", "verif-warm-")
	defer os.RemoveAll(dir)
	specs, _ := filepath.Glob(filepath.Join(verifDir, "spec", "*.tla"))
	bad := 0
	for _, sp := range specs {
		src, _ := os.ReadFile(sp)
		os.WriteFile(filepath.Join(dir, filepath.Base(sp)), src, 0o644)
	}
	for _, sp := range specs {
		name := filepath.Base(sp)
		if strings.HasPrefix(name, "APA_") {
			continue
		}
		out, err := run(dir, nil, 2*time.Minute, "java", "-Djava.io.tmpdir="+dir, "-cp", tlaJar, "tla2sany.SANY", name)
		if err != nil || strings.Contains(out, "*** Errors") || strings.Contains(out, "Fatal errors") {
			fmt.Printf("SANY %s: %v\n%s\n", name, err, trunc(out, 1500))
			bad++
		}
	}
	if bad > 0 {
		return 2
	}
	fmt.Printf("warm: %d specifications parse\n", len(specs))
	return 0
}

// runSelftest: the non-vacuity variants built into the specifications must FAIL, and the
// binding must reject corrupted traces.
func runSelftest(args []string) int {
	dir, _ := os.MkdirTemp("", "verif-selftest-")
	defer os.RemoveAll(dir)
	fail := 0
	expectViolation := func(name, spec, cfg string, env map[string]string, needSchema bool) {
		res, err := RunTLC(filepath.Join(dir, name), TLCOpts{Spec: spec, Cfg: cfg, Env: env, Workers: 4, Timeout: 10 * time.Minute})
		if err != nil {
			fmt.Printf("selftest %s: %v\n", name, err)
			fail++
			return
		}
		if !strings.Contains(res.Err, "is violated") {
			fmt.Printf("selftest %s: expected an invariant violation under the variant, TLC said: %s\n", name, trunc(res.Err+res.Raw, 400))
			fail++
			return
		}
		fmt.Printf("selftest %s: variant violates the invariant as required (%s)\n", name, firstLine(res.Err))
	}
	expectViolation("plugin-unsorted", "Plugin", "Plugin.cfg", map[string]string{"VERIF_SORTED": "0", "VERIF_EXPORT": "0"}, false)
	expectViolation("mem-alias", "Mem", "Mem.cfg", map[string]string{"VERIF_ALIAS": "1"}, false)
	expectViolation("readers-caching", "Readers", "Readers.cfg", map[string]string{"VERIF_CACHING": "1"}, false)
	// decoded keys interned in a package-level table: shared state between decodes, and a crash
	expectViolation("decoders-intern", "Decoders", "Decoders.cfg", map[string]string{"VERIF_INTERN": "1"}, false)
	expectViolation("decoders-intern-crash", "Decoders", "Decoders_crash.cfg", map[string]string{"VERIF_INTERN": "1"}, false)
	// a view object that keeps the keys of its last Range: a write by a reader, and lost / repeated visits
	expectViolation("readers-view-cache", "Readers", "Readers.cfg", map[string]string{"VERIF_CACHING": "0", "VERIF_VIEWCACHE": "1"}, false)
	expectViolation("readers-view-cache-results", "Readers", "Readers_view.cfg", map[string]string{"VERIF_CACHING": "0", "VERIF_VIEWCACHE": "1"}, false)
	expectViolation("rapidgen-enum-by-index", "RapidGen", "RapidGen.cfg", map[string]string{"VERIF_ENUMIDX": "1"}, false)
	expectViolation("skip-lax-scanner", "MC_Parse", "MC_Parse.cfg", map[string]string{"VERIF_LAX": "1", "VERIF_MAXLEN": "3", "VERIF_EXPORT": "0"}, false)
	expectViolation("timepb-pinned-borrow", "TimePB", "TimePB.cfg", map[string]string{"VERIF_BORROW": "pinned", "VERIF_EXPORT": "0"}, false)
	if r, out := apalacheInv(filepath.Join(dir, "apa"), "APA_TimePB", "ExactOnValidPinned"); r != "Error" {
		fmt.Printf("selftest apalache-pinned: expected a counterexample, got %q %s\n", r, trunc(lastLines(out, 4), 300))
		fail++
	} else {
		fmt.Println("selftest apalache-pinned: counterexample found as required")
	}
	if r, out := apalacheCheck(filepath.Join(dir, "apa-oneof"), "APA_Oneof", "--init=IndInit", "--next=NextBroken", "--inv=IndInv", "--length=1"); r != "Error" {
		fmt.Printf("selftest apalache-oneof-broken: expected a counterexample for a Set that keeps the other members, got %q %s\n", r, trunc(lastLines(out, 4), 300))
		fail++
	} else {
		fmt.Println("selftest apalache-oneof-broken: counterexample found as required")
	}
	// the variants that need a schema and the binding tests need the harness
	s, err := NewScratch(false, "")
	defer s.Close()
	if err != nil {
		fmt.Printf("selftest: scratch: %v\n", err)
		return 2
	}
	schema := filepath.Join(dir, "s0.schema.json")
	if o, err := s.HRun(time.Minute, "schema", "--type", "verif.s0.M", "--out", schema); err != nil {
		fmt.Printf("selftest: %v %s\n", err, o)
		return 2
	}
	expectViolation("codec-flag-not-forwarded", "MC_Codec", "MC_Codec.cfg",
		map[string]string{"VERIF_SCHEMA": schema, "VERIF_TYPE": "verif.s0.M", "VERIF_MAXLEN": "2", "VERIF_EXPORT": "0", "VERIF_FWD": "0"}, true)
	// binding: corrupt one recorded field and require Trace_Codec to reject exactly that event
	events := filepath.Join(dir, "events.ndjson")
	if o, err := s.HRun(2*time.Minute, "codec", "--type", "verif.s0.M", "--n", "5", "--seed", "7", "--mode", "all", "--out", events); err != nil {
		fmt.Printf("selftest: %v %s\n", err, o)
		return 2
	}
	lines := readLines(events)
	traceSpec := "Trace_Codec"
	corrupt := func(name string, pick func(map[string]any) bool, mutate func(map[string]any)) {
		out := make([]string, len(lines))
		copy(out, lines)
		hit := -1
		for i, l := range lines {
			var e map[string]any
			json.Unmarshal([]byte(l), &e)
			if hit < 0 && pick(e) {
				mutate(e)
				b, _ := json.Marshal(e)
				out[i] = string(b)
				hit = i + 1
			}
		}
		if hit < 0 {
			fmt.Printf("selftest binding %s: no event to corrupt\n", name)
			fail++
			return
		}
		tf := filepath.Join(dir, name+".ndjson")
		os.WriteFile(tf, []byte(strings.Join(out, "\n")+"\n"), 0o644)
		res, err := RunTLC(filepath.Join(dir, "b-"+name), TLCOpts{Spec: traceSpec, Cfg: traceSpec + ".cfg", Env: map[string]string{"VERIF_SCHEMA": schema, "VERIF_TRACE": tf}, Timeout: 10 * time.Minute})
		if err != nil || res.Err != "" {
			fmt.Printf("selftest binding %s: %v %s\n", name, err, trunc(res.Err, 300))
			fail++
			return
		}
		rejected := false
		for _, l := range res.Lines {
			if strings.HasPrefix(l, "VERDICT ") && strings.Contains(l, fmt.Sprintf(`"l":%d,`, hit)) {
				rejected = true
			}
		}
		if !rejected {
			fmt.Printf("selftest binding %s: corrupted event %d was NOT rejected\n", name, hit)
			fail++
		} else {
			fmt.Printf("selftest binding %s: corrupted event %d rejected\n", name, hit)
		}
	}
	corrupt("flip-output-byte", func(e map[string]any) bool {
		o, _ := e["out"].([]any)
		return e["ev"] == "marshal" && e["det"] == true && len(o) > 2
	},
		func(e map[string]any) { o := e["out"].([]any); o[1] = float64(int(o[1].(float64)) ^ 1) })
	corrupt("wrong-size", func(e map[string]any) bool { return e["ev"] == "size" }, func(e map[string]any) { e["n"] = e["n"].(float64) + 1 })
	corrupt("drop-unknown", func(e map[string]any) bool {
		st, _ := e["st"].(map[string]any)
		if e["ev"] != "unmarshal" || st == nil {
			return false
		}
		u, _ := st["u"].([]any)
		return len(u) > 0
	}, func(e map[string]any) { e["st"].(map[string]any)["u"] = []any{} })
	// the same for library-driven histories (Trace_Lib): a flipped result, a state with a field
	// dropped, a removed event
	if o, err := s.HRun(2*time.Minute, "lib-record", "--type", "verif.s0.M", "--n", "3", "--seed", "7", "--out", events); err != nil {
		fmt.Printf("selftest: %v %s\n", err, o)
		return 2
	}
	lines = readLines(events)
	traceSpec = "Trace_Lib"
	isOp := func(e map[string]any, side string) (map[string]any, map[string]any, bool) {
		op, _ := e["op"].(map[string]any)
		ret, _ := e["ret"].(map[string]any)
		return op, ret, e["ev"] == "op" && e["side"] == side && op != nil && ret != nil
	}
	corrupt("lib-flip-bool", func(e map[string]any) bool { _, ret, ok := isOp(e, "impl"); return ok && ret["kind"] == "bool" },
		func(e map[string]any) { r := e["ret"].(map[string]any); r["v"] = !(r["v"].(bool)) })
	corrupt("lib-drop-state-field", func(e map[string]any) bool {
		op, _, ok := isOp(e, "impl")
		st, _ := e["st"].(map[string]any)
		f, _ := st["f"].(map[string]any)
		return ok && (op["op"] == "LAppend" || op["op"] == "Set" || op["op"] == "MSet") && len(f) > 0
	}, func(e map[string]any) {
		f := e["st"].(map[string]any)["f"].(map[string]any)
		for k := range f {
			delete(f, k)
			break
		}
	})
	corrupt("lib-wrong-range", func(e map[string]any) bool {
		op, ret, ok := isOp(e, "impl")
		v, _ := ret["v"].([]any)
		return ok && op["op"] == "Range" && len(v) > 1
	}, func(e map[string]any) { r := e["ret"].(map[string]any); r["v"] = r["v"].([]any)[1:] })
	corrupt("lib-call-result", func(e map[string]any) bool { return e["ev"] == "done" && e["side"] == "impl" && e["call"] == "Merge" },
		func(e map[string]any) {
			e["other"] = map[string]any{"f": map[string]any{}, "u": []any{float64(8), float64(1)}}
		})
	if fail > 0 {
		fmt.Printf("selftest: %d failure(s)\n", fail)
		return 1
	}
	fmt.Println("selftest: all non-vacuity variants fail as required and the binding rejects corrupted traces")
	return 0
}

func firstLine(s string) string {
	if i := strings.Index(s, "\n"); i > 0 {
		return s[:i]
	}
	return s
}
