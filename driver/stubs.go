package main

func runReplay(path string) int  { return 2 }
func runWarm() int               { return 0 }
func runSelftest(a []string) int { return 0 }
