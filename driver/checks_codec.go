package main

import (
	"path/filepath"
	"strings"
	"time"
)

var codecTrusted = []string{"TLC 1.8.0 / SANY", "CommunityModules Json/IOUtils", "protobuf-go v1.34.0 dynamicpb + impl reflection (reference, second opinion on every event)", "harness projection (shifts/masks only)", "Go toolchain"}

func flagIf(bad bool, name string) string {
	if bad {
		return name
	}
	return ""
}

func firstFlag(fs ...string) string {
	for _, f := range fs {
		if f != "" {
			return f
		}
	}
	return ""
}

func init() {
	register(&Check{ID: "C01", Level: "model_checking", Run: func(c *Ctx) {
		c.R.Trusted = codecTrusted
		mcCodecCheck(c, func(v EdgeVerdict) string { return firstFlag(flagIf(!v.RT, "roundtrip"), flagIf(!v.Fast, "fastproj")) })
		codecTraceRun(c, "rt", 12, 300, func(v CodecVerdict) bool {
			return v.Ev == "roundtrip" || v.Ev == "load" || strings.HasPrefix(v.Sig, "marshal:error") || v.Tag == "rt-history"
		})
	}})
	register(&Check{ID: "C02", Level: "model_checking", Run: func(c *Ctx) {
		c.R.Trusted = codecTrusted
		mcCodecCheck(c, func(v EdgeVerdict) string { return flagIf(v.Fresh && !v.Enc, "detbytes") })
		codecTraceRun(c, "det", 12, 300, func(v CodecVerdict) bool { return v.Ev == "marshal" })
	}})
	register(&Check{ID: "C03", Level: "model_checking", Run: func(c *Ctx) {
		c.R.Trusted = codecTrusted
		mcCodecCheck(c, func(v EdgeVerdict) string { return firstFlag(flagIf(!v.Fresh, "decode"), flagIf(!v.Merge, "mergeopt")) })
		codecTraceRun(c, "xform", 10, 250, func(v CodecVerdict) bool { return v.Ev == "unmarshal" })
	}})
	register(&Check{ID: "C04", Level: "model_checking", Run: func(c *Ctx) {
		c.R.Trusted = codecTrusted
		mcCodecCheck(c, func(v EdgeVerdict) string { return flagIf(v.Fresh && !v.Size, "size") })
		codecTraceRun(c, "size", 12, 300, func(v CodecVerdict) bool {
			return v.Ev == "size" || (v.Ev == "append" && v.Sig != "append:nil-receiver") // nil receivers: C09
		})
	}})
	register(&Check{ID: "C05", Level: "model_checking", Run: func(c *Ctx) {
		c.R.Trusted = codecTrusted
		// the model: DetIsPure / NonDetValid are invariants of MC_Codec (map iteration order explicit);
		// replayed edges additionally check that the decoded message marshals to the model's bytes
		mcCodecCheck(c, func(v EdgeVerdict) string { return flagIf(v.Fresh && !v.Enc, "detbytes") })
		st := codecTraceRun(c, "pure", 14, 200, func(v CodecVerdict) bool { return v.Ev == "detn" || v.Sig == "marshal:direct-flags" })
		c.R.Cov["detn_events"] = st.ByEv["detn"]
		c.R.Assumptions = append(c.R.Assumptions, "Go map iteration order is randomised per range statement; each value is marshalled 6 times for each of 5 construction histories (30 marshals), maps have up to 9 keys")
	}})
	register(&Check{ID: "C07", Level: "model_checking", Run: func(c *Ctx) {
		c.R.Trusted = append(codecTrusted, "Go reflect / unsafe for struct snapshots and in-place overwrites")
		// the buffer-identity model
		res, err := RunTLC(filepath.Join(c.S.Dir, "memtlc"), TLCOpts{Spec: "Mem", Cfg: "Mem.cfg", Workers: 2, Timeout: 10 * time.Minute, Env: map[string]string{"VERIF_ALIAS": "0"}})
		if err != nil || res.Err != "" {
			c.R.InternalErr("Mem.tla: %v %s", err, trunc(res.Err, 1000))
		} else {
			c.R.AddCount("states", res.Distinct)
			c.R.AddCount("transitions", res.Generated)
		}
		codecTraceRun(c, "mem", 10, 250, func(v CodecVerdict) bool {
			return v.Ev == "alias_in" || v.Ev == "alias_out" || v.Ev == "readonly"
		})
	}})
	register(&Check{ID: "C10", Level: "model_checking", Run: func(c *Ctx) {
		c.R.Trusted = append(codecTrusted, "protojson / prototext of protobuf-go as the oracle for the text grammars (not modelled in TLA+)")
		// the library algorithms drive the reflection machine: its model is checked and replayed
		// (Range/Mutable/NewField/Append compositions), then recorded library calls are validated
		mcReflectCheck(c, func(v ReflVerdict) bool { return !strings.HasPrefix(v.What, "nil:") })
		codecTraceRun(c, "lib", 8, 200, func(v CodecVerdict) bool { return v.Ev == "lib" || v.Ev == "reset" })
		// ... and every protoreflect call those algorithms make on a recording proxy is validated
		// as a step of the reflection model, each library call as a whole against its value-level
		// meaning (Trace_Lib.tla)
		if c.Tier == "thorough" {
			libTraceRun(c, 30, 90)
		} else {
			libTraceRun(c, 4, 40)
		}
		c.R.Assumptions = append(c.R.Assumptions, "JSON and text SYNTAX are compared against the reference implementation's documents, not against a TLA+ grammar (DESIGN section 7)")
	}})
	register(&Check{ID: "C14", Level: "model_checking", Run: func(c *Ctx) {
		c.R.Trusted = codecTrusted
		mcCodecCheck(c, func(v EdgeVerdict) string {
			return firstFlag(flagIf(!v.Disc, "discard"), flagIf(strings.HasPrefix(v.Shape, "unknown") && (!v.Fresh || !v.Merge || !v.Enc), "unknown"))
		})
		codecTraceRun(c, "unknown", 10, 250, func(v CodecVerdict) bool {
			return v.Ev == "unmarshal" || v.Ev == "marshal" || (v.Ev == "alias_in" && v.Tag == "unknown-alias")
		})
		// records of every payload length / tag width / varint width are stored byte for byte
		skipSweepRun(c, func(what string) bool { return true })
		// GetUnknown / SetUnknown read and replace exactly that set (reflection model, incl. a
		// slice held across SetUnknown)
		mcReflectCheck(c, func(v ReflVerdict) bool {
			op, rd := opName(v.Op), opName(v.Read)
			return strings.Contains(op, "Unknown") || strings.Contains(rd, "Unknown")
		})
	}})
}
