package main

import "strings"

var codecTrusted = []string{"TLC 1.8.0 / SANY", "CommunityModules Json/IOUtils", "protobuf-go v1.34.0 dynamicpb + impl reflection (reference, second opinion on every event)", "harness projection (shifts/masks only)", "Go toolchain"}

func init() {
	register(&Check{ID: "C01", Level: "model_checking", Run: func(c *Ctx) {
		c.R.Trusted = codecTrusted
		codecTraceRun(c, "rt", 12, 150, func(v CodecVerdict) bool {
			return v.Ev == "roundtrip" || v.Ev == "load" || strings.HasPrefix(v.Sig, "marshal:error")
		})
	}})
	register(&Check{ID: "C02", Level: "model_checking", Run: func(c *Ctx) {
		c.R.Trusted = codecTrusted
		codecTraceRun(c, "det", 12, 150, func(v CodecVerdict) bool { return v.Ev == "marshal" })
	}})
	register(&Check{ID: "C04", Level: "model_checking", Run: func(c *Ctx) {
		c.R.Trusted = codecTrusted
		codecTraceRun(c, "size", 12, 150, func(v CodecVerdict) bool { return v.Ev == "size" || v.Ev == "append" })
	}})
	register(&Check{ID: "C03", Level: "model_checking", Run: func(c *Ctx) {
		c.R.Trusted = codecTrusted
		codecTraceRun(c, "xform", 10, 120, func(v CodecVerdict) bool { return v.Ev == "unmarshal" })
	}})
	register(&Check{ID: "C14", Level: "model_checking", Run: func(c *Ctx) {
		c.R.Trusted = codecTrusted
		codecTraceRun(c, "unknown", 10, 120, func(v CodecVerdict) bool { return v.Ev == "unmarshal" || v.Ev == "marshal" })
	}})
}
