package main

import (
	"bufio"
	"encoding/json"
	"fmt"
	"os"
	"path/filepath"
	"strings"
	"time"
)

func init() {
	register(&Check{ID: "C16", Level: "model_checking", Run: func(c *Ctx) {
		c.R.Trusted = []string{"TLC 1.8.0 / SANY", "protobuf-go protoregistry / anypb / dynamicpb", "Go toolchain"}
		dir := filepath.Join(c.S.Dir, "anyutil")
		os.MkdirAll(dir, 0o755)
		exp := filepath.Join(dir, "cases.txt")
		ef, _ := os.Create(exp)
		bw := bufio.NewWriter(ef)
		res, err := RunTLC(filepath.Join(dir, "tlc"), TLCOpts{Spec: "AnyUtil", Cfg: "AnyUtil.cfg", Workers: 1, Timeout: 20 * time.Minute,
			Env: map[string]string{"VERIF_EXPORT": "1"}, LineSink: func(l string) { bw.WriteString(l); bw.WriteByte('\n') }})
		bw.Flush()
		ef.Close()
		if err != nil || res.Err != "" {
			c.R.InternalErr("AnyUtil.tla: %v %s", err, trunc(res.Err, 1500))
			return
		}
		c.R.AddCount("states", res.Distinct)
		c.R.AddCount("transitions", res.Generated)
		rounds := c.pick(1, 15)
		for r := 0; r < rounds; r++ {
			verd := filepath.Join(dir, fmt.Sprintf("v%d.ndjson", r))
			if o, err := c.S.HRun(20*time.Minute, "anyutil-replay", "--in", exp, "--out", verd, "--seed", fmt.Sprint(c.Seed*10+int64(r))); err != nil {
				c.R.InternalErr("anyutil-replay: %v %s", err, trunc(o, 1500))
				return
			}
			f, _ := os.Open(verd)
			sc := bufio.NewScanner(f)
			sc.Buffer(make([]byte, 1<<20), 1<<26)
			ok := false
			for sc.Scan() {
				var v struct {
					Summary bool           `json:"summary"`
					Kind    string         `json:"kind"`
					Note    string         `json:"note"`
					Case    any            `json:"case"`
					Cases   int64          `json:"cases"`
					Packs   int64          `json:"packs"`
					Paths   map[string]int `json:"paths"`
				}
				json.Unmarshal(sc.Bytes(), &v)
				if v.Summary {
					ok = true
					if v.Cases != res.Distinct {
						c.R.InternalErr("AnyUtil: replayed %d cases, model has %d states", v.Cases, res.Distinct)
					}
					c.R.AddCount("traces_validated_against_impl", v.Cases+v.Packs)
					c.R.AddCount("evaluations", 2*v.Cases+3*v.Packs)
					c.R.AddCount("distinct_nontrivial", v.Cases)
					c.R.Cov["unpack_paths_exercised"] = v.Paths
					continue
				}
				sig := v.Kind
				if strings.HasPrefix(sig, "panic:") {
					sig = "panic:enum|service|field"
					if !(strings.HasSuffix(v.Kind, "enum") || strings.HasSuffix(v.Kind, "service") || strings.HasSuffix(v.Kind, "field")) {
						sig = v.Kind
					}
				}
				c.R.Violate(sig, v.Note, map[string]any{"engine": "anyutil", "case": v.Case})
			}
			f.Close()
			if !ok {
				c.R.InternalErr("anyutil-replay produced no summary")
			}
		}
		c.R.Cov["exhaustive"] = true
		c.R.Cov["rule"] = "full product name-kind x URL form x value kind x resolver configuration (840 cases) for anyutil.Unpack and the deprecated alias, plus New/MarshalFrom for every message type with round trips through both resolver paths"
		c.R.Sample(map[string]any{"kind": "service", "form": "slash", "value": "valid", "cfg": "default", "want": "err"})
	}})
}
