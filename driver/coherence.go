package main

import (
	"bufio"
	"encoding/json"
	"fmt"
	"os"
	"path/filepath"
	"strings"
	"sync"
	"time"
)

func init() {
	register(&Check{ID: "C19", Level: "model_checking", Random: func(tier string) int {
		if tier == "thorough" {
			return 12
		}
		return 2
	}, Run: func(c *Ctx) {
		c.R.Trusted = []string{"TLC 1.8.0 / SANY", "protobuf-go protoregistry / protodesc / prototext", "Go reflect", "dynamicpb (lock-step reference for getter/Reset transitions)"}
		dir := filepath.Join(c.S.Dir, "coherence")
		os.MkdirAll(dir, 0o755)
		// a generated package that panics while registering its descriptors / resolving its message
		// and field descriptors (init) is the bluntest incoherence between package and schema
		for _, g := range c.S.Groups {
			if g.InitPanic != "" {
				c.R.Violate("coherence:init-panic", fmt.Sprintf("group=%s the generated package panics when it is loaded: %s", g.Group, trunc(g.InitPanic, 600)),
					map[string]any{"engine": "gen", "group": g.Group, "files": g.Files})
			}
		}
		// a program that links ONE generated package and nothing else of this repository must find
		// every import of its files resolved (each generated file has to pull in what it depends on
		// itself; the big worker binary links everything and would hide a missing import)
		linkStandalone(c)
		// (1) obligations enumerated by Schema.tla from the schemas given to the generator
		corpusJSON := filepath.Join(dir, "corpus.json")
		known := filepath.Join(dir, "known.json")
		out, err := run(c.S.Repo, goEnv(), 5*time.Minute, c.S.Gen, "dump", "--known", known, "--probes=false")
		if err != nil {
			c.R.InternalErr("gen dump: %v %s", err, trunc(out, 500))
			return
		}
		// append the random schemas of this run
		var files []json.RawMessage
		json.Unmarshal([]byte(out), &files)
		if c.Extra != "" {
			if b, err := os.ReadFile(c.Extra); err == nil {
				var ex []json.RawMessage
				json.Unmarshal(b, &ex)
				files = append(files, ex...)
			}
		}
		fb, _ := json.Marshal(files)
		os.WriteFile(corpusJSON, fb, 0o644)
		exp := filepath.Join(dir, "entities.txt")
		ef, _ := os.Create(exp)
		bw := bufio.NewWriter(ef)
		res, err := RunTLC(filepath.Join(dir, "tlc"), TLCOpts{Spec: "Schema", Cfg: "Schema_entities.cfg", Timeout: 10 * time.Minute,
			Env:      map[string]string{"VERIF_CORPUS": corpusJSON, "VERIF_KNOWN": known, "VERIF_MAXMSGS": "1", "VERIF_MAXFIELDS": "1", "VERIF_STEPS": "0", "VERIF_TAG": "x", "VERIF_EXPORT": "0"},
			LineSink: func(l string) { bw.WriteString(l); bw.WriteByte('\n') }})
		bw.Flush()
		ef.Close()
		if err != nil || res.Err != "" {
			c.R.InternalErr("Schema.tla entities: %v %s", err, trunc(res.Err, 1000))
			return
		}
		verd := filepath.Join(dir, "v.ndjson")
		if o, err := c.S.HRun(30*time.Minute, "coherence", "--in", exp, "--reqs", filepath.Join(c.S.Repo, "zzverif", "gen"), "--out", verd, "--seed", fmt.Sprint(c.Seed), "--n", fmt.Sprint(c.pick(15, 150))); err != nil {
			c.R.InternalErr("coherence: %v %s", err, trunc(o, 1500))
			return
		}
		for _, g := range c.S.Groups {
			if strings.HasPrefix(g.CompileErr, "exported Go API") {
				c.R.Violate("coherence:surface:missing", fmt.Sprintf("group=%s: %s", g.Group, trunc(g.CompileErr, 500)), map[string]any{"engine": "coherence", "group": g.Group})
			}
		}
		f, _ := os.Open(verd)
		sc := bufio.NewScanner(f)
		sc.Buffer(make([]byte, 1<<20), 1<<26)
		okSum := false
		for sc.Scan() {
			var v struct {
				Summary                bool
				Kind, Name, Note       string
				Entities, Files, Types int64
				Checks, Surface        int64
			}
			json.Unmarshal(sc.Bytes(), &v)
			if v.Summary {
				okSum = true
				c.R.Cov["schema_entities_checked"] = v.Entities
				c.R.Cov["file_descriptors_compared"] = v.Files
				c.R.Cov["message_types_checked"] = v.Types
				c.R.AddCount("evaluations", v.Checks)
				c.R.AddCount("distinct_nontrivial", v.Entities+v.Types)
				c.R.Cov["exported_go_identifiers_checked"] = v.Surface
				if v.Entities == 0 || v.Files == 0 || v.Surface == 0 {
					c.R.InternalErr("coherence: nothing compared (entities=%d files=%d identifiers=%d)", v.Entities, v.Files, v.Surface)
				}
				continue
			}
			c.R.Violate("coherence:"+v.Kind, fmt.Sprintf("%s: %s", v.Name, v.Note), map[string]any{"engine": "coherence", "kind": v.Kind, "name": v.Name})
		}
		f.Close()
		if !okSum {
			c.R.InternalErr("coherence: no summary")
		}
		c.R.Sample(map[string]any{"obligation": "protodesc.ToFileDescriptorProto(registered verif/opt/opt.proto) == request descriptor incl. (cosmos_proto.scalar)", "also": "md_X identical to registry descriptor; Type/New/Zero Go types; enum String/Number/Descriptor; Reset(); String() parses back"})
		// (2) the Go API agrees with reflection on every state: getter / Reset transitions and
		// nil receivers from the reflection model
		mcReflectCheck(c, func(v ReflVerdict) bool {
			op := opName(v.Op)
			rd := opName(v.Read)
			return rd == "Getter" || op == "Reset" || strings.HasSuffix(v.What, ":Getter")
		})
	}})
}

func linkStandalone(c *Ctx) {
	pkgs := []string{"github.com/cosmos/cosmos-proto/testpb", "github.com/cosmos/cosmos-proto/internal/testprotos/test3"}
	for _, g := range c.S.Groups {
		if g.OK() {
			pkgs = append(pkgs, g.GoPkgs...)
		}
	}
	seen := map[string]bool{}
	var mu sync.Mutex
	var wg sync.WaitGroup
	sem := make(chan struct{}, 8)
	n := 0
	for _, p := range pkgs {
		if seen[p] {
			continue
		}
		seen[p] = true
		n++
		wg.Add(1)
		sem <- struct{}{}
		go func(i int, p string) {
			defer wg.Done()
			defer func() { <-sem }()
			dir := filepath.Join(c.S.Repo, "zzverif", "cmd", fmt.Sprintf("link%d", i))
			os.MkdirAll(dir, 0o755)
			src := fmt.Sprintf(`package main

import (
	"fmt"
	"os"

	_ %q
	"google.golang.org/protobuf/reflect/protoreflect"
	"google.golang.org/protobuf/reflect/protoregistry"
)

func main() {
	bad := 0
	protoregistry.GlobalFiles.RangeFiles(func(fd protoreflect.FileDescriptor) bool {
		for i := 0; i < fd.Imports().Len(); i++ {
			if imp := fd.Imports().Get(i); imp.IsPlaceholder() {
				fmt.Printf("PLACEHOLDER %%s imports %%s\n", fd.Path(), imp.Path())
				bad++
			}
		}
		return true
	})
	if bad > 0 {
		os.Exit(3)
	}
}
`, p)
			os.WriteFile(filepath.Join(dir, "main.go"), []byte(src), 0o644)
			out, err := run(c.S.Repo, goEnv(), 10*time.Minute, "go", "run", "-tags", "verif", "./"+filepath.Join("zzverif", "cmd", fmt.Sprintf("link%d", i)))
			mu.Lock()
			defer mu.Unlock()
			switch {
			case strings.Contains(out, "PLACEHOLDER "):
				c.R.Violate("coherence:descriptor:placeholder-standalone", fmt.Sprintf("a program linking only %s: %s", p, trunc(out, 400)), map[string]any{"engine": "linkcheck", "package": p})
			case err != nil:
				c.R.InternalErr("linkcheck %s: %v %s", p, err, trunc(out, 400))
			}
			os.RemoveAll(dir)
		}(n, p)
	}
	wg.Wait()
	c.R.Cov["packages_linked_standalone"] = n
	c.R.AddCount("evaluations", int64(n))
}
