module verif/driver

go 1.21
