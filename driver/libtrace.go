package main

import (
	"encoding/json"
	"fmt"
	"os"
	"path/filepath"
	"strings"
	"sync"
	"time"
)

// libTraceRun (C10, direction B): the generic protobuf-go algorithms are run on a recording
// proxy around every generated type and around its dynamicpb twin; every protoreflect call the
// library makes is validated as a step of spec/Reflect.tla, and every library call as a whole
// against its value-level meaning, by spec/Trace_Lib.tla.
func libTraceRun(c *Ctx, cases, budget int) {
	var mu sync.Mutex
	var wg sync.WaitGroup
	sem := make(chan struct{}, 12)
	var events, ncases, unsupported int64
	byCall := map[string]int64{}
	for i, t := range c.S.Types {
		if t.Fields == 0 {
			continue
		}
		wg.Add(1)
		sem <- struct{}{}
		go func(i int, t TypeInfo) {
			defer wg.Done()
			defer func() { <-sem }()
			dir := filepath.Join(c.S.Dir, "libtrace", fmt.Sprintf("t%d", i))
			os.MkdirAll(dir, 0o755)
			fail := func(f string, a ...any) {
				mu.Lock()
				c.R.InternalErr("Trace_Lib %s: %s", t.Name, fmt.Sprintf(f, a...))
				mu.Unlock()
			}
			schema := filepath.Join(dir, "schema.json")
			evs := filepath.Join(dir, "events.ndjson")
			if o, err := c.S.HRun(2*time.Minute, "schema", "--type", t.Name, "--out", schema); err != nil {
				fail("h schema: %v %s", err, trunc(o, 300))
				return
			}
			n := cases
			if t.Fields > 40 {
				n = cases/2 + 1
			}
			o, err := c.S.HRun(20*time.Minute, "lib-record", "--type", t.Name, "--n", fmt.Sprint(n), "--budget", fmt.Sprint(budget),
				"--seed", fmt.Sprint(c.Seed*131+int64(i)), "--out", evs)
			if err != nil {
				fail("lib-record: %v %s", err, trunc(o, 800))
				return
			}
			var sum struct{ Ops, Unsupported int64 }
			for _, l := range strings.Split(o, "\n") {
				if strings.Contains(l, `"ev":"summary"`) {
					json.Unmarshal([]byte(l), &sum)
				}
			}
			lines := readLines(evs)
			res, err := RunTLC(filepath.Join(dir, "tlc"), TLCOpts{Spec: "Trace_Lib", Cfg: "Trace_Lib.cfg", Env: map[string]string{"VERIF_SCHEMA": schema, "VERIF_TRACE": evs}, Timeout: 30 * time.Minute, HeapMB: 3000})
			if err != nil || res.Err != "" {
				fail("tlc: %v %s", err, trunc(res.Err, 800))
				return
			}
			type verdict struct {
				L, C                 int
				Side, Op, Call, What string
			}
			var vs []verdict
			refBad := map[int]bool{}
			done := false
			for _, l := range res.Lines {
				if strings.HasPrefix(l, "TRACE-DONE") {
					done = true
				}
				if !strings.HasPrefix(l, "VERDICT ") {
					continue
				}
				var v verdict
				json.Unmarshal([]byte(l[8:]), &v)
				vs = append(vs, v)
				if v.Side != "impl" {
					refBad[v.C] = true
				}
			}
			mu.Lock()
			defer mu.Unlock()
			for _, v := range vs {
				ev := ""
				if v.L >= 1 && v.L <= len(lines) {
					ev = lines[v.L-1]
				}
				if v.Side != "impl" || refBad[v.C] {
					// the reference's own recorded history is not a behaviour of the model: modelling error
					if v.Side != "impl" {
						c.R.InternalErr("spec and reference disagree on a library-driven step: type=%s op=%s call=%s what=%s event=%s", t.Name, v.Op, v.Call, v.What, trunc(ev, 400))
					}
					continue
				}
				// the library call this step belongs to: the next "done" line of the same side
				call := v.Call
				for j := v.L - 1; call == "" && j < len(lines); j++ {
					if strings.Contains(lines[j], `"ev":"done"`) && strings.Contains(lines[j], `"side":"impl"`) {
						var d struct{ Call string }
						json.Unmarshal([]byte(lines[j]), &d)
						call = d.Call
					}
				}
				c.R.Violate(fmt.Sprintf("libtrace:%s:%s:%s", call, v.Op, v.What),
					fmt.Sprintf("type=%s case %d: during %s the recorded call %s is not a step of the reflection model (%s): %s", t.Name, v.C, call, v.Op, v.What, trunc(ev, 500)),
					map[string]any{"engine": "trace_lib", "type": t.Name, "case": v.C, "cases": n, "budget": budget, "seed": c.Seed*131 + int64(i), "call": call, "event": trunc(ev, 4000)})
			}
			if !done {
				c.R.InternalErr("Trace_Lib %s did not consume the trace", t.Name)
			}
			for _, l := range lines {
				if strings.Contains(l, `"ev":"done"`) {
					var d struct{ Call string }
					json.Unmarshal([]byte(l), &d)
					byCall[d.Call]++
				}
			}
			events += int64(len(lines))
			ncases += int64(n)
			unsupported += sum.Unsupported
			os.RemoveAll(dir)
		}(i, t)
	}
	wg.Wait()
	c.R.AddCount("traces_validated_against_impl", ncases)
	c.R.AddCount("evaluations", events)
	c.R.AddCount("transitions", events)
	c.R.Cov["library_driven_events"] = events
	c.R.Cov["library_driven_cases"] = ncases
	c.R.Cov["library_calls_recorded"] = byCall
	c.R.Cov["library_calls_outside_vocabulary"] = unsupported
}
