package main

import (
	"bufio"
	"encoding/json"
	"fmt"
	"os"
	"path/filepath"
	"strings"
	"sync"
	"time"
)

func init() {
	register(&Check{ID: "C11", Level: "model_checking", Run: func(c *Ctx) {
		c.R.Trusted = []string{"TLC 1.8.0 / SANY", "Go race detector (ThreadSanitizer runtime) as the memory-level monitor of 'read actions do not write'", "Go scheduler"}
		res, err := RunTLC(filepath.Join(c.S.Dir, "readerstlc"), TLCOpts{Spec: "Readers", Cfg: "Readers.cfg", Workers: 4, Timeout: 10 * time.Minute, Env: map[string]string{"VERIF_CACHING": "0", "VERIF_VIEWCACHE": "0"}})
		if err != nil || res.Err != "" {
			c.R.InternalErr("Readers.tla: %v %s", err, trunc(res.Err, 1000))
		} else {
			c.R.AddCount("states", res.Distinct)
			c.R.AddCount("transitions", res.Generated)
		}
		hrace := filepath.Join(c.S.Dir, "bin", "hrace")
		if out, err := run(c.S.Repo, goEnv(), 20*time.Minute, "go", "build", "-race", "-tags", "verif", "-o", hrace, "./zzverif/cmd/h"); err != nil {
			c.R.InternalErr("race build failed: %v %s", err, trunc(out, 1500))
			return
		}
		var mu sync.Mutex
		var wg sync.WaitGroup
		sem := make(chan struct{}, 4) // each worker already uses up to 16 procs
		var runs int64
		for i, t := range c.S.Types {
			if t.Fields == 0 {
				continue
			}
			wg.Add(1)
			sem <- struct{}{}
			go func(i int, t TypeInfo) {
				defer wg.Done()
				defer func() { <-sem }()
				out := filepath.Join(c.S.Dir, fmt.Sprintf("readers%d.ndjson", i))
				env := append(goEnv(), "GORACE=halt_on_error=1 exitcode=66")
				o, err := run(c.S.Repo, env, 30*time.Minute, hrace, "readers", "--type", t.Name, "--n", fmt.Sprint(c.pick(3, 60)), "--reps", fmt.Sprint(c.pick(3, 8)), "--seed", fmt.Sprint(c.Seed*100+int64(i)), "--out", out)
				mu.Lock()
				defer mu.Unlock()
				if err != nil {
					if strings.Contains(o, "DATA RACE") {
						c.R.Violate("race", fmt.Sprintf("type=%s: the race detector reported a data race between read-only operations:\n%s", t.Name, trunc(o, 1800)),
							map[string]any{"engine": "readers", "type": t.Name, "report": trunc(o, 6000)})
					} else {
						c.R.InternalErr("readers %s: %v %s", t.Name, err, trunc(o, 1000))
					}
					return
				}
				f, err := os.Open(out)
				if err != nil {
					c.R.InternalErr("readers %s: %v", t.Name, err)
					return
				}
				defer f.Close()
				sc := bufio.NewScanner(f)
				sc.Buffer(make([]byte, 1<<20), 1<<26)
				ok := false
				for sc.Scan() {
					var v struct {
						Summary  bool
						Runs     int64
						Mismatch []string
						Assign   [][]string
					}
					json.Unmarshal(sc.Bytes(), &v)
					if v.Summary {
						ok = true
						runs += v.Runs
						continue
					}
					if len(v.Mismatch) > 0 {
						c.R.Violate("readers:result", fmt.Sprintf("type=%s concurrent result differs from sequential: %v (assignment %v)", t.Name, v.Mismatch, v.Assign),
							map[string]any{"engine": "readers", "type": t.Name, "assign": v.Assign})
					} else {
						c.R.Sample(map[string]any{"type": t.Name, "goroutine_ops": v.Assign})
					}
				}
				if !ok {
					c.R.InternalErr("readers %s: no summary", t.Name)
				}
			}(i, t)
		}
		wg.Wait()
		c.R.AddCount("traces_validated_against_impl", runs)
		c.R.AddCount("evaluations", runs)
		c.R.AddCount("distinct_nontrivial", runs)
		c.R.Cov["concurrent_runs_under_race_detector"] = runs
		c.R.Assumptions = append(c.R.Assumptions, "the race detector reports unsynchronised conflicting accesses that actually execute; interleavings are those the Go scheduler produced (GOMAXPROCS 2/4/16), TLC covers all interleavings at model granularity only")
		c.R.Cov["rule"] = "one run = 3-4 goroutines released from a barrier, each doing 2 read-only operations on one shared message (no synchronisation between them), results compared with a sequential run on a clone"
	}})
}
