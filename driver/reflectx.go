package main

import (
	"bufio"
	"encoding/json"
	"fmt"
	"os"
	"path/filepath"
	"strings"
	"sync"
	"time"
)

type ReflJob struct {
	Type   string
	Fields string
	MaxLen int
	Depth  int
}

type ReflVerdict struct {
	N     int             `json:"n"`
	P     []int           `json:"p"`
	I     int             `json:"i"`
	Op    json.RawMessage `json:"op"`
	What  string          `json:"what"`
	Who   string          `json:"who"`
	Read  json.RawMessage `json:"read"`
	Obs   json.RawMessage `json:"obs"`
	Want  json.RawMessage `json:"want"`
	Shape string          `json:"shape"`
	Job   ReflJob         `json:"job"`
}

func opName(raw json.RawMessage) string {
	var o struct {
		Op string `json:"op"`
	}
	json.Unmarshal(raw, &o)
	return o.Op
}

type ReflStats struct {
	States, Transitions, Edges, Reads int64
	NilOrigins, NilChecks             int64
	Jobs                              int
	TreeHist, TreeReads               int64
	Sample                            any
	ByOp                              map[string]int64 // (operation/result kind) -> executions: vacuity scan
}

func runMCReflect(c *Ctx, jobs []ReflJob) ([]ReflVerdict, *ReflStats) {
	st := &ReflStats{ByOp: map[string]int64{}}
	var out []ReflVerdict
	var mu sync.Mutex
	sem := make(chan struct{}, 12)
	var wg sync.WaitGroup
	for ji, job := range jobs {
		wg.Add(1)
		sem <- struct{}{}
		go func(ji int, job ReflJob) {
			defer wg.Done()
			defer func() { <-sem }()
			fail := func(f string, a ...any) {
				mu.Lock()
				c.R.InternalErr("MC_Reflect %s[%s]: %s", job.Type, job.Fields, fmt.Sprintf(f, a...))
				mu.Unlock()
			}
			dir := filepath.Join(c.S.Dir, "mcr", fmt.Sprintf("j%d", ji))
			os.MkdirAll(dir, 0o755)
			schema := filepath.Join(dir, "schema.json")
			args := []string{"schema", "--type", job.Type, "--out", schema}
			if job.Fields != "" {
				args = append(args, "--fields", job.Fields)
			}
			if o, err := c.S.HRun(2*time.Minute, args...); err != nil {
				fail("h schema: %v %s", err, trunc(o, 500))
				return
			}
			exp := filepath.Join(dir, "export.txt")
			ef, _ := os.Create(exp)
			bw := bufio.NewWriterSize(ef, 1<<20)
			res, err := RunTLC(filepath.Join(dir, "tlc"), TLCOpts{Spec: "MC_Reflect", Cfg: "MC_Reflect.cfg", Workers: 1, Timeout: 90 * time.Minute, HeapMB: 4000,
				Env:      map[string]string{"VERIF_SCHEMA": schema, "VERIF_TYPE": job.Type, "VERIF_MAXLEN": fmt.Sprint(job.MaxLen), "VERIF_DEPTH": fmt.Sprint(job.Depth), "VERIF_EXPORT": "1"},
				LineSink: func(l string) { bw.WriteString(l); bw.WriteByte('\n') }})
			bw.Flush()
			ef.Close()
			if err != nil {
				fail("tlc: %v", err)
				return
			}
			if res.Err != "" {
				fail("TLC reported an error on the model (spec problem, not a code violation): %s", trunc(res.Err, 1500))
				return
			}
			verd := filepath.Join(dir, "verdicts.ndjson")
			if o, err := c.S.HRun(60*time.Minute, "reflect-replay", "--type", job.Type, "--in", exp, "--out", verd); err != nil {
				fail("h reflect-replay: %v %s", err, trunc(o, 1500))
				return
			}
			vf, err := os.Open(verd)
			if err != nil {
				fail("%v", err)
				return
			}
			defer vf.Close()
			sc := bufio.NewScanner(vf)
			sc.Buffer(make([]byte, 1<<20), 1<<28)
			var local []ReflVerdict
			var sum struct {
				Edges, States, Reads int64
				Ops, Rdops           int
				NilOrigins           int64            `json:"nil_origins"`
				NilChecks            int64            `json:"nil_checks"`
				ByOp                 map[string]int64 `json:"by_op"`
				TreeHist             int64            `json:"tree_histories"`
				TreeReads            int64            `json:"tree_reads"`
			}
			ok := false
			for sc.Scan() {
				line := sc.Bytes()
				if strings.Contains(string(line), `"summary":true`) {
					json.Unmarshal(line, &sum)
					ok = true
					continue
				}
				var v ReflVerdict
				if err := json.Unmarshal(line, &v); err != nil {
					fail("bad verdict: %v", err)
					return
				}
				v.Job = job
				if len(local) < 2000 {
					local = append(local, v)
				}
			}
			if !ok || sum.Edges != res.Generated-1 || sum.States != res.Distinct {
				fail("count mismatch: replayed %d edges / %d states, TLC generated %d / found %d", sum.Edges, sum.States, res.Generated, res.Distinct)
				return
			}
			mu.Lock()
			st.States += res.Distinct
			st.Transitions += res.Generated
			st.Edges += sum.Edges
			st.Reads += sum.Reads
			st.NilOrigins += sum.NilOrigins
			st.NilChecks += sum.NilChecks
			st.Jobs++
			st.TreeHist += sum.TreeHist
			st.TreeReads += sum.TreeReads
			for k, n := range sum.ByOp {
				st.ByOp[k] += n
			}
			if st.Sample == nil {
				st.Sample = map[string]any{"job": job, "mutating_ops": sum.Ops, "read_ops": sum.Rdops, "history_example": "Set(oi,1); Clear(os) => oneof still holds oi; then all read ops compared"}
			}
			out = append(out, local...)
			mu.Unlock()
			os.RemoveAll(dir)
		}(ji, job)
	}
	wg.Wait()
	return out, st
}

func reflJobs(c *Ctx) []ReflJob {
	has := func(name string) bool {
		for _, t := range c.S.Types {
			if t.Name == name {
				return true
			}
		}
		return false
	}
	var jobs []ReflJob
	add := func(t, f string, q, th, depth int) {
		if has(t) {
			jobs = append(jobs, ReflJob{t, f, c.pick(q, th), depth})
		}
	}
	add("verif.s0.M", "", 2, 2, 1)
	add("verif.s0.M", "i,d,s,b,e,z,t,f,fl", 2, 3, 0)
	add("verif.s0.M", "ri,rn,rs,ru", 2, 3, 1)
	add("verif.s0.M", "msi,min,mbb", 3, 3, 1)
	add("verif.s0.M", "n,oi,os,on,qb,qd", 3, 4, 1)
	add("verif.s0.N", "", 2, 3, 1)
	add("A", "enum,some_boolean,INT32,SINT32,UINT32,INT64,SING64,UINT64,SFIXED32,FIXED32,FLOAT,SFIXED64,FIXED64,DOUBLE,STRING,BYTES", 2, 2, 0)
	add("A", "MESSAGE,MAP,LIST,ONEOF_B,ONEOF_STRING,LIST_ENUM,imported", 2, 3, 1)
	add("goproto.proto.test3.TestAllTypes", "singular_int32,singular_sint64,singular_nested_message,repeated_int32,repeated_nested_message,map_int32_int32,map_string_nested_message,oneof_uint32,oneof_nested_message,oneof_string,oneof_enum", 2, 3, 1)
	add("goproto.proto.test3.TestAllTypes", "repeated_sint32,repeated_fixed64,repeated_float,repeated_bool,repeated_string,repeated_bytes,repeated_nested_enum,map_bool_bool,map_string_bytes,map_sint64_sint64,map_fixed32_fixed32,map_string_nested_enum", 2, 2, 0)
	add("verif.mx.Sub", "", 2, 3, 1)
	add("verif.mx.All", "o_double,o_int64,o_bool,o_string,o_bytes,o_enum,o_message,o_message2,o_fixed32,o_uint32", 2, 3, 1)
	add("verif.nm.CollideShapes", "", 2, 2, 1)
	add("verif.nm.Collide", "", 1, 2, 0)
	add("verif.xa.Holder", "tree,leaves,side,sides,by_side,any,ts,p_leaf,p_ts,p_side,same_pkg", 2, 2, 1)
	if c.Thorough() {
		add("verif.mx.All", "s_double,s_float,s_int64,s_uint64,s_int32,s_fixed64,s_fixed32,s_bool,s_string,s_bytes,s_uint32,s_sfixed32,s_sfixed64,s_sint32,s_sint64,s_enum,s_message", 2, 2, 0)
		add("verif.mx.All", "r_double,r_float,r_int64,r_bool,r_string,r_bytes,r_sint32,r_enum,r_message,u_int32,u_fixed64", 2, 2, 0)
		add("verif.mxmap.Maps", "", 1, 2, 0)
		add("verif.mxtag.Tags", "", 1, 2, 1)
		add("verif.nm.Locals", "", 1, 1, 0)
	}
	return jobs
}

// reflFieldGroupJobs: every field of the checked-in types, in groups of a few fields, all
// histories of length 2 with nested paths one level deep -- the checked-in files are hand-kept
// copies of generator output, so each field's accessors are separate code that can drift alone.
func reflFieldGroupJobs(c *Ctx) []ReflJob {
	var jobs []ReflJob
	for _, t := range c.S.Types {
		if !isCheckedIn(t) || len(t.Names) < 6 {
			continue
		}
		per := 6
		for i := 0; i < len(t.Names); i += per {
			j := i + per
			if j > len(t.Names) {
				j = len(t.Names)
			}
			jobs = append(jobs, ReflJob{t.Name, strings.Join(t.Names[i:j], ","), 2, 1})
		}
	}
	return jobs
}

// mcReflectCheck runs direction A for the reflection machine; inScope filters pulsar verdicts.
func mcReflectCheck(c *Ctx, inScope func(v ReflVerdict) bool) {
	mcReflectCheckJobs(c, reflJobs(c), inScope)
}

func mcReflectCheckJobs(c *Ctx, jobs []ReflJob, inScope func(v ReflVerdict) bool) {
	verdicts, st := runMCReflect(c, jobs)
	for _, v := range verdicts {
		if v.Who != "pulsar" {
			c.R.InternalErr("spec and reference (dynamicpb) disagree: job=%v what=%s op=%s read=%s obs=%s want=%s path=%v", v.Job, v.What, opName(v.Op), opName(v.Read), trunc(string(v.Obs), 200), trunc(string(v.Want), 200), v.P)
			continue
		}
		if !inScope(v) {
			continue
		}
		name := opName(v.Op)
		if v.What == "read" {
			name = opName(v.Read)
		}
		shape := v.Shape
		if i := strings.Index(shape, "/"); i > 0 {
			shape = shape[:i]
		}
		c.R.Violate(fmt.Sprintf("mc:%s:%s:%s", v.What, name, shape),
			fmt.Sprintf("type=%s fields=%s history=%v op#=%d op=%s read=%s observed=%s expected=%s", v.Job.Type, v.Job.Fields, v.P, v.I, trunc(string(v.Op), 200), trunc(string(v.Read), 200), trunc(string(v.Obs), 200), trunc(string(v.Want), 200)),
			map[string]any{"engine": "mc_reflect", "job": v.Job, "path": v.P, "op": v.I})
	}
	c.R.AddCount("states", st.States)
	c.R.AddCount("transitions", st.Transitions)
	c.R.AddCount("traces_validated_against_impl", st.Edges)
	c.R.AddCount("evaluations", st.Edges+st.Reads)
	c.R.AddCount("distinct_nontrivial", st.Edges)
	c.R.Cov["mc_reflect_jobs"] = st.Jobs
	c.R.Cov["mc_reflect_edges_replayed"] = st.Edges
	c.R.Cov["mc_reflect_reads_compared"] = st.Reads
	c.R.Cov["all_histories_executed"] = st.TreeHist // every operation sequence up to the bound, not one representative per state
	c.R.Cov["all_histories_reads_compared"] = st.TreeReads
	c.R.AddCount("evaluations", st.TreeHist+st.TreeReads)
	c.R.Cov["nil_origins_exercised"] = st.NilOrigins
	c.R.Cov["nil_operation_checks"] = st.NilChecks
	c.R.AddCount("evaluations", st.NilChecks)
	// vacuity scan (TLC's own -coverage runs out of memory on these specs): every branch of
	// Reflect!ApplyAt that the operation alphabets are meant to reach must have been taken --
	// successful and panicking writes, valid and invalid views, present and absent keys
	var never []string
	for _, k := range []string{"Set/ok", "Clear/ok", "Mutable/view", "Mutable/panic", "SetNew/ok", "LAppend/ok", "LAppend/panic", "LSet/ok", "LSet/panic",
		"LTruncate/ok", "LTruncate/panic", "LAppendMutable/view", "LAppendMutable/panic", "LAppendNew/ok", "MSet/ok", "MSet/panic", "MClear/ok",
		"MMutable/view", "MMutable/panic", "MSetNew/ok", "MRetained/ok", "LRetained/ok", "ViewClear/bool", "SetInvalid/panic", "LElemKept/bytes", "MSetFill/ok", "UnknownHandover/bytes", "SetUnknown/ok", "SetUnknownHold/bytes", "Has/bool", "Get/scalar", "Get/view", "Getter/scalar",
		"NewField/view", "LGet/scalar", "LGet/panic", "LLen/int", "MGet/scalar", "MGet/invalid", "MHas/bool", "MRange/keys", "MRangeFirst/int",
		"Which/int", "Range/nums", "RangeFirst/int", "GetUnknown/bytes", "IsValid/bool", "LIsValid/bool", "MIsValid/bool", "LNewElement/view", "MNewValue/view"} {
		if st.ByOp[k] == 0 {
			never = append(never, k)
		}
	}
	c.R.Cov["mc_reflect_operation_result_pairs"] = st.ByOp
	if len(never) > 0 && st.Jobs > 5 {
		c.R.InternalErr("vacuous exploration: these operation/result branches of the reflection model were never exercised: %v", never)
	}
	c.R.Cov["exhaustive"] = true
	c.R.Cov["rule"] = "every history of mutating protoreflect operations up to MaxLen over the schema-derived operation alphabet; each transition replayed on pulsar and dynamicpb in lock-step; in every distinct state all read operations compared"
	if st.Sample != nil {
		c.R.Sample(st.Sample)
	}
}

// reflectTraceRun records long random operation histories on every message type (pulsar and its
// dynamicpb twin in lock-step) and validates them with Trace_Reflect.
func reflectTraceRun(c *Ctx, histories, length int, inScope func(what, op string) bool) {
	var mu sync.Mutex
	var wg sync.WaitGroup
	sem := make(chan struct{}, 12)
	var events, cases int64
	for i, t := range c.S.Types {
		if t.Fields == 0 {
			continue
		}
		wg.Add(1)
		sem <- struct{}{}
		go func(i int, t TypeInfo) {
			defer wg.Done()
			defer func() { <-sem }()
			dir := filepath.Join(c.S.Dir, "rtrace", fmt.Sprintf("t%d", i))
			os.MkdirAll(dir, 0o755)
			fail := func(f string, a ...any) {
				mu.Lock()
				c.R.InternalErr("Trace_Reflect %s: %s", t.Name, fmt.Sprintf(f, a...))
				mu.Unlock()
			}
			schema := filepath.Join(dir, "schema.json")
			evs := filepath.Join(dir, "events.ndjson")
			if o, err := c.S.HRun(2*time.Minute, "schema", "--type", t.Name, "--out", schema); err != nil {
				fail("h schema: %v %s", err, trunc(o, 300))
				return
			}
			h := histories
			if t.Fields > 40 {
				h = histories/2 + 1
			}
			if o, err := c.S.HRun(20*time.Minute, "reflect-record", "--type", t.Name, "--n", fmt.Sprint(h), "--len", fmt.Sprint(length), "--seed", fmt.Sprint(c.Seed*77+int64(i)), "--out", evs); err != nil {
				fail("reflect-record: %v %s", err, trunc(o, 800))
				return
			}
			lines := readLines(evs)
			res, err := RunTLC(filepath.Join(dir, "tlc"), TLCOpts{Spec: "Trace_Reflect", Cfg: "Trace_Reflect.cfg", Env: map[string]string{"VERIF_SCHEMA": schema, "VERIF_TRACE": evs}, Timeout: 30 * time.Minute, HeapMB: 2500})
			if err != nil || res.Err != "" {
				fail("tlc: %v %s", err, trunc(res.Err, 800))
				return
			}
			done := false
			mu.Lock()
			defer mu.Unlock()
			for _, l := range res.Lines {
				if strings.HasPrefix(l, "TRACE-DONE") {
					done = true
				}
				if !strings.HasPrefix(l, "VERDICT ") {
					continue
				}
				var v struct {
					L, C      int
					Op, What  string
					Impl, Ref bool
				}
				json.Unmarshal([]byte(l[8:]), &v)
				ev := ""
				if v.L >= 1 && v.L <= len(lines) {
					ev = lines[v.L-1]
				}
				if !v.Ref {
					c.R.InternalErr("spec and reference disagree on a recorded history step: type=%s op=%s event=%s", t.Name, v.Op, trunc(ev, 400))
					continue
				}
				if inScope(v.What, v.Op) {
					// the history up to this step (for replay)
					start := v.L - 1
					for start > 0 && !strings.HasPrefix(lines[start], `{"case"`) && !strings.Contains(lines[start][:40], `"ev":"new"`) {
						start--
					}
					c.R.Violate(fmt.Sprintf("trace:%s:%s", v.What, v.Op), fmt.Sprintf("type=%s history step %d: %s", t.Name, v.L, trunc(ev, 500)),
						map[string]any{"engine": "trace_reflect", "type": t.Name, "event": trunc(ev, 4000)})
				}
			}
			if !done {
				c.R.InternalErr("Trace_Reflect %s did not consume the trace", t.Name)
			}
			events += int64(len(lines))
			cases += int64(h)
			os.RemoveAll(dir)
		}(i, t)
	}
	wg.Wait()
	c.R.AddCount("traces_validated_against_impl", cases)
	c.R.AddCount("evaluations", events)
	c.R.AddCount("transitions", events)
	c.R.Cov["random_history_events"] = events
	c.R.Cov["random_histories"] = cases
}

var reflTrusted = []string{"TLC 1.8.0 / SANY", "CommunityModules Json/IOUtils", "protobuf-go v1.34.0 dynamicpb (reference, replayed in lock-step)", "protobuf-go impl reflection over the generated struct (independent state projection)", "Go toolchain"}

func init() {
	register(&Check{ID: "C08", Level: "model_checking", Run: func(c *Ctx) {
		c.R.Trusted = reflTrusted
		mcReflectCheckJobs(c, append(reflJobs(c), reflFieldGroupJobs(c)...), func(v ReflVerdict) bool { return !strings.HasPrefix(v.What, "nil:") })
		reflectTraceRun(c, c.pick(4, 40), c.pick(60, 200), func(what, op string) bool { return true })
		// the oneof discipline for histories of ANY length (inductive invariant, Apalache)
		oneofInductive(c)
	}})
	register(&Check{ID: "C09", Level: "model_checking", Run: func(c *Ctx) {
		c.R.Trusted = reflTrusted
		mcReflectCheck(c, func(v ReflVerdict) bool {
			if strings.HasPrefix(v.What, "nil:") {
				return true
			}
			// the empty read-only views handed out by Get in ordinary states
			rd := opName(v.Read)
			return v.What == "read" && (rd == "Get" || rd == "Getter" || rd == "IsValid" || rd == "LIsValid" || rd == "MIsValid")
		})
	}})
}
