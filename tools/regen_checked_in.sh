#!/bin/bash
# Re-derives the checked-in *.pulsar.go files of /repo after a generator (template) change,
# keeping their source comments: the descriptors linked into the binaries carry no comments, so
# the files are generated twice without comments -- by the plugin built from HEAD (old) and by the
# plugin built from the working tree (new) -- and the old->new diff is applied to the checked-in
# files. Used only while preparing "fix:" commits; not part of any check.
set -euo pipefail
export GOFLAGS=-mod=mod GOPROXY=off GOSUMDB=off GOTOOLCHAIN=local
R=${REPO:-/repo}
T=$(mktemp -d /tmp/regen-XXXXXX)
trap 'rm -rf "$T"' EXIT
mkdir -p "$T/old" "$T/new"
git -C "$R" archive HEAD | tar -x -C "$T/old"
rsync -a --exclude .git "$R/" "$T/new/"
for v in old new; do
  rsync -a /verif/harness/ "$T/$v/zzverif/"
  (cd "$T/$v" && go build -o "$T/$v.plugin" ./cmd/protoc-gen-go-pulsar && go build -o "$T/$v.gen" ./zzverif/cmd/gen)
  "$T/$v.gen" regen --plugin "$T/$v.plugin" --out "$T/$v.out"
done
(cd "$T" && diff -ruN old.out new.out > "$T/regen.diff" || true)
echo "regen diff: $(grep -c '^[-+][^-+]' "$T/regen.diff" || true) changed lines"
if [ -s "$T/regen.diff" ]; then
  (cd "$R" && patch -p1 --no-backup-if-mismatch -F 3 < "$T/regen.diff")
  (cd "$R" && gofmt -l testpb internal/testprotos/test3 || true)
fi
