#!/bin/bash
# runs every check of MANIFEST.json (quick by default) on the current tree and prints one line each
cd /verif
for c in $(python3 -c "import json;print(' '.join(x['property_id'] for x in json.load(open('MANIFEST.json'))['checks']))"); do
  s=$(date +%s)
  out=$(./bin/verif check $c --tier ${TIER:-quick} 2>&1)
  rc=$?
  echo "$c rc=$rc $(( $(date +%s) - s ))s $(echo "$out" | grep -E '^VIOLATION|^INTERNAL' | head -3 | cut -c1-200 | tr '\n' '|')"
done
