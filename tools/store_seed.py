#!/usr/bin/env python3
"""store_seed.py <src dir> <seed id> <property> <demo target dir> <needs> <caught_by (comma list or 'MISSED')> [notes]
Copies a confirmed seeded change into /verif/seeded/<seed id>/ with meta.json."""
import sys, os, shutil, json
src, sid, prop, tgt, needs, caught = sys.argv[1:7]
notes = sys.argv[7] if len(sys.argv) > 7 else ""
dst = f"/verif/seeded/{sid}"
os.makedirs(dst, exist_ok=True)
for f in os.listdir(src):
    p = os.path.join(src, f)
    if os.path.isdir(p):
        shutil.copytree(p, os.path.join(dst, f), dirs_exist_ok=True)
    else:
        shutil.copy(p, os.path.join(dst, f))
meta = {
    "id": sid, "breaks_property": prop, "origin": "independent sub-agent given only the property text and a scratch worktree",
    "needs_to_manifest": needs, "demo_target_dir": tgt,
    "confirmed": "tools/confirm_seed.sh: demo passes on clean tree; with patch: go build ok, 107 repository tests pass, demo fails",
    "checks_run": f"tools/try_patch.sh {dst}/patch.diff <ids> (quick tier, VERIF_SEED=1)",
    "caught_by": [] if caught == "MISSED" else caught.split(","),
    "missed": caught == "MISSED", "notes": notes,
}
json.dump(meta, open(os.path.join(dst, "meta.json"), "w"), indent=1)
print("stored", dst)
