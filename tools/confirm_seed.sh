#!/bin/bash
# usage: confirm_seed.sh <seed dir> <demo file[,demo file...]> <target dir in repo> [go test -run regex]
# Confirms a seeded change independently in a throw-away worktree: demo passes on the clean tree;
# with the patch the module builds, the repository's own tests pass, and the demo fails.
set -u
D=$1; DEMO=$2; TGT=$3; RUN=${4:-.}
export GOFLAGS=-mod=mod GOPROXY=off GOSUMDB=off GOTOOLCHAIN=local
W=$(mktemp -d /tmp/confirm-XXXXXX)
git -C /repo worktree add --detach "$W/wt" HEAD -q || exit 2
trap 'git -C /repo worktree remove --force "$W/wt" 2>/dev/null; rm -rf "$W"' EXIT
cd "$W/wt"
mkdir -p "$TGT"; for f in ${DEMO//,/ }; do cp "$D/$f" "$TGT/" || exit 2; done
echo "== clean tree: demo"; go test -count=1 -run "$RUN" "./$TGT/" 2>&1 | tail -3
CLEAN=$?
git apply "$D/patch.diff" || { echo "patch does not apply"; exit 2; }
echo "== patched: build"; go build ./... 2>&1 | tail -3
for f in ${DEMO//,/ }; do rm "$TGT/$f"; done
echo "== patched: repository tests"; go test -count=1 ./... 2>&1 | grep -v "no test files" | tail -6
for f in ${DEMO//,/ }; do cp "$D/$f" "$TGT/"; done
echo "== patched: demo"; go test -count=1 -run "$RUN" "./$TGT/" 2>&1 | tail -4
