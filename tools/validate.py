#!/usr/bin/env python3
"""Validates MANIFEST.json and every evidence file against the schemas in /root/.vp (run with python3-vt)."""
import json, glob, jsonschema, sys
bad = 0
try:
    jsonschema.validate(json.load(open('/verif/MANIFEST.json')), json.load(open('/root/.vp/MANIFEST.schema.json')))
    print("MANIFEST.json valid")
except Exception as e:
    print("MANIFEST.json INVALID", str(e)[:300]); bad += 1
sch = json.load(open('/root/.vp/EVIDENCE.schema.json'))
for f in sorted(glob.glob('/verif/evidence/*.json')):
    try:
        jsonschema.validate(json.load(open(f)), sch)
    except Exception as e:
        print(f, "INVALID", str(e)[:300]); bad += 1
print("evidence files checked:", len(glob.glob('/verif/evidence/*.json')), "invalid:", bad)
sys.exit(1 if bad else 0)
