#!/usr/bin/env python3
"""store_round.py <src root> <list file> <result dirs (comma, later wins)> <needs.json> <id offset> <base commit> [round]
Stores every seed of a batch list (lines: id demo[,demo] target checks) as /verif/seeded/<prop>-<k+offset>/
with meta.json; caught_by is taken from the VIOLATION signatures in the latest result file of the seed."""
import sys, os, re, json, shutil
src, lst, resdirs, needsf, off, base = sys.argv[1:7]
rnd = sys.argv[7] if len(sys.argv) > 7 else "2"
needs = json.load(open(needsf)) if os.path.exists(needsf) else {}
auto = {}
if off == "auto":
    for d in os.listdir('/verif/seeded'):
        pr, k = d.split('-')
        auto[pr] = max(auto.get(pr, 0), int(k))
for line in open(lst):
    parts = line.split()
    if len(parts) < 4: continue
    sid, demo, tgt, checks = parts[:4]
    prop, k = sid.split('-')
    nid = f"{prop}-{int(k)+(auto.get(prop, 0) if off == 'auto' else int(off))}"
    res, first = None, None
    for d in resdirs.split(','):
        p = os.path.join(d, sid + '.txt')
        if os.path.exists(p):
            res = p
            if first is None: first = p
    txt = open(res).read() if res else ""
    first_missed = first is not None and first != res and 'VIOLATION' not in open(first).read()
    # the confirmation may be in an earlier result file than the final check run
    ctxt = txt
    for d in resdirs.split(','):
        p = os.path.join(d, sid + '.txt')
        if os.path.exists(p) and "== clean tree: demo\nok" in open(p).read(): ctxt = open(p).read()
    sigs, cur = [], None
    for l in txt.splitlines():
        m = re.match(r'VIOLATION property=(C\d+)', l)
        if m: cur = m.group(1)
        m = re.match(r'\s+sig=(\S+)', l)
        if m and cur: sigs.append(f"{cur}:{m.group(1)}")
    confirmed = ("== clean tree: demo\nok" in ctxt) and (re.search(r'== patched: demo\n(.*\n){0,8}?(--- FAIL|FAIL|panic)', ctxt) is not None)
    dst = f"/verif/seeded/{nid}"
    os.makedirs(dst, exist_ok=True)
    for f in os.listdir(os.path.join(src, sid)):
        p = os.path.join(src, sid, f)
        if os.path.isdir(p): shutil.copytree(p, os.path.join(dst, f), dirs_exist_ok=True)
        else: shutil.copy(p, os.path.join(dst, f))
    meta = {"id": nid, "round": int(rnd), "agent_id": sid, "breaks_property": prop,
            "origin": "independent sub-agent given only the property text and a scratch worktree",
            "needs_to_manifest": needs.get(sid, ""), "demo_files": demo.split(','), "demo_target_dir": tgt,
            "base_commit": base,
            "confirmed": "tools/confirm_seed.sh: demo passes on the clean tree; with the patch: go build ok, repository tests pass, demo fails" if confirmed else "NOT CONFIRMED (see notes)",
            "checks_run": f"tools/try_patch_wt.sh patch.diff {checks.replace(',', ' ')} (quick tier, VERIF_SEED=1)",
            "caught_by": sorted(set(sigs)), "missed": not sigs,
            "missed_by_the_checks_as_they_were_when_it_arrived": first_missed,
            "notes": "first tried and missed; caught after the strengthening recorded in DESIGN.md section 13" if first_missed else ""}
    json.dump(meta, open(os.path.join(dst, "meta.json"), "w"), indent=1)
    print(nid, "caught" if sigs else "MISSED", "confirmed" if confirmed else "UNCONFIRMED", len(sigs))
