#!/bin/bash
# usage: try_patch_wt.sh <patch.diff> <check id>...
# Like try_patch.sh but never touches /repo's working tree: the patch is applied in a throw-away
# worktree and the checks are pointed at it with VERIF_REPO (so several can run in parallel).
set -u
P=$1; shift
export GOFLAGS=-mod=mod GOPROXY=off GOSUMDB=off GOTOOLCHAIN=local
W=$(mktemp -d /tmp/trywt-XXXXXX)
git -C /repo worktree add --detach "$W/wt" HEAD -q || exit 2
trap 'git -C /repo worktree remove --force "$W/wt" 2>/dev/null; rm -rf "$W"' EXIT
git -C "$W/wt" apply "$P" || { echo "try_patch_wt: patch does not apply"; exit 2; }
cd /verif
for c in "$@"; do
  VERIF_REPO="$W/wt" VERIF_EVIDENCE_DIR="$W/ev" /usr/bin/time -f "$c wall=%es" ./bin/verif check "$c" --tier "${TIER:-quick}" 2>&1 | grep -E "^VIOLATION|^  sig|^INTERNAL|^OK|^KNOWN|wall=" | cut -c1-400
done
