#!/usr/bin/env python3
"""Regenerates section 13 of DESIGN.md from seeded/*/meta.json."""
import json, os, re
rows = []
stats = {"n": 0, "missed_first": 0, "noapply": 0, "missed": 0}
for d in sorted(os.listdir('/verif/seeded'), key=lambda x: (x.split('-')[0], int(x.split('-')[1]))):
    m = json.load(open(f'/verif/seeded/{d}/meta.json'))
    stats["n"] += 1
    first = "caught"
    if m.get("missed_by_the_checks_as_they_were_when_it_arrived") or ("missed" in (m.get("notes") or "").lower() and m.get("round", 1) == 1):
        first = "missed, caught after strengthening"; stats["missed_first"] += 1
    if m.get("missed"):
        first = "missed (see notes)"; stats["missed"] += 1
    if not m.get("applies_to_repo_head", True):
        stats["noapply"] += 1
    cb = ", ".join(m.get("caught_by", [])[:3]) + (" …" if len(m.get("caught_by", [])) > 3 else "")
    rows.append(f"| {d} | {m.get('round',1)} | {m['breaks_property']} | {m.get('needs_to_manifest','').replace('|','/')} | {cb or '—'} | {first}{'' if m.get('applies_to_repo_head', True) else '; applies to ' + m.get('base_commit','') + ' only'} |")
head = open('/verif/tools/seed_section_head.md').read().format(**stats)
s = open('/verif/DESIGN.md').read()
i = s.index('## 13. Seeded changes and which checks catch them')
s = s[:i] + head + "\n| seed | round | property | needs, in order to manifest | reported as (first signatures) | first run |\n|---|---|---|---|---|---|\n" + "\n".join(rows) + "\n"
open('/verif/DESIGN.md', 'w').write(s)
print(stats)
