#!/bin/bash
# usage: batch_seeds.sh <file with lines: seedid demofile targetdir checks(comma)>
# Confirms each seed and runs the given quick checks with the patch applied; appends a summary.
OUT=/tmp/seed/results.txt
while read -r id demo tgt checks; do
  [ -z "$id" ] && continue
  echo "######## $id" >> $OUT
  /verif/tools/confirm_seed.sh /tmp/seed/out/$id $demo $tgt . 2>&1 | grep -E "^==|^FAIL|^ok |^--- FAIL|panic:|does not apply" | head -14 >> $OUT
  /verif/tools/try_patch.sh /tmp/seed/out/$id/patch.diff ${checks//,/ } 2>&1 | cut -c1-330 | head -14 >> $OUT
done < "$1"
echo "BATCH DONE" >> $OUT
