#!/bin/bash
# usage: try_patch.sh <patch.diff> <check id>... ; applies the patch to /repo, runs the quick checks,
# prints their verdict lines, and always restores /repo. Never commits anything.
set -u
P=$1; shift
cd /repo || exit 2
if [ -n "$(git status --porcelain)" ]; then echo "try_patch: /repo is not clean"; exit 2; fi
git apply "$P" || { echo "try_patch: patch does not apply"; exit 2; }
trap 'git -C /repo checkout -- . ; git -C /repo clean -fdq' EXIT
cd /verif
for c in "$@"; do
  /usr/bin/time -f "$c wall=%es" ./bin/verif check "$c" --tier "${TIER:-quick}" 2>&1 | grep -E "^VIOLATION|^  sig|^INTERNAL|^OK|^KNOWN|wall=" | cut -c1-400
done
