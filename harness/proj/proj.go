// Package proj converts between real protobuf messages and the abstract values of
// spec/Codec.tla (JSON form). Conversions use shifts and masks only: all semantic work
// (zig-zag, sign extension, presence, ordering) is done by the specification.
package proj

import (
	"fmt"
	"math"
	"sort"
	"strconv"

	"google.golang.org/protobuf/proto"
	"google.golang.org/protobuf/reflect/protoreflect"
	"google.golang.org/protobuf/reflect/protoregistry"
	"google.golang.org/protobuf/runtime/protoimpl"
)

type J = map[string]any

// ---- digits -------------------------------------------------------------------------------

func Digits64(x uint64) []int {
	d := make([]int, 10)
	for i := 0; i < 10; i++ {
		d[i] = int(x >> (7 * uint(i)) & 127)
	}
	return d
}
func Digits32(x uint32) []int {
	d := make([]int, 5)
	for i := 0; i < 5; i++ {
		d[i] = int(x >> (7 * uint(i)) & 127)
	}
	return d
}
func FromDigits(d []int) uint64 {
	var x uint64
	for i, v := range d {
		if i >= 10 {
			break
		}
		x |= uint64(v) << (7 * uint(i))
	}
	return x
}
func LE(x uint64, n int) []int {
	b := make([]int, n)
	for i := 0; i < n; i++ {
		b[i] = int(x >> (8 * uint(i)) & 255)
	}
	return b
}
func FromLE(b []int) uint64 {
	var x uint64
	for i, v := range b {
		x |= uint64(v) << (8 * uint(i))
	}
	return x
}
func Bytes(b []byte) []int {
	out := make([]int, len(b))
	for i, c := range b {
		out[i] = int(c)
	}
	return out
}
func ToBytes(a []int) []byte {
	out := make([]byte, len(a))
	for i, c := range a {
		out[i] = byte(c)
	}
	return out
}

// ---- schema -------------------------------------------------------------------------------

func KindName(k protoreflect.Kind) string {
	switch k {
	case protoreflect.GroupKind:
		return "group"
	}
	return k.String()
}

func card(fd protoreflect.FieldDescriptor) string {
	switch {
	case fd.IsMap():
		return "map"
	case fd.IsList():
		return "rep"
	case fd.ContainingOneof() != nil && !fd.ContainingOneof().IsSynthetic():
		return "oneof"
	case fd.ContainingOneof() != nil:
		return "opt"
	}
	return "one"
}

func fieldDef(fd protoreflect.FieldDescriptor) J {
	d := J{"num": int(fd.Number()), "name": string(fd.Name()), "kind": KindName(fd.Kind()), "card": card(fd),
		"packed": fd.IsPacked(), "oo": 0, "msg": "", "kk": "", "vk": "", "vmsg": ""}
	if od := fd.ContainingOneof(); od != nil && !od.IsSynthetic() {
		d["oo"] = od.Index() + 1
	}
	if fd.IsMap() {
		d["kk"] = KindName(fd.MapKey().Kind())
		d["vk"] = KindName(fd.MapValue().Kind())
		if fd.MapValue().Message() != nil {
			d["vmsg"] = string(fd.MapValue().Message().FullName())
		}
	} else if fd.Message() != nil {
		d["msg"] = string(fd.Message().FullName())
	}
	return d
}

// Schema dumps md and every message type reachable from it. If filter is non-nil only fields
// for which it returns true are kept (sub-schemas for bounded exhaustive runs); filtered fields
// become unknown fields of the sub-schema, which is sound for the codec specs.
func Schema(md protoreflect.MessageDescriptor, filter func(protoreflect.FieldDescriptor) bool) J {
	out := J{}
	var walk func(md protoreflect.MessageDescriptor)
	walk = func(md protoreflect.MessageDescriptor) {
		name := string(md.FullName())
		if _, ok := out[name]; ok {
			return
		}
		fields := []any{}
		out[name] = nil
		var next []protoreflect.MessageDescriptor
		for i := 0; i < md.Fields().Len(); i++ {
			fd := md.Fields().Get(i)
			if filter != nil && !filter(fd) {
				continue
			}
			fields = append(fields, fieldDef(fd))
			if fd.IsMap() {
				if m := fd.MapValue().Message(); m != nil {
					next = append(next, m)
				}
			} else if m := fd.Message(); m != nil {
				next = append(next, m)
			}
		}
		n := 0
		for i := 0; i < md.Oneofs().Len(); i++ {
			if !md.Oneofs().Get(i).IsSynthetic() {
				n = i + 1
			}
		}
		nums := []any{}
		for i := 0; i < md.Fields().Len(); i++ {
			nums = append(nums, int(md.Fields().Get(i).Number()))
		}
		// nums lists every declared number of the real type (also the filtered-out ones), so that
		// model-chosen "unknown" numbers are unknown to the real type as well
		out[name] = J{"fields": fields, "oneofs": n, "nums": nums}
		for _, m := range next {
			walk(m)
		}
	}
	walk(md)
	return out
}

// ---- wrapping -----------------------------------------------------------------------------

// Impl returns standard (struct-based) protobuf-go reflection over m, bypassing pulsar's fast
// reflection: for pulsar types the registered MessageType is the *protoimpl.MessageInfo built by
// the protoc half of the generated file.
func Impl(m proto.Message) protoreflect.Message {
	if m == nil {
		return nil
	}
	name := m.ProtoReflect().Descriptor().FullName()
	mt, err := protoregistry.GlobalTypes.FindMessageByName(name)
	if err == nil {
		if mi, ok := mt.(*protoimpl.MessageInfo); ok {
			// only valid if the Go type matches (dynamicpb messages share names)
			if mi.GoReflectType != nil && fmt.Sprintf("%T", m) == mi.GoReflectType.String() {
				return mi.MessageOf(m)
			}
		}
	}
	return m.ProtoReflect()
}

// Wrap is how nested messages are re-wrapped during projection.
type Wrap func(protoreflect.Message) protoreflect.Message

// WrapImpl re-wraps through Impl (independent projection).
func WrapImpl(m protoreflect.Message) protoreflect.Message { return Impl(m.Interface()) }

// WrapNone uses the message's own reflection (pulsar fast reflection for pulsar types).
func WrapNone(m protoreflect.Message) protoreflect.Message { return m }

// ---- projection ---------------------------------------------------------------------------

func scalar(kind protoreflect.Kind, v protoreflect.Value) any {
	switch kind {
	case protoreflect.BoolKind:
		if v.Bool() {
			return []int{1}
		}
		return []int{0}
	case protoreflect.Int32Kind, protoreflect.Sint32Kind:
		return Digits32(uint32(int32(v.Int())))
	case protoreflect.EnumKind:
		return Digits32(uint32(int32(v.Enum())))
	case protoreflect.Uint32Kind:
		return Digits32(uint32(v.Uint()))
	case protoreflect.Int64Kind, protoreflect.Sint64Kind:
		return Digits64(uint64(v.Int()))
	case protoreflect.Uint64Kind:
		return Digits64(v.Uint())
	case protoreflect.Sfixed32Kind:
		return LE(uint64(uint32(int32(v.Int()))), 4)
	case protoreflect.Fixed32Kind:
		return LE(uint64(uint32(v.Uint())), 4)
	case protoreflect.FloatKind:
		return LE(uint64(math.Float32bits(float32(v.Float()))), 4)
	case protoreflect.Sfixed64Kind:
		return LE(uint64(v.Int()), 8)
	case protoreflect.Fixed64Kind:
		return LE(v.Uint(), 8)
	case protoreflect.DoubleKind:
		return LE(math.Float64bits(v.Float()), 8)
	case protoreflect.StringKind:
		return Bytes([]byte(v.String()))
	case protoreflect.BytesKind:
		return Bytes(v.Bytes())
	}
	panic("proj: scalar of kind " + kind.String())
}

func elem(fd protoreflect.FieldDescriptor, v protoreflect.Value, w Wrap) any {
	if fd.Kind() == protoreflect.MessageKind || fd.Kind() == protoreflect.GroupKind {
		return Project(w(v.Message()), w)
	}
	return scalar(fd.Kind(), v)
}

// keyLess orders projected keys for a stable JSON rendering only (the specification does its
// own sorting for deterministic encoding).
func keyString(a any) string { return fmt.Sprint(a) }

// Project renders the populated fields of m (as reported by m.Range) and its unknown bytes.
func Project(m protoreflect.Message, w Wrap) J {
	f := J{}
	m.Range(func(fd protoreflect.FieldDescriptor, v protoreflect.Value) bool {
		key := strconv.Itoa(int(fd.Number()))
		switch {
		case fd.IsMap():
			var ps []any
			v.Map().Range(func(k protoreflect.MapKey, mv protoreflect.Value) bool {
				ps = append(ps, J{"k": scalar(fd.MapKey().Kind(), k.Value()), "v": elem(fd.MapValue(), mv, w)})
				return true
			})
			sort.Slice(ps, func(i, j int) bool { return keyString(ps[i].(J)["k"]) < keyString(ps[j].(J)["k"]) })
			f[key] = ps
		case fd.IsList():
			l := v.List()
			es := make([]any, l.Len())
			for i := 0; i < l.Len(); i++ {
				es[i] = elem(fd, l.Get(i), w)
			}
			f[key] = es
		default:
			f[key] = elem(fd, v, w)
		}
		return true
	})
	return J{"f": f, "u": Bytes(m.GetUnknown())}
}

// ---- construction -------------------------------------------------------------------------

func ints(a any) []int {
	switch t := a.(type) {
	case []int:
		return t
	case []any:
		out := make([]int, len(t))
		for i, x := range t {
			switch n := x.(type) {
			case float64:
				out[i] = int(n)
			case int:
				out[i] = n
			default:
				panic(fmt.Sprintf("proj: not a number: %T", x))
			}
		}
		return out
	case nil:
		return nil
	}
	panic(fmt.Sprintf("proj: not an int list: %T", a))
}

// ScalarValue converts an abstract scalar back to a protoreflect.Value.
func ScalarValue(kind protoreflect.Kind, a any) protoreflect.Value {
	d := ints(a)
	switch kind {
	case protoreflect.BoolKind:
		return protoreflect.ValueOfBool(len(d) > 0 && d[0] != 0)
	case protoreflect.Int32Kind, protoreflect.Sint32Kind:
		return protoreflect.ValueOfInt32(int32(uint32(FromDigits(d))))
	case protoreflect.EnumKind:
		return protoreflect.ValueOfEnum(protoreflect.EnumNumber(int32(uint32(FromDigits(d)))))
	case protoreflect.Uint32Kind:
		return protoreflect.ValueOfUint32(uint32(FromDigits(d)))
	case protoreflect.Int64Kind, protoreflect.Sint64Kind:
		return protoreflect.ValueOfInt64(int64(FromDigits(d)))
	case protoreflect.Uint64Kind:
		return protoreflect.ValueOfUint64(FromDigits(d))
	case protoreflect.Sfixed32Kind:
		return protoreflect.ValueOfInt32(int32(uint32(FromLE(d))))
	case protoreflect.Fixed32Kind:
		return protoreflect.ValueOfUint32(uint32(FromLE(d)))
	case protoreflect.FloatKind:
		return protoreflect.ValueOfFloat32(math.Float32frombits(uint32(FromLE(d))))
	case protoreflect.Sfixed64Kind:
		return protoreflect.ValueOfInt64(int64(FromLE(d)))
	case protoreflect.Fixed64Kind:
		return protoreflect.ValueOfUint64(FromLE(d))
	case protoreflect.DoubleKind:
		return protoreflect.ValueOfFloat64(math.Float64frombits(FromLE(d)))
	case protoreflect.StringKind:
		return protoreflect.ValueOfString(string(ToBytes(d)))
	case protoreflect.BytesKind:
		return protoreflect.ValueOfBytes(ToBytes(d))
	}
	panic("proj: ScalarValue of kind " + kind.String())
}

func asJ(a any) J {
	switch t := a.(type) {
	case J:
		return t
	case nil:
		return J{}
	}
	panic(fmt.Sprintf("proj: not an object: %T", a))
}
func asList(a any) []any {
	switch t := a.(type) {
	case []any:
		return t
	case nil:
		return nil
	}
	panic(fmt.Sprintf("proj: not a list: %T", a))
}

// Fill populates m (through the reflection w gives) with the abstract value j.
func Fill(m protoreflect.Message, j J, w Wrap) { FillOrder(m, j, w, false) }

// FillOrder is Fill with a choice of insertion order for fields and map entries.
func FillOrder(m protoreflect.Message, j J, w Wrap, reverse bool) {
	fs := asJ(j["f"])
	md := m.Descriptor()
	keys := make([]string, 0, len(fs))
	for k := range fs {
		keys = append(keys, k)
	}
	sort.Strings(keys)
	if reverse {
		for i, j := 0, len(keys)-1; i < j; i, j = i+1, j-1 {
			keys[i], keys[j] = keys[j], keys[i]
		}
	}
	for _, k := range keys {
		x := fs[k]
		n, _ := strconv.Atoi(k)
		fd := md.Fields().ByNumber(protoreflect.FieldNumber(n))
		if fd == nil {
			panic("proj: no field " + k + " in " + string(md.FullName()))
		}
		switch {
		case fd.IsMap():
			mp := m.Mutable(fd).Map()
			ents := asList(x)
			if reverse {
				ents = append([]any(nil), ents...)
				for i, j := 0, len(ents)-1; i < j; i, j = i+1, j-1 {
					ents[i], ents[j] = ents[j], ents[i]
				}
			}
			for _, p := range ents {
				pj := asJ(p)
				key := ScalarValue(fd.MapKey().Kind(), pj["k"]).MapKey()
				if fd.MapValue().Message() != nil {
					sub := mp.NewValue()
					FillOrder(w(sub.Message()), asJ(pj["v"]), w, reverse)
					mp.Set(key, sub)
				} else {
					mp.Set(key, ScalarValue(fd.MapValue().Kind(), pj["v"]))
				}
			}
		case fd.IsList():
			l := m.Mutable(fd).List()
			for _, e := range asList(x) {
				if fd.Message() != nil {
					sub := l.NewElement()
					FillOrder(w(sub.Message()), asJ(e), w, reverse)
					l.Append(sub)
				} else {
					l.Append(ScalarValue(fd.Kind(), e))
				}
			}
		case fd.Message() != nil:
			sub := m.NewField(fd)
			FillOrder(w(sub.Message()), asJ(x), w, reverse)
			m.Set(fd, sub)
		default:
			m.Set(fd, ScalarValue(fd.Kind(), x))
		}
	}
	if u := ints(j["u"]); len(u) > 0 {
		m.SetUnknown(ToBytes(u))
	}
}

// Normalize brings an abstract value (from TLC or from Project) into a canonical JSON shape:
// map entries sorted by the JSON text of their key, empty containers unified.
func Normalize(j any, md protoreflect.MessageDescriptor) J {
	in := J{}
	switch t := j.(type) {
	case J:
		in = t
	}
	out := J{"f": J{}, "u": ints(in["u"])}
	if out["u"] == nil {
		out["u"] = []int{}
	}
	fs, _ := in["f"].(J)
	of := out["f"].(J)
	for k, x := range fs {
		n, _ := strconv.Atoi(k)
		fd := md.Fields().ByNumber(protoreflect.FieldNumber(n))
		if fd == nil {
			of[k] = x
			continue
		}
		switch {
		case fd.IsMap():
			var ps []any
			for _, p := range asList(x) {
				pj := asJ(p)
				v := pj["v"]
				if fd.MapValue().Message() != nil {
					v = Normalize(v, fd.MapValue().Message())
				} else {
					v = ints(v)
				}
				ps = append(ps, J{"k": ints(pj["k"]), "v": v})
			}
			sort.Slice(ps, func(a, b int) bool { return keyString(ps[a].(J)["k"]) < keyString(ps[b].(J)["k"]) })
			of[k] = ps
		case fd.IsList():
			var es []any
			for _, e := range asList(x) {
				if fd.Message() != nil {
					es = append(es, Normalize(e, fd.Message()))
				} else {
					es = append(es, ints(e))
				}
			}
			of[k] = es
		case fd.Message() != nil:
			of[k] = Normalize(x, fd.Message())
		default:
			of[k] = ints(x)
		}
	}
	return out
}

// ScalarJSON renders a scalar protoreflect.Value as the abstract bit-pattern tuple.
func ScalarJSON(kind protoreflect.Kind, v protoreflect.Value) any { return scalar(kind, v) }
