package main

import (
	"bufio"
	"encoding/json"
	"flag"
	"fmt"
	"os"
	"reflect"
	"regexp"
	"strings"
	"time"
	"unicode/utf8"

	"github.com/cosmos/cosmos-proto/rapidproto"
	"github.com/cosmos/cosmos-proto/zzverif/proj"
	"google.golang.org/protobuf/proto"
	"google.golang.org/protobuf/reflect/protoreflect"
	"google.golang.org/protobuf/reflect/protoregistry"
	"google.golang.org/protobuf/types/dynamicpb"
	"google.golang.org/protobuf/types/known/anypb"
	"google.golang.org/protobuf/types/known/durationpb"
	"google.golang.org/protobuf/types/known/fieldmaskpb"
	"google.golang.org/protobuf/types/known/timestamppb"
	"pgregory.net/rapid"
)

func init() { extraCmds["rapidgen"] = cmdRapidgen }

type node struct {
	Depth            int `json:"depth"`
	EnumBad          int `json:"enumBad"`
	EmptyLists       int `json:"emptyLists"`       // empty lists of messages
	EmptyScalarLists int `json:"emptyScalarLists"` // empty lists of scalars / enums
	NilMsgs          int `json:"nilMsgs"`
	BadUtf8          int `json:"badUtf8"`
	Unmapped         int `json:"unmapped"`
	TsBad            int `json:"tsBad"`
	DurBad           int `json:"durBad"`
	AnyBad           int `json:"anyBad"`
	MaskBad          int `json:"maskBad"`
}

// rapidDepthLimit is rapidproto's depthLimit (RapidGen!Limit): messages nested deeper are not filled.
const rapidDepthLimit = 10

var pathRe = regexp.MustCompile(`^[a-z]+([.][a-z]+){0,2}$`)

const mappedString = "MAPPED"

// facts walks a generated message and records, per message node, the observations the
// specification's NodeOK predicate speaks about.
func facts(m protoreflect.Message, depth int, mapped, withAny bool, out *[]node) {
	n := node{Depth: depth}
	md := m.Descriptor()
	// well-known types are recognised by NAME: a dynamicpb-backed Timestamp is a Timestamp
	concrete := func(dst proto.Message) bool {
		if reflect.TypeOf(m.Interface()) == reflect.TypeOf(dst) {
			proto.Merge(dst, m.Interface())
			return true
		}
		b, err := proto.Marshal(m.Interface())
		return err == nil && proto.Unmarshal(b, dst) == nil
	}
	switch md.FullName() {
	case "google.protobuf.Timestamp":
		if ts := new(timestamppb.Timestamp); !concrete(ts) || ts.CheckValid() != nil {
			n.TsBad++
		}
		*out = append(*out, n)
		return
	case "google.protobuf.Duration":
		if d := new(durationpb.Duration); !concrete(d) || d.CheckValid() != nil {
			n.DurBad++
		}
		*out = append(*out, n)
		return
	case "google.protobuf.FieldMask":
		if fm := new(fieldmaskpb.FieldMask); concrete(fm) {
			// (1..5 paths are drawn for a FieldMask the generator fills; one that sits below the
			// nesting limit -- packed in an Any at the last level -- is left empty, nothing having
			// been drawn for it)
			if (len(fm.Paths) < 1 && depth <= rapidDepthLimit) || len(fm.Paths) > 5 {
				n.MaskBad++
			}
			for _, p := range fm.Paths {
				if !pathRe.MatchString(p) {
					n.MaskBad++
				}
			}
		}
		*out = append(*out, n)
		return
	case "google.protobuf.Any":
		if a := new(anypb.Any); concrete(a) {
			mt, err := protoregistry.GlobalTypes.FindMessageByURL(a.TypeUrl)
			if err != nil {
				n.AnyBad++
			} else {
				inner := mt.New().Interface()
				if err := proto.Unmarshal(a.Value, inner); err != nil || hasUnknown(inner.ProtoReflect(), 0) {
					// (the generator never produces unknown fields: bytes that decode into unknown
					// fields of the URL's type were generated for another type)
					n.AnyBad++
				} else {
					facts(inner.ProtoReflect(), depth+1, mapped, withAny, out)
				}
			}
		}
		*out = append(*out, n)
		return
	}
	scalarFacts := func(fd protoreflect.FieldDescriptor, v protoreflect.Value) {
		switch fd.Kind() {
		case protoreflect.EnumKind:
			if fd.Enum().Values().ByNumber(v.Enum()) == nil {
				n.EnumBad++
			}
		case protoreflect.StringKind:
			if !utf8.ValidString(v.String()) {
				n.BadUtf8++
			}
			if mapped && v.String() != mappedString {
				n.Unmapped++
			}
		}
	}
	for i := 0; i < md.Fields().Len(); i++ {
		fd := md.Fields().Get(i)
		switch {
		case fd.IsMap():
			m.Get(fd).Map().Range(func(k protoreflect.MapKey, v protoreflect.Value) bool {
				scalarFacts(fd.MapKey(), k.Value())
				if fd.MapValue().Message() != nil {
					facts(v.Message(), depth+1, mapped, withAny, out)
				} else {
					scalarFacts(fd.MapValue(), v)
				}
				return true
			})
		case fd.IsList():
			l := m.Get(fd).List()
			if l.Len() == 0 {
				if fd.Message() != nil && fd.Message().FullName() == "google.protobuf.Any" && !withAny {
					// a list of Any cannot have elements when no type URLs are configured
				} else if fd.Message() != nil {
					n.EmptyLists++
				} else {
					n.EmptyScalarLists++
				}
			}
			for j := 0; j < l.Len(); j++ {
				if fd.Message() != nil {
					facts(l.Get(j).Message(), depth+1, mapped, withAny, out)
				} else {
					scalarFacts(fd, l.Get(j))
				}
			}
		case fd.Message() != nil:
			if fd.ContainingOneof() != nil {
				// members of a oneof cannot all be set; a oneof counts as populated if any member is
				if m.WhichOneof(fd.ContainingOneof()) == nil && fd.ContainingOneof().Fields().Get(0) == fd {
					allMsg := true
					for k := 0; k < fd.ContainingOneof().Fields().Len(); k++ {
						if fd.ContainingOneof().Fields().Get(k).Message() == nil {
							allMsg = false
						}
					}
					if allMsg {
						n.NilMsgs++
					}
				}
				if m.Has(fd) {
					facts(m.Get(fd).Message(), depth+1, mapped, withAny, out)
				}
				continue
			}
			if !m.Has(fd) {
				// an Any field is legitimately left unset when no Any type URLs are configured
				if fd.Message().FullName() != "google.protobuf.Any" {
					n.NilMsgs++
				}
			} else {
				facts(m.Get(fd).Message(), depth+1, mapped, withAny, out)
			}
		default:
			// only populated scalars were generated (messages beyond the nesting limit are left as
			// empty shells by design)
			if m.Has(fd) {
				scalarFacts(fd, m.Get(fd))
			}
		}
	}
	*out = append(*out, n)
}

// reaches reports whether message type `to` is reachable from `from` through message fields.
func reaches(from, to protoreflect.MessageDescriptor, seen map[protoreflect.FullName]bool) bool {
	if seen[from.FullName()] {
		return false
	}
	seen[from.FullName()] = true
	for i := 0; i < from.Fields().Len(); i++ {
		fd := from.Fields().Get(i)
		var next protoreflect.MessageDescriptor
		if fd.IsMap() {
			next = fd.MapValue().Message()
		} else {
			next = fd.Message()
		}
		if next == nil {
			continue
		}
		if next.FullName() == to.FullName() || reaches(next, to, seen) {
			return true
		}
	}
	return false
}

// recursiveFanout: some message reachable from md has a repeated or map field of message type
// through which the same message is reachable again, so the expected size of a generated value
// grows geometrically with the nesting depth (up to the generator's limit of 10 levels).
func recursiveFanout(md protoreflect.MessageDescriptor) bool {
	var all []protoreflect.MessageDescriptor
	seen := map[protoreflect.FullName]bool{}
	var collect func(m protoreflect.MessageDescriptor)
	collect = func(m protoreflect.MessageDescriptor) {
		if seen[m.FullName()] {
			return
		}
		seen[m.FullName()] = true
		all = append(all, m)
		for i := 0; i < m.Fields().Len(); i++ {
			fd := m.Fields().Get(i)
			if fd.IsMap() && fd.MapValue().Message() != nil {
				collect(fd.MapValue().Message())
			} else if fd.Message() != nil {
				collect(fd.Message())
			}
		}
	}
	collect(md)
	for _, y := range all {
		back := 0 // fields of y through which y is reachable again (a list/map counts as many)
		for i := 0; i < y.Fields().Len(); i++ {
			fd := y.Fields().Get(i)
			var z protoreflect.MessageDescriptor
			if fd.IsMap() {
				z = fd.MapValue().Message()
			} else {
				z = fd.Message()
			}
			if z == nil || !(z.FullName() == y.FullName() || reaches(z, y, map[protoreflect.FullName]bool{})) {
				continue
			}
			if fd.IsMap() || fd.IsList() {
				back += 2
			} else {
				back++
			}
		}
		if back >= 2 {
			return true
		}
	}
	return false
}

func cmdRapidgen(args []string) {
	fs := flag.NewFlagSet("rapidgen", flag.ExitOnError)
	typ := fs.String("type", "", "message type (or google.protobuf.Any)")
	n := fs.Int("n", 20, "examples per option set")
	seed := fs.Int("seed", 1, "")
	out := fs.String("out", "", "events")
	dyn := fs.Bool("dynamic", false, "generate for the dynamicpb message of this descriptor (all nested messages, well-known types included, are then dynamic)")
	fs.Parse(args)
	var zero proto.Message
	if *typ == "google.protobuf.Any" {
		zero = &anypb.Any{}
	} else if *dyn {
		zero = dynamicpb.NewMessage(findType(*typ).Descriptor())
	} else {
		zero = findType(*typ).New().Interface()
	}
	of, _ := os.Create(*out)
	defer of.Close()
	w := bufio.NewWriter(of)
	defer w.Flush()
	anyURLs := []string{}
	// type URLs of every shape a resolver accepts (the message name is what follows the LAST
	// slash), naming ordinary messages and well-known types (whose rules then apply inside the Any)
	for i, cand := range []string{"verif.s0.N", "B", "verif.xb.Leaf", "verif.xa.Box", "google.protobuf.Timestamp", "google.protobuf.Duration", "google.protobuf.FieldMask"} {
		if _, err := protoregistry.GlobalTypes.FindMessageByName(protoreflect.FullName(cand)); err == nil {
			anyURLs = append(anyURLs, []string{"/", "type.googleapis.com/", "https://host.example/x/v1/"}[i%3]+cand)
		}
	}
	var hostedURLs []string
	for _, u := range anyURLs {
		if strings.HasPrefix(u, "https://") {
			hostedURLs = append(hostedURLs, u)
		}
	}
	mapper := func(t *rapid.T, fd protoreflect.FieldDescriptor, name string) (protoreflect.Value, bool) {
		if fd.Kind() == protoreflect.StringKind {
			return protoreflect.ValueOfString(mappedString), true
		}
		return protoreflect.Value{}, false
	}
	fanout := recursiveFanout(zero.ProtoReflect().Descriptor())
	nofields := zero.ProtoReflect().Descriptor().Fields().Len() == 0
	started := time.Now()
	for optIdx := 0; optIdx < 16; optIdx++ {
		noempty, nonil, mapped, withAny := optIdx&1 != 0, optIdx&2 != 0, optIdx&4 != 0, optIdx&8 != 0
		if *typ == "google.protobuf.Any" && !withAny {
			continue // an Any cannot be generated without configured type URLs
		}
		opts := rapidproto.GeneratorOptions{NoEmptyLists: noempty, DisallowNilMessages: nonil, Resolver: protoregistry.GlobalTypes}
		if mapped {
			// the first mapper declines every field: the second one must still be asked
			decline := func(*rapid.T, protoreflect.FieldDescriptor, string) (protoreflect.Value, bool) {
				return protoreflect.Value{}, false
			}
			opts.FieldMaps = []rapidproto.FieldMapper{decline, mapper}
		}
		if withAny {
			opts.AnyTypeURLs = anyURLs
			if len(anyURLs) > 0 {
				// fields annotated with (cosmos_proto.accepts_interface) need an implementation hint
				opts.InterfaceHints = map[string]string{"verif.opt.Account": anyURLs[0][strings.LastIndexByte(anyURLs[0], '/')+1:]}
			}
		}
		for i := 0; i < *n; i++ {
			type res struct {
				m     proto.Message
				panic string
			}
			ch := make(chan res, 1)
			go func() {
				var r res
				r.panic = catch(func() {
					opts := opts
					if withAny && i%3 == 2 && len(hostedURLs) > 0 {
						// every configured URL has a host and a path: a draw cannot fall back on a
						// simpler form (a failed draw is retried silently by rapid)
						opts.AnyTypeURLs = hostedURLs
					}
					gen := rapidproto.MessageGenerator(zero, opts)
					r.m = gen.Example(*seed*1000 + i)
				})
				ch <- r
			}()
			ev := map[string]any{"ev": "generated", "type": *typ, "seed": *seed*1000 + i,
				"opts":    map[string]any{"noempty": noempty, "nonil": nonil, "mapped": mapped, "any": withAny},
				"outcome": "ok", "fanout": fanout, "nofields": nofields, "nodes": []node{}, "refMarshal": true, "roundtrip": true, "note": ""}
			select {
			case r := <-ch:
				if r.panic != "" {
					ev["outcome"], ev["note"] = "panic", trunc(r.panic, 300)
					break
				}
				var nodes []node
				if pn := catch(func() { facts(r.m.ProtoReflect(), 0, mapped, withAny, &nodes) }); pn != "" {
					ev["outcome"], ev["note"] = "panic", "walking the output: "+trunc(pn, 200)
					break
				}
				if len(nodes) > 300 {
					// keep the event small: one representative per distinct fact vector (depth
					// clamped to the buckets that matter: below / at / above the nesting limit)
					seen := map[node]bool{}
					var keep []node
					for _, nd := range nodes {
						k := nd
						switch {
						case k.Depth < 10:
							k.Depth = 0
						case k.Depth == 10:
						default:
							k.Depth = 11
						}
						if !seen[k] {
							seen[k] = true
							keep = append(keep, nd)
						}
					}
					ev["nodeCount"] = len(nodes)
					nodes = keep
				}
				ev["nodes"] = nodes
				// the reference marshaller accepts it and it round-trips through the wire
				d := dynamicpb.NewMessage(r.m.ProtoReflect().Descriptor())
				if pn := catch(func() { proj.Fill(d.ProtoReflect(), proj.Project(r.m.ProtoReflect(), proj.WrapNone), proj.WrapNone) }); pn != "" {
					ev["refMarshal"], ev["note"] = false, "copy to reference: "+pn
					break
				}
				b, err := proto.Marshal(d)
				if err != nil {
					ev["refMarshal"], ev["note"] = false, err.Error()
					break
				}
				back := r.m.ProtoReflect().New().Interface()
				if err := proto.Unmarshal(b, back); err != nil || !proto.Equal(back, r.m) {
					ev["roundtrip"], ev["note"] = false, fmt.Sprint(err)
				}
			case <-time.After(10 * time.Second):
				ev["outcome"], ev["note"] = "timeout", "generator did not return within 10s"
			}
			b, _ := json.Marshal(ev)
			w.Write(b)
			w.WriteByte('\n')
			w.Flush()
			if ev["outcome"] == "timeout" {
				return // the stuck goroutine keeps running: leave this process
			}
			if fanout && time.Since(started) > 25*time.Second {
				return // known-slow type: enough evidence for this run
			}
		}
	}
}

// hasUnknown reports whether m or any message below it (a few levels) holds unknown fields.
func hasUnknown(m protoreflect.Message, depth int) bool {
	if len(m.GetUnknown()) > 0 {
		return true
	}
	if depth > 6 {
		return false
	}
	found := false
	m.Range(func(fd protoreflect.FieldDescriptor, v protoreflect.Value) bool {
		switch {
		case fd.IsMap() && fd.MapValue().Message() != nil:
			v.Map().Range(func(_ protoreflect.MapKey, mv protoreflect.Value) bool {
				found = found || hasUnknown(mv.Message(), depth+1)
				return !found
			})
		case fd.IsList() && fd.Message() != nil:
			for i := 0; i < v.List().Len() && !found; i++ {
				found = hasUnknown(v.List().Get(i).Message(), depth+1)
			}
		case fd.Message() != nil && !fd.IsMap() && !fd.IsList():
			found = hasUnknown(v.Message(), depth+1)
		}
		return !found
	})
	return found
}
