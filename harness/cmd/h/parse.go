package main

import (
	"bufio"
	"bytes"
	"encoding/json"
	"flag"
	"fmt"
	"os"
	"runtime"
	"runtime/debug"
	"strings"
	"sync"
	"sync/atomic"
	"time"

	pulsarrt "github.com/cosmos/cosmos-proto/runtime"
	"github.com/cosmos/cosmos-proto/zzverif/proj"
	"github.com/cosmos/cosmos-proto/zzverif/val"
	"google.golang.org/protobuf/encoding/protowire"
	"google.golang.org/protobuf/proto"
	"google.golang.org/protobuf/reflect/protoreflect"
	"google.golang.org/protobuf/types/dynamicpb"
)

func init() {
	extraCmds["parse-replay"] = cmdParseReplay
	extraCmds["faults"] = cmdFaults
	extraCmds["deep"] = cmdDeep
}

type parseVerdict struct {
	Kind  string `json:"kind"` // skip | unmarshal | post | alloc | accept | reject
	Type  string `json:"type,omitempty"`
	In    []int  `json:"in"`
	Note  string `json:"note"`
	Fault string `json:"fault,omitempty"`
}

// postOps exercises a message that Unmarshal accepted: none of these may panic.
func postOps(m proto.Message) (note string) {
	p := catch(func() {
		_ = proto.Size(m)
		b1, err := proto.MarshalOptions{Deterministic: true}.Marshal(m)
		if err != nil {
			note += "marshal(det): " + err.Error() + "; "
		}
		if _, err := proto.Marshal(m); err != nil {
			note += "marshal: " + err.Error() + "; "
		}
		if !proto.Equal(m, m) {
			note += "not equal to itself; "
		}
		c := proto.Clone(m)
		if !proto.Equal(m, c) {
			note += "not equal to its clone; "
		}
		_ = proj.Project(m.ProtoReflect(), proj.WrapNone)
		// compared against a DIFFERENT valid message: the same value with every unknown-field set
		// replaced by well-formed records of the same total length (so that the comparison goes
		// past the length and byte-equality shortcuts and has to parse the accepted unknown bytes)
		c2 := proto.Clone(m)
		if replaceUnknowns(c2.ProtoReflect(), 0) > 0 {
			_ = proto.Equal(m, c2)
			_ = proto.Equal(c2, m)
		}
		// (the clone's bytes are not compared: a signalling float32 NaN is quieted by the
		// float32->float64 conversion inside protoreflect.Value in every implementation)
		b2, err2 := (proto.MarshalOptions{Deterministic: true}).Marshal(c)
		if err2 != nil || len(b2) != len(b1) {
			note += "clone marshals to a different length; "
		}
	})
	if p != "" {
		note += "panic: " + p
	}
	return note
}

// validUnknown returns well-formed unknown records for md of exactly n >= 2 bytes.
func validUnknown(md protoreflect.MessageDescriptor, n int) []byte {
	num := protowire.Number(1)
	for md.Fields().ByNumber(num) != nil || md.ReservedRanges().Has(num) {
		num++
	}
	var out []byte
	for n > 0 {
		// one bytes record filling the rest if its length prefix works out, else a 2-3 byte varint record first
		tl := protowire.SizeTag(num)
		for k := n - tl - 1; k >= 0 && k >= n-tl-5; k-- {
			if tl+protowire.SizeBytes(k) == n {
				out = protowire.AppendTag(out, num, protowire.BytesType)
				out = protowire.AppendBytes(out, make([]byte, k))
				return out
			}
		}
		if n < tl+1 {
			return nil
		}
		out = protowire.AppendTag(out, num, protowire.VarintType)
		out = protowire.AppendVarint(out, 1)
		n -= tl + 1
	}
	return out
}

// replaceUnknowns rewrites every non-empty unknown set reachable from m (see postOps).
func replaceUnknowns(m protoreflect.Message, depth int) (n int) {
	if depth > 50 || !m.IsValid() {
		return 0
	}
	if u := m.GetUnknown(); len(u) >= 2 {
		if v := validUnknown(m.Descriptor(), len(u)); v != nil && string(v) != string(u) {
			m.SetUnknown(v)
			n++
		}
	}
	m.Range(func(fd protoreflect.FieldDescriptor, v protoreflect.Value) bool {
		switch {
		case fd.IsMap() && fd.MapValue().Message() != nil:
			v.Map().Range(func(_ protoreflect.MapKey, mv protoreflect.Value) bool {
				n += replaceUnknowns(mv.Message(), depth+1)
				return true
			})
		case fd.IsList() && fd.Message() != nil:
			for i := 0; i < v.List().Len(); i++ {
				n += replaceUnknowns(v.List().Get(i).Message(), depth+1)
			}
		case fd.Message() != nil && !fd.IsMap() && !fd.IsList():
			n += replaceUnknowns(v.Message(), depth+1)
		}
		return true
	})
	return n
}

// tryUnmarshal decodes b into a fresh pulsar message and its dynamicpb twin.
// Returned verdicts are violations of totality (panic, unusable accepted message) or, as kind
// "accept"/"reject"/"state", disagreements with the reference on acceptance.
// hangLimit bounds one Unmarshal call; a call that does not return is reported (kind "hang")
// and the process exits, since the stuck goroutine cannot be stopped.
const hangLimit = 20 * time.Second

var hangExit = func(v parseVerdict) {}

// bounded runs f under recover and a watchdog.
func bounded(f func()) (pn string, hung bool) {
	done := make(chan string, 1)
	go func() { done <- catch(f) }()
	select {
	case pn = <-done:
		return pn, false
	case <-time.After(hangLimit):
		return "", true
	}
}

func tryUnmarshal(mt protoreflect.MessageType, b []byte, fault string, emit func(parseVerdict)) (accepted bool) {
	md := mt.Descriptor()
	name := string(md.FullName())
	p := newPulsar(mt)
	var err error
	in := append([]byte(nil), b...)
	pn, hung := bounded(func() { err = proto.Unmarshal(in, p) })
	if hung {
		hangExit(parseVerdict{Kind: "hang", Type: name, In: proj.Bytes(b), Note: fmt.Sprintf("hang: proto.Unmarshal did not return within %v", hangLimit), Fault: fault})
	}
	if pn != "" {
		emit(parseVerdict{Kind: "unmarshal", Type: name, In: proj.Bytes(b), Note: "panic: " + pn, Fault: fault})
		return false
	}
	// the same bytes under the other decoding options (DiscardUnknown, Merge onto a decoded
	// message): totality is required of every way of calling Unmarshal
	for _, o := range []proto.UnmarshalOptions{{DiscardUnknown: true}, {Merge: true}, {Merge: true, DiscardUnknown: true}} {
		o := o
		q := newPulsar(mt)
		var oerr error
		pn, hung := bounded(func() {
			if o.Merge {
				_ = proto.Unmarshal(in, q) // first decode (result already judged above), then merge the same bytes again
			}
			oerr = o.Unmarshal(in, q)
		})
		label := fmt.Sprintf("options{DiscardUnknown:%v,Merge:%v}", o.DiscardUnknown, o.Merge)
		if hung {
			hangExit(parseVerdict{Kind: "hang", Type: name, In: proj.Bytes(b), Note: "hang: " + label + " did not return", Fault: fault})
		}
		if pn != "" {
			emit(parseVerdict{Kind: "unmarshal", Type: name, In: proj.Bytes(b), Note: "panic: " + label + ": " + pn, Fault: fault})
			return false
		}
		if oerr == nil && err == nil {
			if note := postOps(q); note != "" {
				emit(parseVerdict{Kind: "post", Type: name, In: proj.Bytes(b), Note: label + ": " + note, Fault: fault})
				return true
			}
		}
	}
	d := dynamicpb.NewMessage(md)
	var rerr error
	// the reference itself panics on some malformed inputs (e.g. a map key with a wrong wire
	// type in dynamicpb): that counts as "the reference does not accept"
	if pn := catch(func() { rerr = proto.Unmarshal(b, d) }); pn != "" {
		rerr = fmt.Errorf("reference panicked: %s", pn)
	}
	if err != nil {
		if rerr == nil && !strings.Contains(err.Error(), "wrong wireType") {
			// the reference accepts but pulsar rejects (other than the documented wire-type strictness)
			emit(parseVerdict{Kind: "reject", Type: name, In: proj.Bytes(b), Note: err.Error(), Fault: fault})
		}
		return false
	}
	if note := postOps(p); note != "" {
		emit(parseVerdict{Kind: "post", Type: name, In: proj.Bytes(b), Note: note, Fault: fault})
		return true
	}
	if rerr == nil {
		// both accept: the decoded values must agree (reference as oracle for well-typedness)
		var same bool
		if pn := catch(func() {
			same = jsonEq(proj.Normalize(proj.Project(proj.Impl(p), proj.WrapImpl), md), proj.Normalize(proj.Project(d.ProtoReflect(), proj.WrapNone), md))
		}); pn != "" {
			emit(parseVerdict{Kind: "post", Type: name, In: proj.Bytes(b), Note: "panic(project): " + pn, Fault: fault})
		} else if !same {
			emit(parseVerdict{Kind: "state", Type: name, In: proj.Bytes(b), Note: "accepted by both, values differ", Fault: fault})
		}
	}
	return true
}

func cmdParseReplay(args []string) {
	fs := flag.NewFlagSet("parse-replay", flag.ExitOnError)
	in := fs.String("in", "", "BUF lines exported by MC_Parse")
	types := fs.String("types", "", "comma separated message types to unmarshal each buffer into")
	out := fs.String("out", "", "verdicts")
	fs.Parse(args)
	var mts []protoreflect.MessageType
	for _, t := range strings.Split(*types, ",") {
		if t != "" {
			mts = append(mts, findType(t))
		}
	}
	f, err := os.Open(*in)
	if err != nil {
		die("%v", err)
	}
	defer f.Close()
	of, _ := os.Create(*out)
	defer of.Close()
	w := bufio.NewWriter(of)
	defer w.Flush()
	emit := func(v parseVerdict) {
		b, _ := json.Marshal(v)
		w.Write(b)
		w.WriteByte('\n')
	}
	sc := bufio.NewScanner(f)
	sc.Buffer(make([]byte, 1<<20), 1<<28)
	var n, wellFormedFirst, unmarshals, accepted, laxAccepts int
	hangExit = func(v parseVerdict) {
		emit(v)
		sb, _ := json.Marshal(map[string]any{"summary": true, "buffers": n, "wellformed_first": wellFormedFirst, "skip_accepts_malformed": laxAccepts,
			"unmarshals": unmarshals, "accepted": accepted, "aborted_after_hang": true})
		w.Write(sb)
		w.WriteByte('\n')
		w.Flush()
		os.Exit(0)
	}
	for sc.Scan() {
		line := sc.Text()
		if !strings.HasPrefix(line, "BUF ") {
			continue
		}
		var e struct {
			B    []int `json:"b"`
			Skip struct {
				Err string `json:"err"`
				N   int    `json:"n"`
			} `json:"skip"`
			First struct {
				Ok  bool   `json:"ok"`
				E   int    `json:"e"`
				Wt  int    `json:"wt"`
				Err string `json:"err"`
			} `json:"first"`
			Wf bool `json:"wf"`
		}
		if err := json.Unmarshal([]byte(line[4:]), &e); err != nil {
			die("buf: %v", err)
		}
		n++
		b := proj.ToBytes(e.B)
		// --- runtime.Skip against the Skip machine and protowire
		var sn int
		var serr error
		if pn := catch(func() { sn, serr = pulsarrt.Skip(append([]byte(nil), b...)) }); pn != "" {
			emit(parseVerdict{Kind: "skip", In: e.B, Note: "panic: " + pn})
		} else {
			if serr == nil && sn <= 0 {
				emit(parseVerdict{Kind: "skip", In: e.B, Note: fmt.Sprintf("no progress: n=%d without error", sn)})
			}
			if serr != nil && sn != 0 {
				emit(parseVerdict{Kind: "skip", In: e.B, Note: fmt.Sprintf("error with n=%d", sn)})
			}
			_, _, cn := protowire.ConsumeField(b)
			if e.First.Ok && e.First.Wt != 4 {
				wellFormedFirst++
				if cn != e.First.E {
					emit(parseVerdict{Kind: "skip", In: e.B, Note: fmt.Sprintf("INTERNAL spec/protowire disagree: model %d protowire %d", e.First.E, cn)})
				} else if serr != nil || sn != e.First.E {
					emit(parseVerdict{Kind: "skip", In: e.B, Note: fmt.Sprintf("well-formed first record of length %d: Skip returned n=%d err=%v", e.First.E, sn, serr)})
				}
			}
			// the model is exact on this alphabet: same error/no-error outcome and same n (group
			// nesting beyond the model's bound, class "depth", is outside the model); the reference
			// parser must agree with the model before the code is judged
			if e.Skip.Err != "depth" {
				if (e.Skip.Err == "") != (cn > 0) || (cn > 0 && cn != e.Skip.N) {
					emit(parseVerdict{Kind: "skip", In: e.B, Note: fmt.Sprintf("INTERNAL spec/protowire disagree: model err=%q n=%d, protowire %d", e.Skip.Err, e.Skip.N, cn)})
				} else if e.Skip.Err == "" && (serr != nil || sn != e.Skip.N) {
					emit(parseVerdict{Kind: "skip", In: e.B, Note: fmt.Sprintf("rejects-valid: model says n=%d, code returned n=%d err=%v", e.Skip.N, sn, serr)})
				} else if e.Skip.Err != "" && serr == nil {
					// C15 constrains Skip on well-formed input only; accepting malformed input is
					// judged by its consequences (C06: the accepted message must be usable)
					laxAccepts++
				}
			}
		}
		// --- Unmarshal totality
		for _, mt := range mts {
			unmarshals++
			if tryUnmarshal(mt, b, "", emit) {
				accepted++
			}
		}
	}
	sum := map[string]any{"summary": true, "buffers": n, "wellformed_first": wellFormedFirst, "skip_accepts_malformed": laxAccepts, "unmarshals": unmarshals, "accepted": accepted}
	sb, _ := json.Marshal(sum)
	w.Write(sb)
	w.WriteByte('\n')
}

// mutate applies the fault actions of the specification to a valid encoding.
func faultsOf(b []byte, emit func(name string, x []byte)) {
	for i := 0; i <= len(b); i++ {
		emit("truncate", b[:i])
	}
	for i := range b {
		for _, d := range []int{1, -1, 0x7f, 0x80} {
			x := append([]byte(nil), b...)
			x[i] = byte(int(x[i]) + d)
			emit("bump", x)
		}
		x := append([]byte(nil), b...)
		x[i] ^= 0x07 // flip wire type bits if this is a tag byte
		emit("flipwt", x)
		y := append(append([]byte(nil), b[:i]...), b[i+1:]...)
		emit("dropbyte", y)
	}
}

func cmdFaults(args []string) {
	fs := flag.NewFlagSet("faults", flag.ExitOnError)
	typ := fs.String("type", "", "type")
	n := fs.Int("n", 10, "valid encodings to mutate")
	seed := fs.Int64("seed", 1, "seed")
	out := fs.String("out", "", "verdicts")
	double := fs.Bool("double", false, "also apply pairs of faults (sampled)")
	fs.Parse(args)
	mt := findType(*typ)
	md := mt.Descriptor()
	of, _ := os.Create(*out)
	defer of.Close()
	w := bufio.NewWriter(of)
	defer w.Flush()
	emit := func(v parseVerdict) {
		b, _ := json.Marshal(v)
		w.Write(b)
		w.WriteByte('\n')
	}
	var cases, accepted, bombs int
	hangExit = func(v parseVerdict) {
		emit(v)
		sb, _ := json.Marshal(map[string]any{"summary": true, "cases": cases, "accepted": accepted, "bombs": bombs, "aborted_after_hang": true})
		w.Write(sb)
		w.WriteByte('\n')
		w.Flush()
		os.Exit(0)
	}
	g := val.New(*seed)
	g.Budget = 25
	for i := 0; i < *n; i++ {
		b := g.EncodeRandom(md, 0)
		if i%2 == 1 {
			b = g.Xform(md, b, 0)
		}
		if len(b) > 400 {
			b = b[:400]
		}
		faultsOf(b, func(name string, x []byte) {
			cases++
			if tryUnmarshal(mt, x, name, emit) {
				accepted++
			}
			if *double && g.R.Intn(20) == 0 {
				faultsOf(x, func(n2 string, y []byte) {
					if g.R.Intn(len(x)+1) == 0 {
						cases++
						if tryUnmarshal(mt, y, name+"+"+n2, emit) {
							accepted++
						}
					}
				})
			}
		})
	}
	// payload-length sweep: every field as a length-delimited record with every payload length
	// 0..17 of filler bytes (ragged packed runs, partial map entries, partial nested messages),
	// as the last record of the buffer and followed by another record
	for i := 0; i < md.Fields().Len(); i++ {
		fd := md.Fields().Get(i)
		for n := 0; n <= 17; n++ {
			for _, fill := range []byte{0x01, 0x0a, 0x80, 0xff} {
				x := protowire.AppendTag(nil, fd.Number(), protowire.BytesType)
				x = protowire.AppendBytes(x, bytes.Repeat([]byte{fill}, n))
				for _, tail := range [][]byte{nil, {0x08, 0x01}} {
					cases++
					if tryUnmarshal(mt, append(append([]byte(nil), x...), tail...), "payloadlen", emit) {
						accepted++
					}
				}
			}
		}
	}
	// negative lengths: a 10-byte length varint denoting -1..-24 (a cursor that moves backwards
	// re-reads the record's own tag), bare and inside a map entry / nested payload
	for i := 0; i < md.Fields().Len(); i++ {
		fd := md.Fields().Get(i)
		for neg := 1; neg <= 24; neg++ {
			x := protowire.AppendTag(nil, fd.Number(), protowire.BytesType)
			x = protowire.AppendVarint(x, uint64(int64(-neg)))
			inner := append(protowire.AppendTag(nil, 2, protowire.BytesType), protowire.AppendVarint(nil, uint64(int64(-neg)))...)
			y := protowire.AppendBytes(protowire.AppendTag(nil, fd.Number(), protowire.BytesType), inner)
			for _, in := range [][]byte{x, append(append([]byte(nil), x...), 1, 2, 3), y} {
				cases++
				if tryUnmarshal(mt, in, "neglen", emit) {
					accepted++
				}
			}
		}
	}
	// oneof switches inside one stream: member a then member b of the same oneof, every ordered pair
	for i := 0; i < md.Oneofs().Len(); i++ {
		od := md.Oneofs().Get(i)
		if od.IsSynthetic() {
			continue
		}
		enc := func(fd protoreflect.FieldDescriptor) []byte {
			d := dynamicpb.NewMessage(md)
			if fd.Message() != nil {
				sub := d.NewField(fd)
				if g.R.Intn(2) == 0 {
					g.Fill(sub.Message(), g.MaxDepth) // at the depth limit: scalars only
				}
				d.Set(fd, sub)
			} else {
				d.Set(fd, g.Scalar(fd))
			}
			b, _ := proto.Marshal(d)
			return b
		}
		for a := 0; a < od.Fields().Len(); a++ {
			for b := 0; b < od.Fields().Len(); b++ {
				in := append(enc(od.Fields().Get(a)), enc(od.Fields().Get(b))...)
				cases++
				if tryUnmarshal(mt, in, "oneofswitch", emit) {
					accepted++
				}
			}
		}
	}
	// allocation grows linearly with nesting: a chain of messages through a cycle of the schema
	// (one or two fields long), every level carrying an unknown record in front of the nested
	// payload; twice the depth may cost about twice the memory, not four times
	if path := cyclePath(md); path != nil {
		alloc := func(depth int) uint64 {
			x := nestedWithUnknown(md, path, depth)
			best := ^uint64(0)
			for rep := 0; rep < 3; rep++ {
				m := mt.New().Interface()
				var ms0, ms1 runtime.MemStats
				runtime.ReadMemStats(&ms0)
				bounded(func() { _ = proto.Unmarshal(x, m) })
				runtime.ReadMemStats(&ms1)
				if d := ms1.TotalAlloc - ms0.TotalAlloc; d < best {
					best = d
				}
			}
			return best
		}
		// increments between depths d, 2d, 4d: their ratio is 2 for linear growth and 4 for quadratic
		a1, a2, a4 := alloc(500), alloc(1000), alloc(2000)
		cases += 3
		if a2 > a1 && float64(a4-a2) > 2.7*float64(a2-a1)+float64(1<<18) {
			emit(parseVerdict{Kind: "alloc", Type: *typ, In: []int{}, Note: fmt.Sprintf("superlinear: %d / %d / %d bytes allocated for 500 / 1000 / 2000 nesting levels with unknown fields", a1, a2, a4), Fault: "nested-unknown"})
		}
		// the same chains with a MALFORMED innermost message (an unterminated varint): rejecting
		// costs no more than linear either (an error that is re-wrapped with the path so far at
		// every level on the way out is quadratic)
		allocBad := func(depth int) uint64 {
			x := nestedWithUnknown(md, path, depth)
			x[len(x)-1] = 0x80
			best := ^uint64(0)
			for rep := 0; rep < 3; rep++ {
				m := mt.New().Interface()
				var ms0, ms1 runtime.MemStats
				runtime.ReadMemStats(&ms0)
				bounded(func() { _ = proto.Unmarshal(x, m) })
				runtime.ReadMemStats(&ms1)
				if d := ms1.TotalAlloc - ms0.TotalAlloc; d < best {
					best = d
				}
			}
			return best
		}
		b1, b2, b4 := allocBad(500), allocBad(1000), allocBad(2000)
		cases += 3
		if b2 > b1 && float64(b4-b2) > 2.7*float64(b2-b1)+float64(1<<18) {
			emit(parseVerdict{Kind: "alloc", Type: *typ, In: []int{}, Note: fmt.Sprintf("superlinear: %d / %d / %d bytes allocated while REJECTING 500 / 1000 / 2000 nesting levels whose innermost message is malformed", b1, b2, b4), Fault: "nested-reject"})
		}
	}
	// time grows linearly with the input also when map entries lie about their content: an entry
	// that holds only a value record whose declared length runs PAST the entry, to the end of the
	// enclosing buffer. A decoder that takes the value from beyond the entry decodes the tail once
	// as the map value and again as fields of the parent; two such entries per level, with the
	// next level inside the field of the value type that leads back to the parent, double the
	// work per level (15 bytes each). The reference rejects the first entry at once.
	if mf, back := overrunPath(md); mf != nil {
		build := func(levels int) []byte {
			var prev []byte
			for i := 0; i < levels; i++ {
				tail := prev
				if back != nil {
					tail = protowire.AppendBytes(protowire.AppendTag(nil, back.Number(), protowire.BytesType), prev)
				}
				recB := protowire.AppendBytes(protowire.AppendTag(nil, mf.Number(), protowire.BytesType), protowire.AppendVarint([]byte{0x12}, uint64(len(tail))))
				recA := protowire.AppendBytes(protowire.AppendTag(nil, mf.Number(), protowire.BytesType), protowire.AppendVarint([]byte{0x12}, uint64(len(recB)+len(tail))))
				prev = append(append(append([]byte{}, recA...), recB...), tail...)
			}
			return prev
		}
		timeOf := func(levels int) (time.Duration, []byte) {
			x := build(levels)
			best := time.Duration(1 << 62)
			for rep := 0; rep < 3; rep++ {
				m := mt.New().Interface()
				s := time.Now()
				if _, hung := bounded(func() { _ = proto.Unmarshal(x, m) }); hung {
					hangExit(parseVerdict{Kind: "hang", Type: *typ, In: proj.Bytes(x), Note: fmt.Sprintf("hang: proto.Unmarshal did not return within %v", hangLimit), Fault: "entry-overrun"})
				}
				if d := time.Since(s); d < best {
					best = d
				}
			}
			return best, x
		}
		t8, _ := timeOf(8)
		t16, x16 := timeOf(16)
		cases += 2
		// linear: t16 is about twice t8; doubling per level: 256 times
		if t16 > 20*t8+50*time.Millisecond {
			t18, x18 := timeOf(18)
			cases++
			if t18 > 20*t8+50*time.Millisecond && t18 > 2*t16 {
				emit(parseVerdict{Kind: "time", Type: *typ, In: proj.Bytes(x16), Note: fmt.Sprintf("superlinear: %v / %v / %v for 8 / 16 / 18 levels (%d / %d bytes at 16 / 18) of map entries of field %s whose value runs past the entry", t8, t16, t18, len(x16), len(x18), mf.Name()), Fault: "entry-overrun"})
			}
		}
	}
	// ... and when a singular message field (or oneof message member) occurs TWICE at every level
	// of a chain through a cycle of the schema, first empty and then with the next level inside:
	// the second occurrence merges into the first, once -- work that is repeated per occurrence
	// doubles per level while the input grows by a few bytes
	for _, path := range cyclePaths(md, 6) {
		build := func(levels int) []byte {
			var prev []byte
			for i := levels - 1; i >= 0; i-- {
				fd := path[i%len(path)]
				x := protowire.AppendBytes(protowire.AppendTag(nil, fd.Number(), protowire.BytesType), nil)
				prev = protowire.AppendBytes(protowire.AppendTag(x, fd.Number(), protowire.BytesType), prev)
			}
			return prev
		}
		timeOf := func(levels int) (time.Duration, []byte) {
			x := build(levels)
			best := time.Duration(1 << 62)
			for rep := 0; rep < 3; rep++ {
				m := mt.New().Interface()
				s := time.Now()
				if _, hung := bounded(func() { _ = proto.Unmarshal(x, m) }); hung {
					hangExit(parseVerdict{Kind: "hang", Type: *typ, In: proj.Bytes(x), Note: fmt.Sprintf("hang: proto.Unmarshal did not return within %v", hangLimit), Fault: "repeated-member"})
				}
				if d := time.Since(s); d < best {
					best = d
				}
			}
			return best, x
		}
		// both lengths are a multiple of the cycle length, so both chains close on md's type
		k := len(path)
		t8, _ := timeOf(8 * k)
		t20, x20 := timeOf(20 * k)
		cases += 2
		if t20 > 20*t8+50*time.Millisecond {
			t22, x22 := timeOf(22 * k)
			cases++
			if t22 > 20*t8+50*time.Millisecond && t22 > 2*t20 {
				emit(parseVerdict{Kind: "time", Type: *typ, In: proj.Bytes(x20), Note: fmt.Sprintf("superlinear: %v / %v / %v for 8 / 20 / 22 rounds of the cycle (%d / %d bytes at 20 / 22) with field %s occurring twice per level", t8, t20, t22, len(x20), len(x22), path[0].Name()), Fault: "repeated-member"})
			}
		}
	}
	// allocation grows linearly with the NUMBER OF RECORDS of a repeated field: N separate
	// one-element records (one-element packed runs for packable kinds), N = 1000 / 2000 / 4000
	for i := 0; i < md.Fields().Len(); i++ {
		fd := md.Fields().Get(i)
		if !fd.IsList() {
			continue
		}
		var one []byte
		switch {
		case fd.Message() != nil:
			one = protowire.AppendBytes(protowire.AppendTag(nil, fd.Number(), protowire.BytesType), nil)
		case fd.Kind() == protoreflect.StringKind || fd.Kind() == protoreflect.BytesKind:
			one = protowire.AppendBytes(protowire.AppendTag(nil, fd.Number(), protowire.BytesType), []byte("x"))
		case elemWireTypeOf(fd.Kind()) == protowire.VarintType:
			one = protowire.AppendBytes(protowire.AppendTag(nil, fd.Number(), protowire.BytesType), []byte{1})
		case elemWireTypeOf(fd.Kind()) == protowire.Fixed32Type:
			one = protowire.AppendBytes(protowire.AppendTag(nil, fd.Number(), protowire.BytesType), []byte{1, 0, 0, 0})
		default:
			one = protowire.AppendBytes(protowire.AppendTag(nil, fd.Number(), protowire.BytesType), []byte{1, 0, 0, 0, 0, 0, 0, 0})
		}
		alloc := func(n int) uint64 {
			x := bytes.Repeat(one, n)
			best := ^uint64(0)
			for rep := 0; rep < 3; rep++ {
				m := mt.New().Interface()
				var ms0, ms1 runtime.MemStats
				runtime.ReadMemStats(&ms0)
				bounded(func() { _ = proto.Unmarshal(x, m) })
				runtime.ReadMemStats(&ms1)
				if d := ms1.TotalAlloc - ms0.TotalAlloc; d < best {
					best = d
				}
			}
			return best
		}
		a1, a2, a4 := alloc(1000), alloc(2000), alloc(4000)
		cases += 3
		if a2 > a1 && float64(a4-a2) > 2.7*float64(a2-a1)+float64(1<<18) {
			emit(parseVerdict{Kind: "alloc", Type: *typ, In: proj.Bytes(one), Note: fmt.Sprintf("superlinear: %d / %d / %d bytes allocated for 1000 / 2000 / 4000 one-element records of field %s", a1, a2, a4, fd.Name()), Fault: "repeated-records"})
		}
	}
	// length bombs: a length-delimited field claiming 2^k bytes with almost nothing behind it
	for i := 0; i < md.Fields().Len(); i++ {
		fd := md.Fields().Get(i)
		var wt protowire.Type = protowire.BytesType
		stop := map[int]bool{} // once a variant allocates out of proportion, do not escalate it further
		for k := uint(7); k < 64; k += 3 {
			for _, variant := range []int{0, 1} {
				if stop[variant] {
					continue
				}
				var x []byte
				x = protowire.AppendTag(x, fd.Number(), wt)
				x = protowire.AppendVarint(x, uint64(1)<<k)
				if variant == 1 && fd.IsMap() {
					// bomb inside a map entry value/key
					var e []byte
					e = protowire.AppendTag(e, 2, protowire.BytesType)
					e = protowire.AppendVarint(e, uint64(1)<<k)
					x = protowire.AppendTag(nil, fd.Number(), wt)
					x = protowire.AppendBytes(x, e)
				}
				x = append(x, 1, 2, 3)
				bombs++
				// bytes allocated by the generated Unmarshal alone (not by the reference decode or the
				// harness), smallest of up to three measurements: TotalAlloc is process-wide, so a
				// single reading can include allocations of the runtime's background work
				delta := ^uint64(0)
				for rep := 0; rep < 3 && delta > 1<<20; rep++ {
					m := mt.New().Interface()
					var ms0, ms1 runtime.MemStats
					runtime.ReadMemStats(&ms0)
					bounded(func() { _ = proto.Unmarshal(x, m) })
					runtime.ReadMemStats(&ms1)
					if d := ms1.TotalAlloc - ms0.TotalAlloc; d < delta {
						delta = d
					}
				}
				if delta > 1<<20 {
					emit(parseVerdict{Kind: "alloc", Type: *typ, In: proj.Bytes(x), Note: fmt.Sprintf("allocated %d bytes for a %d byte input", delta, len(x)), Fault: "lengthbomb"})
					stop[variant] = true
					continue
				}
				tryUnmarshal(mt, x, "lengthbomb", emit)
			}
		}
	}
	sum := map[string]any{"summary": true, "cases": cases, "accepted": accepted, "bombs": bombs}
	sb, _ := json.Marshal(sum)
	w.Write(sb)
	w.WriteByte('\n')
}

// recursivePath finds a chain of singular/repeated message fields leading from md back to md.
func recursiveField(md protoreflect.MessageDescriptor) protoreflect.FieldDescriptor {
	for i := 0; i < md.Fields().Len(); i++ {
		fd := md.Fields().Get(i)
		if fd.Message() != nil && !fd.IsMap() && fd.Message().FullName() == md.FullName() {
			return fd
		}
	}
	return nil
}

// nested builds an encoding of `depth` nested messages through the self-recursive field fd.
func nested(fd protoreflect.FieldDescriptor, depth int) []byte {
	// built inside-out into a buffer from the back
	size := 0
	sizes := make([]int, depth)
	for i := 0; i < depth; i++ {
		sizes[i] = size
		size += protowire.SizeTag(fd.Number()) + protowire.SizeVarint(uint64(size))
	}
	out := make([]byte, 0, size)
	for i := depth - 1; i >= 0; i-- {
		out = protowire.AppendTag(out, fd.Number(), protowire.BytesType)
		out = protowire.AppendVarint(out, uint64(sizes[i]))
	}
	return out
}

// cmdDeep: nesting depth behaviour, run as a child process so that a fatal stack overflow
// kills only this process. Prints one JSON line.
func cmdDeep(args []string) {
	fs := flag.NewFlagSet("deep", flag.ExitOnError)
	typ := fs.String("type", "", "self-recursive type")
	depth := fs.Int("depth", 10001, "nesting depth")
	maxStack := fs.Int("maxstack", 0, "debug.SetMaxStack bytes (0 = default)")
	via := fs.String("via", "", "shape of the recursion to follow: \"\" (a directly self-recursive field), map, list, oneof")
	fs.Parse(args)
	if *maxStack > 0 {
		debug.SetMaxStack(*maxStack)
	}
	mt := findType(*typ)
	var b []byte
	if *via == "" {
		fd := recursiveField(mt.Descriptor())
		if fd == nil {
			die("type %s is not directly self-recursive", *typ)
		}
		b = nested(fd, *depth)
	} else {
		path := shapePath(mt.Descriptor(), *via)
		if path == nil {
			die("type %s is not directly self-recursive through a %s field", *typ, *via)
		}
		b = nestedPath(path, *depth)
	}
	res := map[string]any{"type": *typ, "depth": *depth, "bytes": len(b)}
	d := dynamicpb.NewMessage(mt.Descriptor())
	var rerr error
	if pn := catch(func() { rerr = proto.Unmarshal(b, d) }); pn != "" {
		rerr = fmt.Errorf("reference panicked: %s", pn)
	}
	res["ref_ok"] = rerr == nil
	if rerr != nil {
		res["ref_err"] = rerr.Error()
	}
	p := newPulsar(mt)
	var err error
	pn := catch(func() { err = proto.Unmarshal(b, p) })
	res["ok"] = err == nil && pn == ""
	res["panic"] = pn
	if err != nil {
		res["err"] = err.Error()
	}
	if err == nil && pn == "" {
		if *depth <= 300 {
			res["post"] = postOps(p)
		} else {
			// marshalling re-sizes every level (quadratic in depth), so deep accepted messages
			// are only sized and compared
			res["post"] = catch(func() { _ = proto.Size(p); _ = proto.Equal(p, p) })
		}
	}
	ob, _ := json.Marshal(res)
	fmt.Println(string(ob))
}

// overrunPath finds a map field of md with a message value type V and a singular message field
// of V leading back to md whose number md itself does not use (nil: V is md itself), so that the
// same bytes can be decoded both as a V and as an md.
func overrunPath(md protoreflect.MessageDescriptor) (mapField, back protoreflect.FieldDescriptor) {
	for i := 0; i < md.Fields().Len(); i++ {
		fd := md.Fields().Get(i)
		if !fd.IsMap() || fd.MapValue().Message() == nil {
			continue
		}
		v := fd.MapValue().Message()
		if v.FullName() == md.FullName() {
			return fd, nil
		}
		for j := 0; j < v.Fields().Len(); j++ {
			g := v.Fields().Get(j)
			if g.Message() != nil && !g.IsMap() && !g.IsList() && g.Message().FullName() == md.FullName() && md.Fields().ByNumber(g.Number()) == nil {
				return fd, g
			}
		}
	}
	return nil, nil
}

// cyclePaths: like cyclePath, one path for each first step (singular message field or oneof
// message member of md) that leads back to md in one or two steps, at most n of them.
func cyclePaths(md protoreflect.MessageDescriptor, n int) [][]protoreflect.FieldDescriptor {
	single := func(m protoreflect.MessageDescriptor) []protoreflect.FieldDescriptor {
		var out []protoreflect.FieldDescriptor
		for i := 0; i < m.Fields().Len(); i++ {
			fd := m.Fields().Get(i)
			if fd.Message() != nil && !fd.IsMap() && !fd.IsList() && !strings.HasPrefix(string(fd.Message().FullName()), "google.protobuf.") {
				out = append(out, fd)
			}
		}
		return out
	}
	var out [][]protoreflect.FieldDescriptor
	for _, f1 := range single(md) {
		if len(out) >= n {
			break
		}
		if f1.Message().FullName() == md.FullName() {
			out = append(out, []protoreflect.FieldDescriptor{f1})
			continue
		}
		for _, f2 := range single(f1.Message()) {
			if f2.Message().FullName() == md.FullName() {
				out = append(out, []protoreflect.FieldDescriptor{f1, f2})
				break
			}
		}
	}
	return out
}

// cyclePath finds singular message fields leading from md back to md in one or two steps.
func cyclePath(md protoreflect.MessageDescriptor) []protoreflect.FieldDescriptor {
	single := func(m protoreflect.MessageDescriptor) []protoreflect.FieldDescriptor {
		var out []protoreflect.FieldDescriptor
		for i := 0; i < m.Fields().Len(); i++ {
			fd := m.Fields().Get(i)
			if fd.Message() != nil && !fd.IsMap() && !fd.IsList() && !strings.HasPrefix(string(fd.Message().FullName()), "google.protobuf.") {
				out = append(out, fd)
			}
		}
		return out
	}
	for _, f1 := range single(md) {
		if f1.Message().FullName() == md.FullName() {
			return []protoreflect.FieldDescriptor{f1}
		}
	}
	for _, f1 := range single(md) {
		for _, f2 := range single(f1.Message()) {
			if f2.Message().FullName() == md.FullName() {
				return []protoreflect.FieldDescriptor{f1, f2}
			}
		}
	}
	return nil
}

// nestedWithUnknown encodes `depth` levels of messages along the cycle, each level starting
// with an unknown varint record.
func nestedWithUnknown(md protoreflect.MessageDescriptor, path []protoreflect.FieldDescriptor, depth int) []byte {
	// the message type at level k (0 = outermost) and the field leading to level k+1
	typeAt := func(k int) protoreflect.MessageDescriptor {
		if k%len(path) == 0 {
			return md
		}
		return path[0].Message()
	}
	var payload []byte
	for k := depth - 1; k >= 0; k-- {
		t := typeAt(k)
		num := protowire.Number(1)
		for t.Fields().ByNumber(num) != nil || t.ReservedRanges().Has(num) {
			num++
		}
		var lvl []byte
		lvl = protowire.AppendTag(lvl, num, protowire.VarintType)
		lvl = protowire.AppendVarint(lvl, 7)
		if k < depth-1 {
			lvl = protowire.AppendTag(lvl, path[k%len(path)].Number(), protowire.BytesType)
			lvl = protowire.AppendBytes(lvl, payload)
		}
		payload = lvl
	}
	return payload
}

// shapePath finds fields leading from md back to md in one or two steps, one of which has the
// given shape: "map" (a message-valued map), "list" (a repeated message), "oneof" (a message member).
func shapePath(md protoreflect.MessageDescriptor, shape string) []protoreflect.FieldDescriptor {
	target := func(fd protoreflect.FieldDescriptor) protoreflect.MessageDescriptor {
		if fd.IsMap() {
			return fd.MapValue().Message()
		}
		return fd.Message()
	}
	has := func(fd protoreflect.FieldDescriptor) bool {
		switch shape {
		case "map":
			return fd.IsMap()
		case "list":
			return fd.IsList()
		case "oneof":
			return fd.ContainingOneof() != nil && !fd.ContainingOneof().IsSynthetic()
		}
		return false
	}
	msgFields := func(m protoreflect.MessageDescriptor) []protoreflect.FieldDescriptor {
		var out []protoreflect.FieldDescriptor
		for i := 0; i < m.Fields().Len(); i++ {
			fd := m.Fields().Get(i)
			if t := target(fd); t != nil && !strings.HasPrefix(string(t.FullName()), "google.protobuf.") {
				out = append(out, fd)
			}
		}
		return out
	}
	for _, f1 := range msgFields(md) {
		if target(f1).FullName() == md.FullName() && has(f1) {
			return []protoreflect.FieldDescriptor{f1}
		}
	}
	for _, f1 := range msgFields(md) {
		for _, f2 := range msgFields(target(f1)) {
			if target(f2).FullName() == md.FullName() && (has(f1) || has(f2)) {
				return []protoreflect.FieldDescriptor{f1, f2}
			}
		}
	}
	return nil
}

// nestedPath encodes `depth` message levels along the cycle (map fields as entries holding only
// the value), built inside-out.
func nestedPath(path []protoreflect.FieldDescriptor, depth int) []byte {
	// built from the inside out without copying the payload at every level (that is quadratic in
	// the depth): only the headers are kept, each knowing the size of everything behind it
	var headers [][]byte
	size := 0
	for k := depth - 2; k >= 0; k-- {
		fd := path[k%len(path)]
		var h []byte
		if fd.IsMap() {
			inner := protowire.AppendVarint(protowire.AppendTag(nil, 2, protowire.BytesType), uint64(size))
			h = protowire.AppendVarint(protowire.AppendTag(nil, fd.Number(), protowire.BytesType), uint64(len(inner)+size))
			h = append(h, inner...)
		} else {
			h = protowire.AppendVarint(protowire.AppendTag(nil, fd.Number(), protowire.BytesType), uint64(size))
		}
		headers = append(headers, h)
		size += len(h)
	}
	payload := make([]byte, 0, size)
	for i := len(headers) - 1; i >= 0; i-- {
		payload = append(payload, headers[i]...)
	}
	return payload
}

func elemWireTypeOf(k protoreflect.Kind) protowire.Type {
	switch k {
	case protoreflect.Fixed32Kind, protoreflect.Sfixed32Kind, protoreflect.FloatKind:
		return protowire.Fixed32Type
	case protoreflect.Fixed64Kind, protoreflect.Sfixed64Kind, protoreflect.DoubleKind:
		return protowire.Fixed64Type
	case protoreflect.StringKind, protoreflect.BytesKind, protoreflect.MessageKind, protoreflect.GroupKind:
		return protowire.BytesType
	}
	return protowire.VarintType
}

func init() { extraCmds["storm"] = cmdStorm }

// cmdStorm (run as a child process: a runtime "fatal error" cannot be recovered): several
// goroutines decode DIFFERENT inputs into DIFFERENT fresh messages of one type at the same time.
// The calls share nothing the caller handed them, so every one must return what a sequential
// decode returns (compared through the reference's deterministic bytes); anything the generated
// code keeps between calls has to cope with this.
func cmdStorm(args []string) {
	fs := flag.NewFlagSet("storm", flag.ExitOnError)
	typ := fs.String("type", "", "")
	n := fs.Int("n", 300, "inputs per goroutine")
	k := fs.Int("k", 8, "goroutines")
	seed := fs.Int64("seed", 1, "")
	fs.Parse(args)
	mt := findType(*typ)
	md := mt.Descriptor()
	type job struct{ in, want []byte }
	jobs := make([][]job, *k)
	for t := range jobs {
		g := val.New(*seed*100 + int64(t))
		for i := 0; i < *n; i++ {
			g.Cover(md, i, 16)
			d := g.Dynamic(md)
			b, err := proto.MarshalOptions{Deterministic: true}.Marshal(d)
			if err != nil {
				continue
			}
			x := b
			if i%2 == 1 {
				x = g.Xform(md, b, 0)
				chk := dynamicpb.NewMessage(md)
				if proto.Unmarshal(x, chk) != nil {
					x = b
				} else {
					b, _ = proto.MarshalOptions{Deterministic: true}.Marshal(chk)
				}
			}
			jobs[t] = append(jobs[t], job{x, b})
		}
	}
	var bad atomic.Int64
	var first atomic.Value
	start := make(chan struct{})
	var wg sync.WaitGroup
	for t := range jobs {
		wg.Add(1)
		go func(t int) {
			defer wg.Done()
			<-start
			for _, j := range jobs[t] {
				m := mt.New().Interface()
				if pn := catch(func() {
					if err := proto.Unmarshal(j.in, m); err != nil {
						panic("error: " + err.Error())
					}
					if got, _ := (proto.MarshalOptions{Deterministic: true}).Marshal(m); !bytes.Equal(got, j.want) {
						panic("decoded value differs from the sequential reference decode")
					}
				}); pn != "" {
					bad.Add(1)
					first.CompareAndSwap(nil, pn)
				}
			}
		}(t)
	}
	close(start)
	wg.Wait()
	note, _ := first.Load().(string)
	b, _ := json.Marshal(map[string]any{"storm": true, "type": *typ, "decodes": *k * *n, "bad": bad.Load(), "note": trunc(note, 200)})
	fmt.Println(string(b))
}
