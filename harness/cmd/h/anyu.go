package main

import (
	"bufio"
	"bytes"
	"encoding/json"
	"flag"
	"fmt"
	cosmos_proto "github.com/cosmos/cosmos-proto"
	"os"
	"strings"

	anyalias "github.com/cosmos/cosmos-proto/any"
	"github.com/cosmos/cosmos-proto/anyutil"
	"github.com/cosmos/cosmos-proto/zzverif/proj"
	"github.com/cosmos/cosmos-proto/zzverif/val"
	"google.golang.org/protobuf/proto"
	"google.golang.org/protobuf/reflect/protodesc"
	"google.golang.org/protobuf/reflect/protoreflect"
	"google.golang.org/protobuf/reflect/protoregistry"
	"google.golang.org/protobuf/types/descriptorpb"
	"google.golang.org/protobuf/types/dynamicpb"
	"google.golang.org/protobuf/types/known/anypb"
)

func init() { extraCmds["anyutil-replay"] = cmdAnyutilReplay }

func customFiles() (*protoregistry.Files, protoreflect.MessageDescriptor) {
	fdp := &descriptorpb.FileDescriptorProto{
		Name: proto.String("verif/dyn/only.proto"), Package: proto.String("verif.dyn"), Syntax: proto.String("proto3"),
		MessageType: []*descriptorpb.DescriptorProto{{Name: proto.String("OnlyFiles"), Field: []*descriptorpb.FieldDescriptorProto{
			{Name: proto.String("a"), Number: proto.Int32(1), Type: descriptorpb.FieldDescriptorProto_TYPE_INT64.Enum(), Label: descriptorpb.FieldDescriptorProto_LABEL_OPTIONAL.Enum(), JsonName: proto.String("a")},
			{Name: proto.String("b"), Number: proto.Int32(2), Type: descriptorpb.FieldDescriptorProto_TYPE_STRING.Enum(), Label: descriptorpb.FieldDescriptorProto_LABEL_REPEATED.Enum(), JsonName: proto.String("b")},
		}}},
	}
	fd, err := protodesc.NewFile(fdp, nil)
	if err != nil {
		die("custom file: %v", err)
	}
	fs := new(protoregistry.Files)
	if err := fs.RegisterFile(fd); err != nil {
		die("custom files: %v", err)
	}
	return fs, fd.Messages().Get(0)
}

func cmdAnyutilReplay(args []string) {
	fs := flag.NewFlagSet("anyutil-replay", flag.ExitOnError)
	in := fs.String("in", "", "CASE lines exported by AnyUtil.tla")
	out := fs.String("out", "", "verdicts")
	seed := fs.Int64("seed", 1, "")
	fs.Parse(args)
	f, err := os.Open(*in)
	if err != nil {
		die("%v", err)
	}
	defer f.Close()
	of, _ := os.Create(*out)
	defer of.Close()
	w := bufio.NewWriter(of)
	defer w.Flush()
	n, bad := 0, 0
	emit := func(kind, note string, c any) {
		bad++
		b, _ := json.Marshal(map[string]any{"kind": kind, "note": note, "case": c})
		w.Write(b)
		w.WriteByte('\n')
	}
	g := val.New(*seed)
	g.Budget = 30
	custom, onlyMD := customFiles()
	// message types known to both global registries
	var both []protoreflect.MessageType
	for _, name := range []string{"verif.s0.M", "A", "goproto.proto.test3.TestAllTypes", "verif.xa.Holder", "verif.mx.Sub", "B"} {
		if mt, err := protoregistry.GlobalTypes.FindMessageByName(protoreflect.FullName(name)); err == nil {
			both = append(both, mt)
		}
	}
	pick := func(cands ...string) string {
		for _, c := range cands {
			if _, err := protoregistry.GlobalFiles.FindDescriptorByName(protoreflect.FullName(c)); err == nil {
				return c
			}
		}
		return cands[0]
	}
	enumName := pick("verif.s0.Color", "Enumeration")
	svcName := pick("QueryService")
	fieldName := pick("verif.s0.M.i", "A.enum")
	sc := bufio.NewScanner(f)
	sc.Buffer(make([]byte, 1<<20), 1<<26)
	pathsSeen := map[string]int{}
	for sc.Scan() {
		line := sc.Text()
		if !strings.HasPrefix(line, "CASE ") {
			continue
		}
		var c struct{ Kind, Form, Value, Cfg, Want, Path string }
		if err := json.Unmarshal([]byte(line[5:]), &c); err != nil {
			die("case: %v", err)
		}
		n++
		pathsSeen[c.Path]++
		// the packed message (when the name is a message) and its encoding
		var name string
		var md protoreflect.MessageDescriptor
		switch c.Kind {
		case "msgBoth":
			md = both[n%len(both)].Descriptor()
			name = string(md.FullName())
		case "msgRequired":
			md = (&descriptorpb.UninterpretedOption_NamePart{}).ProtoReflect().Descriptor()
			name = string(md.FullName())
		case "msgFilesOnly":
			md, name = onlyMD, string(onlyMD.FullName())
		case "enum":
			name = enumName
		case "service":
			name = svcName
		case "field":
			name = fieldName
		default:
			name = "does.not.Exist"
		}
		var orig proto.Message
		var valueBytes []byte
		encOf := func(md protoreflect.MessageDescriptor) (proto.Message, []byte) {
			if md.FullName() == "google.protobuf.UninterpretedOption.NamePart" {
				m := &descriptorpb.UninterpretedOption_NamePart{NamePart: proto.String("part"), IsExtension: proto.Bool(true)}
				b, _ := proto.MarshalOptions{Deterministic: true}.Marshal(m)
				return m, b
			}
			d := g.Dynamic(md)
			b, err := proto.MarshalOptions{Deterministic: true}.Marshal(d)
			if err != nil {
				die("marshal: %v", err)
			}
			return d, b
		}
		baseMD := md
		if baseMD == nil {
			baseMD = both[0].Descriptor()
		}
		switch c.Value {
		case "valid":
			orig, valueBytes = encOf(baseMD)
		case "other":
			_, valueBytes = encOf(both[(n+1)%len(both)].Descriptor())
		case "truncated":
			_, b := encOf(baseMD)
			valueBytes = append(b, 0x0a, 0x05, 0x01) // a length-delimited record cut short
		case "garbage":
			valueBytes = []byte{0xff, 0xff, 0xff}
		case "empty":
			orig = dynamicpb.NewMessage(baseMD)
		}
		var url string
		switch c.Form {
		case "slash":
			url = "/" + name
		case "host":
			url = "type.googleapis.com/" + name
		case "bare":
			url = name
		case "empty":
			url = ""
		case "onlyslash":
			url = "/"
		case "trailing":
			url = "/" + name + "/"
		case "doubleslash":
			url = "//" + name
		}
		var files protodesc.Resolver
		var types protoregistry.MessageTypeResolver
		switch c.Cfg {
		case "emptyTypes":
			types = new(protoregistry.Types)
		case "customFiles":
			files = custom
		case "customBoth":
			files, types = custom, new(protoregistry.Types)
		}
		for _, impl := range []struct {
			name string
			f    func(*anypb.Any, protodesc.Resolver, protoregistry.MessageTypeResolver) (proto.Message, error)
		}{{"anyutil.Unpack", anyutil.Unpack}, {"any.Unpack", anyalias.Unpack}} {
			a := &anypb.Any{TypeUrl: url, Value: append([]byte(nil), valueBytes...)}
			shadow := proto.Clone(a)
			var got proto.Message
			var uerr error
			pn := catch(func() { got, uerr = impl.f(a, files, types) })
			outcome := "ok"
			if pn != "" {
				outcome = "panic"
			} else if uerr != nil {
				outcome = "err"
			}
			switch {
			case outcome == "panic":
				emit("panic:"+c.Kind, fmt.Sprintf("%s panicked: %s (url=%q)", impl.name, pn, url), c)
			case c.Want != "either" && outcome != c.Want:
				emit("outcome:"+c.Want+"->"+outcome, fmt.Sprintf("%s url=%q err=%v", impl.name, url, uerr), c)
			case outcome == "ok" && c.Want == "ok":
				if got == nil {
					emit("nilmsg", impl.name+" returned nil message without error", c)
				} else if string(got.ProtoReflect().Descriptor().FullName()) != name {
					emit("wrongtype", fmt.Sprintf("%s returned %s for %q", impl.name, got.ProtoReflect().Descriptor().FullName(), url), c)
				} else if orig != nil {
					gb, _ := proto.MarshalOptions{Deterministic: true}.Marshal(got)
					ob, _ := proto.MarshalOptions{Deterministic: true}.Marshal(orig)
					if !bytes.Equal(gb, ob) {
						emit("notequal", impl.name+" returned a message different from the packed one", c)
					}
				}
			}
			if !proto.Equal(a, shadow) {
				emit("mutated-any", impl.name+" modified its input Any", c)
			}
		}
	}
	// ---- Pack: for every registered message type of interest
	packs := 0
	for _, mdx := range allMessages() {
		mt, err := protoregistry.GlobalTypes.FindMessageByName(mdx.FullName())
		if err != nil {
			continue
		}
		checkPack := func(m proto.Message, refb []byte) {
			for _, pf := range []struct {
				name string
				f    func() (*anypb.Any, error)
			}{
				{"New", func() (*anypb.Any, error) { return anyutil.New(m) }},
				{"MarshalFrom", func() (*anypb.Any, error) {
					dst := new(anypb.Any)
					return dst, anyutil.MarshalFrom(dst, m, proto.MarshalOptions{Deterministic: true})
				}},
				// a destination that was used before: a stale URL, stale bytes and spare capacity;
				// packed twice -- the result is a function of the source and the options alone
				{"MarshalFrom", func() (*anypb.Any, error) {
					dst := &anypb.Any{TypeUrl: "/stale.Type", Value: append(make([]byte, 0, len(refb)+64), 0xff, 0xfe, 0xfd)}
					if err := anyutil.MarshalFrom(dst, m, proto.MarshalOptions{Deterministic: true}); err != nil {
						return dst, err
					}
					return dst, anyutil.MarshalFrom(dst, m, proto.MarshalOptions{Deterministic: true})
				}},
				// a destination that already names this very type, in the other URL forms a resolver
				// accepts (what anypb.New writes, a bare name, a host with a path): the result is
				// "/" + full name all the same
				{"MarshalFrom", func() (*anypb.Any, error) {
					var last *anypb.Any
					for _, u := range []string{"type.googleapis.com/", "", "//", "host.example/path/"} {
						last = &anypb.Any{TypeUrl: u + string(mdx.FullName()), Value: []byte{1}}
						if err := anyutil.MarshalFrom(last, m, proto.MarshalOptions{Deterministic: true}); err != nil || last.TypeUrl != "/"+string(mdx.FullName()) {
							return last, err
						}
					}
					return last, nil
				}},
				{"alias.New", func() (*anypb.Any, error) { return anyalias.New(m) }},
			} {
				var a *anypb.Any
				var perr error
				if pn := catch(func() { a, perr = pf.f() }); pn != "" {
					emit("pack:panic", pf.name+": "+pn, string(mdx.FullName()))
					continue
				}
				if perr != nil {
					emit("pack:error", pf.name+": "+perr.Error(), string(mdx.FullName()))
					continue
				}
				if a.TypeUrl != "/"+string(mdx.FullName()) {
					emit("pack:url", fmt.Sprintf("%s: type URL %q", pf.name, a.TypeUrl), string(mdx.FullName()))
				}
				if pf.name == "MarshalFrom" && !bytes.Equal(a.Value, refb) {
					emit("pack:value", "deterministic value differs from the reference encoding", string(mdx.FullName()))
				}
				// both unpack paths return the message and agree
				u1, e1 := anyutil.Unpack(a, nil, nil)
				u2, e2 := anyutil.Unpack(a, nil, new(protoregistry.Types))
				if e1 != nil || e2 != nil {
					emit("unpack-of-pack:error", fmt.Sprintf("%v / %v", e1, e2), string(mdx.FullName()))
					continue
				}
				if !proto.Equal(u1, m) {
					emit("unpack-of-pack:types-path", "type-registry path result differs from the packed message", string(mdx.FullName()))
				}
				b1, _ := proto.MarshalOptions{Deterministic: true}.Marshal(u1)
				b2, _ := proto.MarshalOptions{Deterministic: true}.Marshal(u2)
				if !bytes.Equal(b1, b2) || !bytes.Equal(b1, refb) {
					emit("unpack-of-pack:paths-disagree", "file-registry (dynamic) path differs from type-registry path", string(mdx.FullName()))
				} else if !proto.Equal(u2, m) {
					emit("unpack-of-pack:paths-disagree", "file-registry (dynamic) path result is not Equal to the packed message (same bytes)", string(mdx.FullName()))
				}
			}
		}
		for k := 0; k < 3; k++ {
			packs++
			d := g.Dynamic(mdx)
			m := mt.New().Interface()
			proj.Fill(proj.Impl(m), proj.Project(d.ProtoReflect(), proj.WrapNone), proj.WrapImpl)
			refb, _ := proto.MarshalOptions{Deterministic: true}.Marshal(d)
			checkPack(m, refb)
			// the same value as a dynamicpb message: ONE Go type for every message type, so
			// successive packs of different types go through whatever is keyed by the Go type
			if k == 0 {
				packs++
				checkPack(d, refb)
			}
		}
		// a value nested far deeper than any typical hand-picked limit, far below the default one
		if path := cyclePath(mdx); path != nil {
			packs++
			deep := nestedWithUnknown(mdx, path, 300)
			m := mt.New().Interface()
			d := dynamicpb.NewMessage(mdx)
			if proto.Unmarshal(deep, m) == nil && proto.Unmarshal(deep, d) == nil {
				refb, _ := proto.MarshalOptions{Deterministic: true}.Marshal(d)
				checkPack(m, refb)
			}
		}
	}
	// messages of protobuf-go's own types: an Any that is itself packed, a message carrying an extension
	{
		inner, _ := anyutil.New(&descriptorpb.FileDescriptorSet{File: []*descriptorpb.FileDescriptorProto{{Name: proto.String("x.proto")}}})
		withExt := &descriptorpb.FieldOptions{Deprecated: proto.Bool(true)}
		proto.SetExtension(withExt, cosmos_proto.E_Scalar, "cosmos.AddressString")
		for _, m := range []proto.Message{inner, withExt, &descriptorpb.UninterpretedOption_NamePart{NamePart: proto.String("p"), IsExtension: proto.Bool(false)}} {
			if m == nil {
				continue
			}
			packs++
			name := string(m.ProtoReflect().Descriptor().FullName())
			refb, _ := proto.MarshalOptions{Deterministic: true}.Marshal(m)
			if pn := catch(func() {
				a, err := anyutil.New(m)
				if err != nil || a.TypeUrl != "/"+name {
					emit("pack:url", fmt.Sprintf("New(%s): url %q err %v", name, a.GetTypeUrl(), err), name)
					return
				}
				dst := new(anypb.Any)
				if err := anyutil.MarshalFrom(dst, m, proto.MarshalOptions{Deterministic: true}); err != nil || !bytes.Equal(dst.Value, refb) || dst.TypeUrl != "/"+name {
					emit("pack:value", fmt.Sprintf("MarshalFrom(%s): url %q, value differs from the message's encoding: %v (err %v)", name, dst.TypeUrl, !bytes.Equal(dst.Value, refb), err), name)
				}
				u1, e1 := anyutil.Unpack(a, nil, nil)
				u2, e2 := anyutil.Unpack(a, nil, new(protoregistry.Types))
				if e1 != nil || e2 != nil {
					emit("unpack-of-pack:error", fmt.Sprintf("%v / %v", e1, e2), name)
					return
				}
				if !proto.Equal(u1, m) {
					emit("unpack-of-pack:types-path", "type-registry path result differs from the packed message", name)
				}
				if !proto.Equal(u2, m) {
					emit("unpack-of-pack:paths-disagree", "file-registry (dynamic) path result is not Equal to the packed message", name)
				}
			}); pn != "" {
				emit("pack:panic", pn, name)
			}
		}
	}
	// failed pack leaves the destination untouched
	for _, bad := range []struct {
		name string
		src  proto.Message
	}{{"nil", nil}, {"invalid-utf8", func() proto.Message {
		d := dynamicpb.NewMessage(onlyMD)
		d.Mutable(onlyMD.Fields().ByName("b")).List().Append(protoreflect.ValueOfString("\xff\xfe"))
		return d
	}()}} {
		dst := &anypb.Any{TypeUrl: "/keep.Me", Value: []byte{1, 2, 3}}
		var perr error
		pn := catch(func() { perr = anyutil.MarshalFrom(dst, bad.src, proto.MarshalOptions{}) })
		if pn != "" {
			emit("pack:panic", "MarshalFrom("+bad.name+"): "+pn, bad.name)
		} else if perr == nil {
			emit("pack:noerror", "MarshalFrom("+bad.name+") succeeded", bad.name)
		} else if dst.TypeUrl != "/keep.Me" || !bytes.Equal(dst.Value, []byte{1, 2, 3}) {
			emit("pack:dst-modified", "failed MarshalFrom("+bad.name+") modified dst", bad.name)
		}
	}
	b, _ := json.Marshal(map[string]any{"summary": true, "cases": n, "packs": packs, "bad": bad, "paths": pathsSeen})
	w.Write(b)
	w.WriteByte('\n')
}
