package main

import (
	"bufio"
	"encoding/json"
	"flag"
	"os"

	"github.com/cosmos/cosmos-proto/zzverif/proj"
	"github.com/cosmos/cosmos-proto/zzverif/val"
	"google.golang.org/protobuf/reflect/protoreflect"
	"google.golang.org/protobuf/types/dynamicpb"
)

func init() { extraCmds["reflect-record"] = cmdReflectRecord }

func jints(a any) []int {
	switch t := a.(type) {
	case []int:
		return t
	}
	return []int{}
}

// randomPath picks a path to a message reachable through populated fields of m.
func randomPath(g *val.Gen, m protoreflect.Message, depth int) ([]RStep, protoreflect.Message) {
	var path []RStep
	for depth > 0 && g.R.Intn(3) > 0 {
		type cand struct {
			step RStep
			m    protoreflect.Message
		}
		var cs []cand
		m.Range(func(fd protoreflect.FieldDescriptor, v protoreflect.Value) bool {
			switch {
			case fd.IsMap() && fd.MapValue().Message() != nil:
				v.Map().Range(func(k protoreflect.MapKey, mv protoreflect.Value) bool {
					cs = append(cs, cand{RStep{F: int(fd.Number()), T: "k", K: jints(proj.ScalarJSON(fd.MapKey().Kind(), k.Value()))}, mv.Message()})
					return len(cs) < 6
				})
			case fd.IsList() && fd.Message() != nil:
				if n := v.List().Len(); n > 0 {
					i := g.R.Intn(n)
					cs = append(cs, cand{RStep{F: int(fd.Number()), T: "i", I: i, K: []int{}}, v.List().Get(i).Message()})
				}
			case fd.Message() != nil && !fd.IsMap() && !fd.IsList():
				cs = append(cs, cand{RStep{F: int(fd.Number()), T: "f", K: []int{}}, v.Message()})
			}
			return true
		})
		if len(cs) == 0 {
			break
		}
		c := cs[g.R.Intn(len(cs))]
		path = append(path, c.step)
		m = c.m
		depth--
	}
	if path == nil {
		path = []RStep{}
	}
	return path, m
}

// randomOp draws one operation applicable to message m (at path p), following the handle
// discipline of spec/Reflect.tla (no stale views: views are obtained inside the operation).
func randomOp(g *val.Gen, p []RStep, m protoreflect.Message) ROp {
	md := m.Descriptor()
	op := ROp{P: p, K: []int{}, X: []int{}, U: []int{}, Via: "mutable"}
	if md.Fields().Len() == 0 || g.R.Intn(14) == 0 {
		switch g.R.Intn(4) {
		case 0:
			op.Op = "Range"
		case 1:
			op.Op = "GetUnknown"
		case 2:
			op.Op = "SetUnknown"
			if g.R.Intn(3) > 0 {
				op.U = proj.Bytes(g.UnknownRecord(md, 0))
			}
		default:
			if md.Oneofs().Len() > 0 {
				op.Op, op.OO = "Which", 1+g.R.Intn(md.Oneofs().Len())
			} else {
				op.Op = "Range"
			}
		}
		return op
	}
	fd := md.Fields().Get(g.R.Intn(md.Fields().Len()))
	op.F = int(fd.Number())
	scalar := func(f protoreflect.FieldDescriptor) []int { return jints(proj.ScalarJSON(f.Kind(), g.Scalar(f))) }
	if g.R.Intn(4) == 0 {
		op.Via = "get"
	}
	switch {
	case fd.IsMap():
		var key []int
		// prefer an existing key half of the time
		if mp := m.Get(fd).Map(); mp.Len() > 0 && g.R.Intn(2) == 0 {
			mp.Range(func(k protoreflect.MapKey, _ protoreflect.Value) bool {
				key = jints(proj.ScalarJSON(fd.MapKey().Kind(), k.Value()))
				return g.R.Intn(2) == 0
			})
		} else {
			key = scalar(fd.MapKey())
		}
		op.K = key
		msgVal := fd.MapValue().Message() != nil
		choices := []string{"MLen", "MHas", "MGet", "MClear", "MRange", "MIsValid", "MNewValue", "Has", "Get", "Clear", "Mutable", "Getter"}
		if msgVal {
			choices = append(choices, "MMutable", "MMutable", "MSetNew", "MRetained", "ViewClear", "SetInvalid", "MSetFill")
		} else {
			choices = append(choices, "MSet", "MSet", "MSet", "MRetained", "ViewClear", "SetInvalid", "MSetFill")
		}
		op.Op = choices[g.R.Intn(len(choices))]
		if op.Op == "MSet" || ((op.Op == "MRetained" || op.Op == "MSetFill") && !msgVal) {
			op.X = scalar(fd.MapValue())
		}
		if op.Op == "MRetained" || op.Op == "ViewClear" || op.Op == "SetInvalid" || op.Op == "MSetFill" {
			op.Via = "mutable"
		}
		if op.Op == "MClear" && op.Via == "get" {
			op.Via = "mutable"
		}
	case fd.IsList():
		n := m.Get(fd).List().Len()
		choices := []string{"LLen", "LGet", "LTruncate", "LIsValid", "LNewElement", "Has", "Get", "Clear", "Mutable", "Getter", "SetNew"}
		if fd.Message() != nil {
			choices = append(choices, "LAppendMutable", "LAppendMutable", "LAppendNew", "LRetained", "ViewClear", "SetInvalid", "LElemKept")
		} else {
			choices = append(choices, "LAppend", "LAppend", "LAppend", "LSet", "LRetained", "ViewClear", "SetInvalid")
		}
		op.Op = choices[g.R.Intn(len(choices))]
		switch op.Op {
		case "LGet", "LSet":
			op.I = g.R.Intn(n + 1) // n is out of range on purpose sometimes
			if op.Op == "LSet" {
				op.X = scalar(fd)
			}
		case "LTruncate":
			op.I = g.R.Intn(n + 1)
			if op.Via == "get" && n == 0 {
				op.Via = "mutable"
			}
		case "LAppend":
			op.X = scalar(fd)
		case "LRetained":
			op.Via = "mutable"
			if fd.Message() == nil {
				op.X = scalar(fd)
			}
		case "ViewClear", "SetInvalid":
			op.Via = "mutable"
		case "LElemKept":
			op.Via = "mutable"
			op.U = []int{0xf8, 0xff, 0x7f, 0x2a}
		}
	case fd.Message() != nil:
		op.Op = []string{"Has", "Get", "Mutable", "Mutable", "SetNew", "Clear", "NewField", "Getter", "SetInvalid"}[g.R.Intn(9)]
	default:
		op.Op = []string{"Has", "Get", "Set", "Set", "Set", "Clear", "NewField", "Getter", "Mutable"}[g.R.Intn(9)]
		if op.Op == "Set" {
			op.X = scalar(fd)
		}
	}
	if op.Op == "Getter" || op.Op == "Has" || op.Op == "Get" || op.Op == "Clear" || op.Op == "NewField" || op.Op == "SetNew" || op.Op == "Mutable" || op.Op == "Set" || op.Op == "SetInvalid" {
		op.Via = "mutable"
	}
	return op
}

func cmdReflectRecord(args []string) {
	fs := flag.NewFlagSet("reflect-record", flag.ExitOnError)
	typ := fs.String("type", "", "")
	n := fs.Int("n", 10, "histories")
	length := fs.Int("len", 60, "operations per history")
	seed := fs.Int64("seed", 1, "")
	out := fs.String("out", "", "events")
	fs.Parse(args)
	mt := findType(*typ)
	md := mt.Descriptor()
	of, _ := os.Create(*out)
	defer of.Close()
	w := bufio.NewWriterSize(of, 1<<20)
	defer w.Flush()
	g := val.New(*seed)
	g.LongLists = 0
	g.ZeroBias = 20
	for h := 0; h < *n; h++ {
		p := newPulsar(mt)
		d := dynamicpb.NewMessage(md)
		ev := map[string]any{"ev": "new", "t": *typ, "case": h}
		b, _ := json.Marshal(ev)
		w.Write(b)
		w.WriteByte('\n')
		for i := 0; i < *length; i++ {
			path, at := randomPath(g, d.ProtoReflect(), 2)
			op := randomOp(g, path, at)
			if i > 0 && g.R.Intn(80) == 0 {
				op = ROp{Op: "Reset", P: []RStep{}, K: []int{}, X: []int{}, U: []int{}, Via: "mutable"}
			}
			rp := applyOp(p.ProtoReflect(), op, true)
			rd := applyOp(d.ProtoReflect(), op, false)
			e := map[string]any{"ev": "op", "case": h, "op": op, "ret": retJSON(rp), "ref_ret": retJSON(rd)}
			var st proj.J
			if pn := catch(func() { st = proj.Project(proj.Impl(p), proj.WrapImpl) }); pn != "" {
				e["panic"] = pn
				st = proj.J{"f": proj.J{}, "u": []int{}}
			}
			e["st"] = st
			e["ref_st"] = proj.Project(d.ProtoReflect(), proj.WrapNone)
			fastEq := false
			catch(func() { fastEq = jsonEq(proj.Project(p.ProtoReflect(), proj.WrapNone), st) })
			e["fast_eq"] = fastEq
			b, err := json.Marshal(e)
			if err != nil {
				die("event: %v", err)
			}
			w.Write(b)
			w.WriteByte('\n')
		}
	}
}

// retJSON renders a result for the trace; map key lists are sorted by their JSON text (the trace
// spec compares them as sets anyway) and nil lists become empty.
func retJSON(r RRet) map[string]any {
	v := r.V
	switch r.Kind {
	case "keys":
		ks, _ := v.([][]int)
		if ks == nil {
			ks = [][]int{}
		}
		v = ks
	case "nums":
		ns, _ := v.([]int)
		if ns == nil {
			ns = []int{}
		}
		v = ns
	case "bytes", "scalar":
		if a, ok := v.([]int); ok && a == nil {
			v = []int{}
		}
	}
	return map[string]any{"kind": r.Kind, "v": v}
}
