package main

import (
	"bufio"
	"encoding/json"
	"flag"
	"fmt"
	"os"
	"reflect"
	"sort"
	"strings"

	"github.com/cosmos/cosmos-proto/zzverif/proj"
	"google.golang.org/protobuf/proto"
	"google.golang.org/protobuf/reflect/protoreflect"
	"google.golang.org/protobuf/types/dynamicpb"
)

func init() {
	extraCmds["reflect-replay"] = cmdReflectReplay
}

// ROp mirrors the operation records of spec/Reflect.tla (all keys always present).
type ROp struct {
	Op  string  `json:"op"`
	P   []RStep `json:"p"`
	F   int     `json:"f"`
	OO  int     `json:"oo"`
	I   int     `json:"i"`
	K   []int   `json:"k"`
	X   []int   `json:"x"`
	U   []int   `json:"u"`
	Via string  `json:"via"`
}
type RStep struct {
	F int    `json:"f"`
	T string `json:"t"`
	I int    `json:"i"`
	K []int  `json:"k"`
}

type RRet struct {
	Kind string `json:"kind"`
	V    any    `json:"v"`
}

func rOK() RRet          { return RRet{"ok", 0} }
func rPanic() RRet       { return RRet{"panic", 0} }
func rBool(b bool) RRet  { return RRet{"bool", b} }
func rInt(n int) RRet    { return RRet{"int", n} }
func rScalar(x any) RRet { return RRet{"scalar", x} }
func rView(valid bool, n int) RRet {
	return RRet{"view", map[string]any{"valid": valid, "len": n}}
}

// navigate follows the path through populated message fields, list elements and map values.
func navigate(m protoreflect.Message, p []RStep) (protoreflect.Message, bool) {
	for _, s := range p {
		fd := m.Descriptor().Fields().ByNumber(protoreflect.FieldNumber(s.F))
		if fd == nil || !m.Has(fd) {
			return nil, false
		}
		switch s.T {
		case "f":
			if fd.Message() == nil || fd.IsList() || fd.IsMap() {
				return nil, false
			}
			m = m.Get(fd).Message()
		case "i":
			if !fd.IsList() || fd.Message() == nil {
				return nil, false
			}
			l := m.Get(fd).List()
			if s.I < 0 || s.I >= l.Len() {
				return nil, false
			}
			m = l.Get(s.I).Message()
		case "k":
			if !fd.IsMap() || fd.MapValue().Message() == nil {
				return nil, false
			}
			mp := m.Get(fd).Map()
			k := proj.ScalarValue(fd.MapKey().Kind(), s.K).MapKey()
			if !mp.Has(k) {
				return nil, false
			}
			m = mp.Get(k).Message()
		}
	}
	return m, true
}

// msgSize is the size a message view shows in the model (Reflect!MsgSize): populated fields plus
// unknown bytes; 0 for an invalid message.
func msgSize(m protoreflect.Message) int {
	if m == nil || !m.IsValid() {
		return 0
	}
	n := len(m.GetUnknown())
	m.Range(func(protoreflect.FieldDescriptor, protoreflect.Value) bool { n++; return true })
	return n
}

func msgView(m protoreflect.Message) RRet { return rView(m.IsValid(), msgSize(m)) }

func valueRet(fd protoreflect.FieldDescriptor, v protoreflect.Value) RRet {
	switch {
	case fd.IsList():
		return rView(v.List().IsValid(), v.List().Len())
	case fd.IsMap():
		return rView(v.Map().IsValid(), v.Map().Len())
	case fd.Message() != nil:
		return msgView(v.Message())
	}
	return rScalar(proj.ScalarJSON(fd.Kind(), v))
}

func elemRet(fd protoreflect.FieldDescriptor, v protoreflect.Value) RRet {
	if fd.Message() != nil {
		return msgView(v.Message())
	}
	return rScalar(proj.ScalarJSON(fd.Kind(), v))
}

// goName mirrors protoc-gen-go's GoCamelCase.
func goCamelCase(s string) string {
	var b []byte
	for i := 0; i < len(s); i++ {
		c := s[i]
		switch {
		case c == '.' && i+1 < len(s) && isASCIILower(s[i+1]):
		case c == '.':
			b = append(b, '_')
		case c == '_' && (i == 0 || s[i-1] == '.'):
			b = append(b, 'X')
		case c == '_' && i+1 < len(s) && isASCIILower(s[i+1]):
		case isASCIIDigit(c):
			b = append(b, c)
		default:
			if isASCIILower(c) {
				c -= 'a' - 'A'
			}
			b = append(b, c)
			for ; i+1 < len(s) && isASCIILower(s[i+1]); i++ {
				b = append(b, s[i+1])
			}
		}
	}
	return string(b)
}
func isASCIILower(c byte) bool { return 'a' <= c && c <= 'z' }
func isASCIIDigit(c byte) bool { return '0' <= c && c <= '9' }

// getter calls the generated Go getter for fd on the concrete message (nil receivers included).
func getter(m protoreflect.Message, fd protoreflect.FieldDescriptor) (RRet, bool) {
	pm := m.Interface()
	rv := reflect.ValueOf(pm)
	base := goCamelCase(string(fd.Name()))
	var meth reflect.Value
	for _, cand := range []string{"Get" + base, "Get" + base + "_"} {
		if mm := rv.MethodByName(cand); mm.IsValid() {
			meth = mm
			break
		}
	}
	if !meth.IsValid() {
		return RRet{}, false
	}
	out := meth.Call(nil)[0]
	switch {
	case fd.IsList():
		return rView(out.Len() > 0, out.Len()), true
	case fd.IsMap():
		return rView(out.Len() > 0, out.Len()), true
	case fd.Message() != nil:
		if out.IsNil() {
			return rView(false, 0), true
		}
		return msgView(out.Interface().(proto.Message).ProtoReflect()), true
	}
	var v protoreflect.Value
	switch fd.Kind() {
	case protoreflect.BoolKind:
		v = protoreflect.ValueOfBool(out.Bool())
	case protoreflect.EnumKind:
		v = protoreflect.ValueOfEnum(protoreflect.EnumNumber(out.Int()))
	case protoreflect.Int32Kind, protoreflect.Sint32Kind, protoreflect.Sfixed32Kind:
		v = protoreflect.ValueOfInt32(int32(out.Int()))
	case protoreflect.Int64Kind, protoreflect.Sint64Kind, protoreflect.Sfixed64Kind:
		v = protoreflect.ValueOfInt64(out.Int())
	case protoreflect.Uint32Kind, protoreflect.Fixed32Kind:
		v = protoreflect.ValueOfUint32(uint32(out.Uint()))
	case protoreflect.Uint64Kind, protoreflect.Fixed64Kind:
		v = protoreflect.ValueOfUint64(out.Uint())
	case protoreflect.FloatKind:
		v = protoreflect.ValueOfFloat32(float32(out.Float()))
	case protoreflect.DoubleKind:
		v = protoreflect.ValueOfFloat64(out.Float())
	case protoreflect.StringKind:
		v = protoreflect.ValueOfString(out.String())
	case protoreflect.BytesKind:
		v = protoreflect.ValueOfBytes(out.Bytes())
	}
	return rScalar(proj.ScalarJSON(fd.Kind(), v)), true
}

// applyOp executes one operation on the message reachable from root; panics are reported as
// the "panic" result. hasGetters says whether Go getters exist (pulsar) or not (dynamicpb).
func applyOp(root protoreflect.Message, op ROp, hasGetters bool) (ret RRet) {
	defer func() {
		if r := recover(); r != nil {
			ret = rPanic()
		}
	}()
	if op.Op == "Reset" {
		proto.Reset(root.Interface())
		return rOK()
	}
	m, ok := navigate(root, op.P)
	if !ok {
		return RRet{"nopath", 0}
	}
	md := m.Descriptor()
	var fd protoreflect.FieldDescriptor
	if op.F != 0 {
		fd = md.Fields().ByNumber(protoreflect.FieldNumber(op.F))
		if fd == nil {
			return RRet{"nofield", 0}
		}
	}
	list := func() protoreflect.List {
		if op.Via == "get" {
			return m.Get(fd).List()
		}
		return m.Mutable(fd).List()
	}
	mp := func() protoreflect.Map {
		if op.Via == "get" {
			return m.Get(fd).Map()
		}
		return m.Mutable(fd).Map()
	}
	switch op.Op {
	case "Has":
		return rBool(m.Has(fd))
	case "Get":
		return valueRet(fd, m.Get(fd))
	case "Getter":
		if !hasGetters {
			return valueRet(fd, m.Get(fd))
		}
		r, ok := getter(m, fd)
		if !ok {
			return RRet{"nogetter", string(fd.Name())}
		}
		return r
	case "Set":
		m.Set(fd, proj.ScalarValue(fd.Kind(), op.X))
		return rOK()
	case "SetNew":
		m.Set(fd, m.NewField(fd))
		return rOK()
	case "Clear":
		m.Clear(fd)
		return rOK()
	case "Mutable":
		return valueRet(fd, m.Mutable(fd))
	case "NewField":
		return valueRet(fd, m.NewField(fd))
	case "Which":
		od := md.Oneofs().Get(op.OO - 1)
		w := m.WhichOneof(od)
		if w == nil {
			return rInt(0)
		}
		return rInt(int(w.Number()))
	case "Range":
		nums := []int{}
		seen := map[int]int{}
		m.Range(func(f protoreflect.FieldDescriptor, _ protoreflect.Value) bool {
			nums = append(nums, int(f.Number()))
			seen[int(f.Number())]++
			return true
		})
		sort.Ints(nums) // duplicates (a field visited twice) stay visible in the list
		return RRet{"nums", nums}
	case "RangeFirst":
		calls := 0
		m.Range(func(protoreflect.FieldDescriptor, protoreflect.Value) bool { calls++; return false })
		return rInt(calls)
	case "MRangeFirst":
		calls := 0
		mp().Range(func(protoreflect.MapKey, protoreflect.Value) bool { calls++; return false })
		return rInt(calls)
	case "SetUnknownHold":
		held := m.GetUnknown()
		m.SetUnknown(proj.ToBytes(op.U))
		return RRet{"bytes", proj.Bytes(held)}
	case "UnknownHandover":
		other := m.Type().New()
		other.SetUnknown(m.GetUnknown())
		m.SetUnknown(nil)
		m.SetUnknown(append(m.GetUnknown(), proj.ToBytes(op.U)...))
		return RRet{"bytes", proj.Bytes(other.GetUnknown())}
	case "GetUnknown":
		return RRet{"bytes", proj.Bytes(m.GetUnknown())}
	case "SetUnknown":
		m.SetUnknown(proj.ToBytes(op.U))
		return rOK()
	case "IsValid":
		return rBool(m.IsValid())
	case "LLen":
		return rInt(list().Len())
	case "LIsValid":
		return rBool(list().IsValid())
	case "LGet":
		return elemRet(fd, list().Get(op.I))
	case "LSet":
		list().Set(op.I, proj.ScalarValue(fd.Kind(), op.X))
		return rOK()
	case "LAppend":
		list().Append(proj.ScalarValue(fd.Kind(), op.X))
		return rOK()
	case "LAppendNew":
		l := list()
		l.Append(l.NewElement())
		return rOK()
	case "LAppendMutable":
		v := list().AppendMutable()
		return msgView(v.Message())
	case "LTruncate":
		list().Truncate(op.I)
		return rOK()
	case "LNewElement":
		return elemRet(fd, m.NewField(fd).List().NewElement())
	case "LRetained":
		// one view kept across three calls
		l := m.Mutable(fd).List()
		n := l.Len()
		if fd.Message() != nil {
			l.AppendMutable()
		} else {
			l.Append(proj.ScalarValue(fd.Kind(), op.X))
		}
		l.Truncate(n)
		if fd.Message() != nil {
			l.Append(l.NewElement())
		} else {
			l.Append(proj.ScalarValue(fd.Kind(), op.X))
		}
		return rOK()
	case "ViewClear":
		var valid func() bool
		if fd.IsMap() {
			valid = m.Mutable(fd).Map().IsValid
		} else {
			valid = m.Mutable(fd).List().IsValid
		}
		m.Clear(fd)
		return rBool(valid())
	case "SetInvalid":
		m.Set(fd, m.Type().New().Get(fd))
		return rOK()
	case "LElemKept":
		l := m.Mutable(fd).List()
		n := l.Len()
		e := l.AppendMutable().Message()
		e.SetUnknown(proj.ToBytes(op.U))
		l.Truncate(n)
		return RRet{"bytes", proj.Bytes(e.GetUnknown())}
	case "MSetFill":
		w := m.NewField(fd)
		m.Set(fd, w)
		k := proj.ScalarValue(fd.MapKey().Kind(), op.K).MapKey()
		if fd.MapValue().Message() != nil {
			w.Map().Set(k, w.Map().NewValue())
		} else {
			w.Map().Set(k, proj.ScalarValue(fd.MapValue().Kind(), op.X))
		}
		return rOK()
	case "MRetained":
		x := m.Mutable(fd).Map()
		k := proj.ScalarValue(fd.MapKey().Kind(), op.K).MapKey()
		if fd.MapValue().Message() != nil {
			x.Mutable(k)
		} else {
			x.Set(k, proj.ScalarValue(fd.MapValue().Kind(), op.X))
		}
		x.Clear(k)
		if fd.MapValue().Message() != nil {
			x.Set(k, x.NewValue())
		} else {
			x.Set(k, proj.ScalarValue(fd.MapValue().Kind(), op.X))
		}
		return rOK()
	case "MLen":
		return rInt(mp().Len())
	case "MIsValid":
		return rBool(mp().IsValid())
	case "MHas":
		return rBool(mp().Has(proj.ScalarValue(fd.MapKey().Kind(), op.K).MapKey()))
	case "MGet":
		v := mp().Get(proj.ScalarValue(fd.MapKey().Kind(), op.K).MapKey())
		if !v.IsValid() {
			return RRet{"invalid", 0}
		}
		return elemRet(fd.MapValue(), v)
	case "MSet":
		mp().Set(proj.ScalarValue(fd.MapKey().Kind(), op.K).MapKey(), proj.ScalarValue(fd.MapValue().Kind(), op.X))
		return rOK()
	case "MSetNew":
		x := mp()
		x.Set(proj.ScalarValue(fd.MapKey().Kind(), op.K).MapKey(), x.NewValue())
		return rOK()
	case "MMutable":
		v := mp().Mutable(proj.ScalarValue(fd.MapKey().Kind(), op.K).MapKey())
		return msgView(v.Message())
	case "MClear":
		mp().Clear(proj.ScalarValue(fd.MapKey().Kind(), op.K).MapKey())
		return rOK()
	case "MRange":
		var keys [][]int
		mp().Range(func(k protoreflect.MapKey, _ protoreflect.Value) bool {
			keys = append(keys, proj.ScalarJSON(fd.MapKey().Kind(), k.Value()).([]int))
			return true
		})
		return RRet{"keys", keys}
	case "MNewValue":
		return elemRet(fd.MapValue(), m.NewField(fd).Map().NewValue())
	}
	return RRet{"unknown-op", 0}
}

// retEq compares an observed result with the model's; map key lists are compared as sets
// (Map.Range order is unspecified; the model lists keys in sorted order).
func retEq(obs RRet, want any) bool {
	w, _ := want.(map[string]any)
	if w == nil {
		return false
	}
	if obs.Kind != w["kind"] {
		return false
	}
	if obs.Kind == "keys" {
		a := map[string]int{}
		for _, k := range obs.V.([][]int) {
			b, _ := json.Marshal(k)
			a[string(b)]++
		}
		wl, _ := w["v"].([]any)
		for _, k := range wl {
			b, _ := json.Marshal(k)
			a[string(b)]--
		}
		for _, n := range a {
			if n != 0 {
				return false
			}
		}
		return len(obs.V.([][]int)) == len(wl)
	}
	if obs.Kind == "nums" || obs.Kind == "bytes" || obs.Kind == "scalar" {
		// TLC renders an empty sequence as [] and so do we
		ob, _ := json.Marshal(obs.V)
		wb, _ := json.Marshal(w["v"])
		if string(ob) == "null" {
			ob = []byte("[]")
		}
		return string(ob) == string(wb)
	}
	return jsonEq(obs.V, w["v"])
}

type reflEdge struct {
	P     []int `json:"p"`
	I     int   `json:"i"`
	Ret   any   `json:"ret"`
	To    any   `json:"to"`
	Reads []any `json:"reads"`
}

type reflVerdict struct {
	N     int    `json:"n"`
	P     []int  `json:"p"`
	I     int    `json:"i"`
	Op    ROp    `json:"op"`
	What  string `json:"what"` // ret | state | fast | read | getter
	Who   string `json:"who"`  // pulsar | dynamicpb
	Read  *ROp   `json:"read,omitempty"`
	Obs   any    `json:"obs"`
	Want  any    `json:"want"`
	Shape string `json:"shape"`
}

func fieldShape(md protoreflect.MessageDescriptor, op ROp) string {
	// shape of the field the op touches (after navigating descriptors along the path)
	for _, s := range op.P {
		fd := md.Fields().ByNumber(protoreflect.FieldNumber(s.F))
		if fd == nil {
			return "?"
		}
		if fd.IsMap() {
			md = fd.MapValue().Message()
		} else {
			md = fd.Message()
		}
		if md == nil {
			return "?"
		}
	}
	if op.F == 0 {
		return "msg"
	}
	fd := md.Fields().ByNumber(protoreflect.FieldNumber(op.F))
	if fd == nil {
		return "?"
	}
	switch {
	case fd.IsMap():
		return "map/" + fd.MapKey().Kind().String() + "->" + fd.MapValue().Kind().String()
	case fd.IsList():
		return "rep/" + fd.Kind().String()
	case fd.ContainingOneof() != nil:
		return "oneof/" + fd.Kind().String()
	}
	return "one/" + fd.Kind().String()
}

func cmdReflectReplay(args []string) {
	fs := flag.NewFlagSet("reflect-replay", flag.ExitOnError)
	typ := fs.String("type", "", "root type")
	in := fs.String("in", "", "OPS / RDOPS / EDGE lines exported by MC_Reflect")
	out := fs.String("out", "", "verdicts")
	fs.Parse(args)
	mt := findType(*typ)
	md := mt.Descriptor()
	f, err := os.Open(*in)
	if err != nil {
		die("%v", err)
	}
	defer f.Close()
	of, _ := os.Create(*out)
	defer of.Close()
	w := bufio.NewWriter(of)
	defer w.Flush()
	sc := bufio.NewScanner(f)
	sc.Buffer(make([]byte, 1<<20), 1<<30)
	var ops, rdops []ROp
	n, bad, reads, states := 0, 0, 0, 0
	nilOriginsN, nilChecks := 0, 0
	byOp := map[string]int{} // vacuity scan: (operation, result kind) pairs actually exercised
	// the state graph as exported: abstract state (canonical JSON) per history, transitions,
	// expected reads per state -- for the all-histories pass below
	type trans struct {
		ret any
		to  string
	}
	stateKey := func(j any) string { b, _ := json.Marshal(proj.Normalize(j, md)); return string(b) }
	histKey := map[string]string{"[]": stateKey(map[string]any{"f": map[string]any{}, "u": []any{}})}
	hk := func(p []int) string { return fmt.Sprint(p) }
	transOf := map[string]map[int]trans{}
	readsOf := map[string][]any{}
	stateJSON := map[string]any{}
	emit := func(v reflVerdict) {
		bad++
		b, _ := json.Marshal(v)
		w.Write(b)
		w.WriteByte('\n')
	}
	for sc.Scan() {
		line := sc.Text()
		switch {
		case strings.HasPrefix(line, "OPS "):
			if err := json.Unmarshal([]byte(line[4:]), &ops); err != nil {
				die("ops: %v", err)
			}
		case strings.HasPrefix(line, "RDOPS "):
			if err := json.Unmarshal([]byte(line[6:]), &rdops); err != nil {
				die("rdops: %v", err)
			}
		case strings.HasPrefix(line, "NIL "):
			var nl nilLine
			if err := json.Unmarshal([]byte(line[4:]), &nl); err != nil {
				die("nil: %v", err)
			}
			o, c := nilSuite(nl, emit)
			nilOriginsN += o
			nilChecks += c
		case strings.HasPrefix(line, "STATE "):
			var e reflEdge
			if err := json.Unmarshal([]byte(line[6:]), &e); err != nil {
				die("state: %v", err)
			}
			states++
			if k, ok := histKey[hk(e.P)]; ok {
				readsOf[k] = e.Reads
			}
			p := newPulsar(mt)
			d := dynamicpb.NewMessage(md)
			for _, k := range e.P {
				applyOp(p.ProtoReflect(), ops[k-1], true)
				applyOp(d.ProtoReflect(), ops[k-1], false)
			}
			var st any
			catch(func() { st = proj.Normalize(proj.Project(proj.Impl(p), proj.WrapImpl), md) })
			for j, ro := range rdops {
				if j >= len(e.Reads) {
					break
				}
				reads++
				if rd := applyOp(d.ProtoReflect(), ro, false); !retEq(rd, e.Reads[j]) {
					r := ro
					emit(reflVerdict{N: states, P: e.P, What: "read", Who: "dynamicpb", Read: &r, Obs: rd, Want: e.Reads[j], Shape: fieldShape(md, ro)})
				}
				rp := applyOp(p.ProtoReflect(), ro, true)
				byOp[ro.Op+"/"+rp.Kind]++
				if !retEq(rp, e.Reads[j]) {
					r := ro
					emit(reflVerdict{N: states, P: e.P, What: "read", Who: "pulsar", Read: &r, Obs: rp, Want: e.Reads[j], Shape: fieldShape(md, ro)})
				}
			}
			// reads must not have changed the pulsar struct
			catch(func() {
				if st2 := proj.Normalize(proj.Project(proj.Impl(p), proj.WrapImpl), md); !jsonEq(st2, st) {
					emit(reflVerdict{N: states, P: e.P, What: "reads-changed-state", Who: "pulsar", Obs: st2, Want: st, Shape: "msg"})
				}
			})
		case strings.HasPrefix(line, "EDGE "):
			var e reflEdge
			if err := json.Unmarshal([]byte(line[5:]), &e); err != nil {
				die("edge: %v", err)
			}
			n++
			if src, ok := histKey[hk(e.P)]; ok && e.I > 0 {
				to := stateKey(e.To)
				if transOf[src] == nil {
					transOf[src] = map[int]trans{}
				}
				transOf[src][e.I] = trans{e.Ret, to}
				stateJSON[to] = proj.Normalize(e.To, md)
				if _, seen := histKey[hk(append(append([]int(nil), e.P...), e.I))]; !seen {
					histKey[hk(append(append([]int(nil), e.P...), e.I))] = to
				}
			}
			p := newPulsar(mt)
			d := dynamicpb.NewMessage(md)
			for _, k := range e.P {
				applyOp(p.ProtoReflect(), ops[k-1], true)
				applyOp(d.ProtoReflect(), ops[k-1], false)
			}
			var op ROp
			if e.I > 0 {
				op = ops[e.I-1]
				rp := applyOp(p.ProtoReflect(), op, true)
				rd := applyOp(d.ProtoReflect(), op, false)
				byOp[op.Op+"/"+rp.Kind]++
				shape := fieldShape(md, op)
				if !retEq(rd, e.Ret) {
					emit(reflVerdict{N: n, P: e.P, I: e.I, Op: op, What: "ret", Who: "dynamicpb", Obs: rd, Want: e.Ret, Shape: shape})
				}
				if !retEq(rp, e.Ret) {
					emit(reflVerdict{N: n, P: e.P, I: e.I, Op: op, What: "ret", Who: "pulsar", Obs: rp, Want: e.Ret, Shape: shape})
				}
			}
			shape := fieldShape(md, op)
			want := proj.Normalize(e.To, md)
			if st := proj.Normalize(proj.Project(d.ProtoReflect(), proj.WrapNone), md); !jsonEq(st, want) {
				emit(reflVerdict{N: n, P: e.P, I: e.I, Op: op, What: "state", Who: "dynamicpb", Obs: st, Want: want, Shape: shape})
			}
			var st any
			if pn := catch(func() { st = proj.Normalize(proj.Project(proj.Impl(p), proj.WrapImpl), md) }); pn != "" {
				emit(reflVerdict{N: n, P: e.P, I: e.I, Op: op, What: "state", Who: "pulsar", Obs: "panic: " + pn, Want: want, Shape: shape})
			} else if !jsonEq(st, want) {
				emit(reflVerdict{N: n, P: e.P, I: e.I, Op: op, What: "state", Who: "pulsar", Obs: st, Want: want, Shape: shape})
			}
			if pn := catch(func() {
				if fast := proj.Normalize(proj.Project(p.ProtoReflect(), proj.WrapNone), md); !jsonEq(fast, st) {
					emit(reflVerdict{N: n, P: e.P, I: e.I, Op: op, What: "fast", Who: "pulsar", Obs: fast, Want: st, Shape: shape})
				}
			}); pn != "" {
				emit(reflVerdict{N: n, P: e.P, I: e.I, Op: op, What: "fast", Who: "pulsar", Obs: "panic: " + pn, Want: st, Shape: shape})
			}
		}
	}
	// ---- all-histories pass. The graph replay above reaches every abstract state through ONE
	// representative history; code can distinguish histories the model identifies (a cached or
	// shared object, a slice with spare capacity). Here EVERY operation sequence up to the
	// model's bound is executed on a fresh message, following the exported transitions for the
	// expected results, the expected final state and the expected answers of all read operations.
	treeHist, treeReads := 0, 0
	{
		maxLen := 0
		for h := range histKey {
			if c := strings.Count(h, " ") + 1; h != "[]" && c > maxLen {
				maxLen = c
			}
		}
		init := histKey["[]"]
		total := 1
		for i := 0; i < maxLen; i++ {
			total *= len(ops)
		}
		stride := 1
		if cost := total * (len(rdops) + 1); cost > 4000000 {
			stride = cost/4000000 + 1
		}
		counter := 0
		var seq []int
		var rec func(cur string, depth int)
		rec = func(cur string, depth int) {
			if depth >= 2 { // length-1 histories are the representatives themselves
				counter++
				if counter%stride == 0 {
					treeHist++
					p := newPulsar(mt)
					key := init
					okRun := true
					for si, k := range seq {
						t := transOf[key][k]
						rp := applyOp(p.ProtoReflect(), ops[k-1], true)
						if !retEq(rp, t.ret) {
							o := ops[k-1]
							// the reference decides whether the model is right about THIS history (the
							// graph replay had it in the loop for one representative history per state
							// only): the same sequence on a fresh dynamicpb message
							d := dynamicpb.NewMessage(md)
							var rd RRet
							for _, kk := range seq[:si+1] {
								rd = applyOp(d.ProtoReflect(), ops[kk-1], false)
							}
							who := "pulsar"
							if !retEq(rd, t.ret) {
								who, rp = "dynamicpb", rd
							}
							emit(reflVerdict{N: treeHist, P: append([]int(nil), seq...), I: k, Op: o, What: "tree:ret", Who: who, Obs: rp, Want: t.ret, Shape: fieldShape(md, o)})
							okRun = false
							break
						}
						key = t.to
					}
					if okRun {
						last := ops[seq[len(seq)-1]-1]
						var st any
						// (as above: the reference arbitrates between the code and the model)
						refTwin := func() protoreflect.Message {
							d := dynamicpb.NewMessage(md)
							for _, kk := range seq {
								applyOp(d.ProtoReflect(), ops[kk-1], false)
							}
							return d.ProtoReflect()
						}
						if pn := catch(func() { st = proj.Normalize(proj.Project(proj.Impl(p), proj.WrapImpl), md) }); pn != "" || !jsonEq(st, stateJSON[key]) {
							who := "pulsar"
							if rst := proj.Normalize(proj.Project(refTwin(), proj.WrapNone), md); !jsonEq(rst, stateJSON[key]) {
								who, st = "dynamicpb", rst
							}
							emit(reflVerdict{N: treeHist, P: append([]int(nil), seq...), Op: last, What: "tree:state", Who: who, Obs: st, Want: stateJSON[key], Shape: fieldShape(md, last)})
						} else if exp, ok := readsOf[key]; ok {
							for j, ro := range rdops {
								if j >= len(exp) {
									break
								}
								treeReads++
								if rp := applyOp(p.ProtoReflect(), ro, true); !retEq(rp, exp[j]) {
									r := ro
									who := "pulsar"
									if rd := applyOp(refTwin(), ro, false); !retEq(rd, exp[j]) {
										who, rp = "dynamicpb", rd
									}
									emit(reflVerdict{N: treeHist, P: append([]int(nil), seq...), Op: last, What: "tree:read", Who: who, Read: &r, Obs: rp, Want: exp[j], Shape: fieldShape(md, ro)})
									break
								}
							}
						}
					}
				}
			}
			if depth == maxLen {
				return
			}
			for k := 1; k <= len(ops); k++ {
				t, ok := transOf[cur][k]
				if !ok {
					continue
				}
				seq = append(seq, k)
				rec(t.to, depth+1)
				seq = seq[:len(seq)-1]
			}
		}
		rec(init, 0)
	}
	b, _ := json.Marshal(map[string]any{"summary": true, "tree_histories": treeHist, "tree_reads": treeReads, "edges": n, "bad": bad, "ops": len(ops), "rdops": len(rdops), "reads": reads, "states": states, "nil_origins": nilOriginsN, "nil_checks": nilChecks, "by_op": byOp})
	w.Write(b)
	w.WriteByte('\n')
	_ = fmt.Sprint
}
