package main

// Recording proxy (C10, direction B): the generic protobuf-go algorithms (proto.Equal / Clone /
// Merge / Reset / CheckInitialized, protojson and prototext in both directions) are run on a
// protoreflect.Message that forwards every call to the real message (pulsar fast reflection on
// side "impl", dynamicpb on side "ref") and RECORDS it as one operation of spec/Reflect.tla,
// addressed by (root, path). spec/Trace_Lib.tla validates every recorded call as a step of the
// reflection machine and the whole library call against the value-level specification
// (MergeV, equality, identity, the reference's parse).
//
// Messages the library creates detached (Message.New, NewField, List.NewElement, Map.NewValue)
// become further roots; Set / Append / Map.Set of such a message attaches it (SetVal /
// LAppendVal / MSetVal) and re-addresses the proxy into the tree.

import (
	"bufio"
	"encoding/json"
	"flag"
	"os"
	"reflect"
	"sort"

	"github.com/cosmos/cosmos-proto/zzverif/proj"
	"github.com/cosmos/cosmos-proto/zzverif/val"
	"google.golang.org/protobuf/encoding/protojson"
	"google.golang.org/protobuf/encoding/prototext"
	"google.golang.org/protobuf/proto"
	"google.golang.org/protobuf/reflect/protoreflect"
	"google.golang.org/protobuf/runtime/protoiface"
	"google.golang.org/protobuf/types/dynamicpb"
)

func init() { extraCmds["lib-record"] = cmdLibRecord }

// LOp is an ROp plus the handle / nil-message addressing of Trace_Lib.
type LOp struct {
	ROp
	H   int    `json:"h"`   // root index of the detached message being attached
	Nil bool   `json:"nil"` // the addressed message is an invalid (read-only empty) one
	NT  string `json:"nt"`  // full name of the addressed message's type
}

type addr struct {
	parent *addr
	step   RStep
	root   int
	nilmsg bool
}

func (a *addr) resolve() (int, []RStep) {
	var rev []RStep
	for a.parent != nil {
		rev = append(rev, a.step)
		a = a.parent
	}
	p := make([]RStep, 0, len(rev))
	for i := len(rev) - 1; i >= 0; i-- {
		p = append(p, rev[i])
	}
	return a.root, p
}

type recorder struct {
	side        string
	w           *bufio.Writer
	roots       []protoreflect.Message
	caseN       int
	ops         int
	unsupported int
	nilVariant  bool // Go-level nil messages planted: validity flags of element views are free
}

// libReadOps mirrors IsRead of spec/Reflect.tla (+ "New"): no state is logged for them.
var libReadOps = map[string]bool{"Has": true, "Get": true, "Getter": true, "NewField": true, "Which": true, "Range": true, "RangeFirst": true,
	"MRangeFirst": true, "GetUnknown": true, "IsValid": true, "LLen": true, "LIsValid": true, "LGet": true, "LNewElement": true, "MLen": true,
	"MIsValid": true, "MHas": true, "MGet": true, "MRange": true, "MNewValue": true, "New": true}

func (r *recorder) state(i int) proj.J {
	m := r.roots[i]
	if r.side == "impl" {
		return proj.Project(proj.Impl(m.Interface()), proj.WrapImpl)
	}
	return proj.Project(m, proj.WrapNone)
}

func (r *recorder) write(e map[string]any) {
	e["side"] = r.side
	e["case"] = r.caseN
	b, err := json.Marshal(e)
	if err != nil {
		die("lib event: %v", err)
	}
	r.w.Write(b)
	r.w.WriteByte('\n')
}

func (r *recorder) emit(a *addr, md protoreflect.MessageDescriptor, name string, set func(*LOp), ret RRet) {
	op := LOp{ROp: ROp{Op: name, K: []int{}, X: []int{}, U: []int{}, Via: "mutable"}}
	if set != nil {
		set(&op)
	}
	root, path := a.resolve()
	op.P, op.Nil, op.NT = path, a.nilmsg, string(md.FullName())
	e := map[string]any{"ev": "op", "r": root, "op": op, "ret": retJSON(ret), "st": proj.J{"f": proj.J{}, "u": []int{}}, "new": len(r.roots), "nv": r.nilVariant}
	if !libReadOps[name] && !a.nilmsg {
		var st proj.J
		if pn := catch(func() { st = r.state(root) }); pn != "" {
			e["panic"] = pn
		} else {
			e["st"] = st
		}
	}
	r.ops++
	r.write(e)
}

// adopt is logged after a call the vocabulary cannot express (never made by the library so
// far): the specification takes over the observed state of that root.
func (r *recorder) adopt(a *addr, what string) {
	root, _ := a.resolve()
	r.unsupported++
	r.write(map[string]any{"ev": "adopt", "r": root, "st": r.state(root), "what": what})
}

func (r *recorder) newRoot(m protoreflect.Message) *recMsg {
	r.roots = append(r.roots, m)
	return &recMsg{r: r, a: &addr{root: len(r.roots) - 1}, m: m}
}

// guard records a panicking call as such and lets the panic continue into the library.
func (r *recorder) guard(a *addr, md protoreflect.MessageDescriptor, name string, set func(*LOp)) {
	if p := recover(); p != nil {
		r.emit(a, md, name, set, rPanic())
		panic(p)
	}
}

// ---- proto.Message ------------------------------------------------------------------------

type recProto struct{ m *recMsg }

func (p *recProto) ProtoReflect() protoreflect.Message { return p.m }

// Reset is what proto.Reset calls when present (every generated and dynamic message has it).
func (p *recProto) Reset() {
	m := p.m
	defer m.r.guard(m.a, m.m.Descriptor(), "Reset", nil)
	proto.Reset(m.m.Interface())
	m.r.emit(m.a, m.m.Descriptor(), "Reset", nil, rOK())
}

// ---- protoreflect.Message -----------------------------------------------------------------

type recMsg struct {
	r *recorder
	a *addr
	m protoreflect.Message
}

func (x *recMsg) child(step RStep, m protoreflect.Message) *recMsg {
	return &recMsg{r: x.r, a: &addr{parent: x.a, step: step, nilmsg: x.a.nilmsg || !m.IsValid()}, m: m}
}

func (x *recMsg) wrapField(fd protoreflect.FieldDescriptor, v protoreflect.Value) protoreflect.Value {
	switch {
	case fd.IsList():
		via := "mutable"
		if !v.List().IsValid() {
			via = "get"
		}
		return protoreflect.ValueOfList(&recList{x: x, fd: fd, via: via, l: v.List()})
	case fd.IsMap():
		via := "mutable"
		if !v.Map().IsValid() {
			via = "get"
		}
		return protoreflect.ValueOfMap(&recMap{x: x, fd: fd, via: via, m: v.Map()})
	case fd.Message() != nil:
		return protoreflect.ValueOfMessage(x.child(RStep{F: int(fd.Number()), T: "f", K: []int{}}, v.Message()))
	}
	return v
}

// unwrap returns the value to hand to the real message, and the detached proxy if v is one.
func unwrap(v protoreflect.Value) (protoreflect.Value, *recMsg) {
	switch t := v.Interface().(type) {
	case *recMsg:
		if t.a.parent == nil && t.a.root > 0 {
			return protoreflect.ValueOfMessage(t.m), t
		}
		return protoreflect.ValueOfMessage(t.m), nil
	case *recList:
		return protoreflect.ValueOfList(t.l), nil
	case *recMap:
		return protoreflect.ValueOfMap(t.m), nil
	}
	return v, nil
}

func (x *recMsg) Descriptor() protoreflect.MessageDescriptor { return x.m.Descriptor() }
func (x *recMsg) Type() protoreflect.MessageType             { return x.m.Type() }
func (x *recMsg) Interface() protoreflect.ProtoMessage       { return &recProto{x} }
func (x *recMsg) ProtoMethods() *protoiface.Methods          { return nil }

func (x *recMsg) New() protoreflect.Message {
	defer x.r.guard(x.a, x.m.Descriptor(), "New", nil)
	n := x.m.New()
	x.r.emit(x.a, x.m.Descriptor(), "New", nil, msgView(n))
	return x.r.newRoot(n)
}

func (x *recMsg) IsValid() bool {
	defer x.r.guard(x.a, x.m.Descriptor(), "IsValid", nil)
	b := x.m.IsValid()
	x.r.emit(x.a, x.m.Descriptor(), "IsValid", nil, rBool(b))
	return b
}

func (x *recMsg) Range(f func(protoreflect.FieldDescriptor, protoreflect.Value) bool) {
	type fv struct {
		fd protoreflect.FieldDescriptor
		v  protoreflect.Value
	}
	var all []fv
	func() {
		defer x.r.guard(x.a, x.m.Descriptor(), "Range", nil)
		x.m.Range(func(fd protoreflect.FieldDescriptor, v protoreflect.Value) bool {
			all = append(all, fv{fd, v})
			return true
		})
		nums := []int{}
		for _, e := range all {
			nums = append(nums, int(e.fd.Number()))
		}
		sort.Ints(nums)
		x.r.emit(x.a, x.m.Descriptor(), "Range", nil, RRet{"nums", nums})
	}()
	for _, e := range all {
		if !f(e.fd, x.wrapField(e.fd, e.v)) {
			return
		}
	}
}

func fset(fd protoreflect.FieldDescriptor) func(*LOp) {
	return func(o *LOp) { o.F = int(fd.Number()) }
}

func (x *recMsg) Has(fd protoreflect.FieldDescriptor) bool {
	defer x.r.guard(x.a, x.m.Descriptor(), "Has", fset(fd))
	b := x.m.Has(fd)
	x.r.emit(x.a, x.m.Descriptor(), "Has", fset(fd), rBool(b))
	return b
}

func (x *recMsg) Clear(fd protoreflect.FieldDescriptor) {
	defer x.r.guard(x.a, x.m.Descriptor(), "Clear", fset(fd))
	x.m.Clear(fd)
	x.r.emit(x.a, x.m.Descriptor(), "Clear", fset(fd), rOK())
}

func (x *recMsg) Get(fd protoreflect.FieldDescriptor) protoreflect.Value {
	defer x.r.guard(x.a, x.m.Descriptor(), "Get", fset(fd))
	v := x.m.Get(fd)
	x.r.emit(x.a, x.m.Descriptor(), "Get", fset(fd), valueRet(fd, v))
	return x.wrapField(fd, v)
}

func (x *recMsg) Set(fd protoreflect.FieldDescriptor, v protoreflect.Value) {
	raw, det := unwrap(v)
	composite := fd.IsList() || fd.IsMap() || fd.Message() != nil
	switch {
	case !composite:
		set := func(o *LOp) { o.F = int(fd.Number()); o.X = jints(proj.ScalarJSON(fd.Kind(), v)) }
		defer x.r.guard(x.a, x.m.Descriptor(), "Set", set)
		x.m.Set(fd, raw)
		x.r.emit(x.a, x.m.Descriptor(), "Set", set, rOK())
	case det != nil && !fd.IsList() && !fd.IsMap():
		set := func(o *LOp) { o.F = int(fd.Number()); o.H = det.a.root }
		defer x.r.guard(x.a, x.m.Descriptor(), "SetVal", set)
		x.m.Set(fd, raw)
		x.r.emit(x.a, x.m.Descriptor(), "SetVal", set, rOK())
		det.a.parent, det.a.step = x.a, RStep{F: int(fd.Number()), T: "f", K: []int{}}
	default:
		x.m.Set(fd, raw)
		x.r.adopt(x.a, "Set of a list, map or attached message")
	}
}

func (x *recMsg) Mutable(fd protoreflect.FieldDescriptor) protoreflect.Value {
	defer x.r.guard(x.a, x.m.Descriptor(), "Mutable", fset(fd))
	v := x.m.Mutable(fd)
	x.r.emit(x.a, x.m.Descriptor(), "Mutable", fset(fd), valueRet(fd, v))
	return x.wrapField(fd, v)
}

func (x *recMsg) NewField(fd protoreflect.FieldDescriptor) protoreflect.Value {
	defer x.r.guard(x.a, x.m.Descriptor(), "NewField", fset(fd))
	v := x.m.NewField(fd)
	x.r.emit(x.a, x.m.Descriptor(), "NewField", fset(fd), valueRet(fd, v))
	if !fd.IsList() && !fd.IsMap() && fd.Message() != nil {
		return protoreflect.ValueOfMessage(x.r.newRoot(v.Message()))
	}
	return v // detached lists / maps are not tracked (the library never asks for them)
}

func (x *recMsg) WhichOneof(od protoreflect.OneofDescriptor) protoreflect.FieldDescriptor {
	set := func(o *LOp) { o.OO = od.Index() + 1 }
	defer x.r.guard(x.a, x.m.Descriptor(), "Which", set)
	fd := x.m.WhichOneof(od)
	n := 0
	if fd != nil {
		n = int(fd.Number())
	}
	x.r.emit(x.a, x.m.Descriptor(), "Which", set, rInt(n))
	return fd
}

func (x *recMsg) GetUnknown() protoreflect.RawFields {
	defer x.r.guard(x.a, x.m.Descriptor(), "GetUnknown", nil)
	b := x.m.GetUnknown()
	x.r.emit(x.a, x.m.Descriptor(), "GetUnknown", nil, RRet{"bytes", proj.Bytes(b)})
	return b
}

func (x *recMsg) SetUnknown(b protoreflect.RawFields) {
	set := func(o *LOp) { o.U = proj.Bytes(b) }
	defer x.r.guard(x.a, x.m.Descriptor(), "SetUnknown", set)
	x.m.SetUnknown(b)
	x.r.emit(x.a, x.m.Descriptor(), "SetUnknown", set, rOK())
}

// ---- protoreflect.List --------------------------------------------------------------------

type recList struct {
	x   *recMsg
	fd  protoreflect.FieldDescriptor
	via string
	l   protoreflect.List
}

func (l *recList) op(name string, set func(*LOp)) (func(*LOp), *addr, protoreflect.MessageDescriptor) {
	return func(o *LOp) {
		o.F, o.Via = int(l.fd.Number()), l.via
		if set != nil {
			set(o)
		}
	}, l.x.a, l.x.m.Descriptor()
}

func (l *recList) elem(i int, v protoreflect.Value) protoreflect.Value {
	if l.fd.Message() == nil {
		return v
	}
	return protoreflect.ValueOfMessage(l.x.child(RStep{F: int(l.fd.Number()), T: "i", I: i, K: []int{}}, v.Message()))
}

func (l *recList) Len() int {
	set, a, md := l.op("LLen", nil)
	defer l.x.r.guard(a, md, "LLen", set)
	n := l.l.Len()
	l.x.r.emit(a, md, "LLen", set, rInt(n))
	return n
}

func (l *recList) IsValid() bool {
	set, a, md := l.op("LIsValid", nil)
	defer l.x.r.guard(a, md, "LIsValid", set)
	b := l.l.IsValid()
	l.x.r.emit(a, md, "LIsValid", set, rBool(b))
	return b
}

func (l *recList) Get(i int) protoreflect.Value {
	set, a, md := l.op("LGet", func(o *LOp) { o.I = i })
	defer l.x.r.guard(a, md, "LGet", set)
	v := l.l.Get(i)
	l.x.r.emit(a, md, "LGet", set, elemRet(l.fd, v))
	return l.elem(i, v)
}

func (l *recList) Set(i int, v protoreflect.Value) {
	raw, _ := unwrap(v)
	if l.fd.Message() != nil {
		l.l.Set(i, raw)
		l.x.r.adopt(l.x.a, "List.Set of a message")
		return
	}
	set, a, md := l.op("LSet", func(o *LOp) { o.I = i; o.X = jints(proj.ScalarJSON(l.fd.Kind(), v)) })
	defer l.x.r.guard(a, md, "LSet", set)
	l.l.Set(i, raw)
	l.x.r.emit(a, md, "LSet", set, rOK())
}

func (l *recList) Append(v protoreflect.Value) {
	raw, det := unwrap(v)
	switch {
	case l.fd.Message() == nil:
		set, a, md := l.op("LAppend", func(o *LOp) { o.X = jints(proj.ScalarJSON(l.fd.Kind(), v)) })
		defer l.x.r.guard(a, md, "LAppend", set)
		l.l.Append(raw)
		l.x.r.emit(a, md, "LAppend", set, rOK())
	case det != nil:
		set, a, md := l.op("LAppendVal", func(o *LOp) { o.H = det.a.root })
		defer l.x.r.guard(a, md, "LAppendVal", set)
		l.l.Append(raw)
		l.x.r.emit(a, md, "LAppendVal", set, rOK())
		det.a.parent, det.a.step = l.x.a, RStep{F: int(l.fd.Number()), T: "i", I: l.l.Len() - 1, K: []int{}}
	default:
		l.l.Append(raw)
		l.x.r.adopt(l.x.a, "List.Append of an attached message")
	}
}

func (l *recList) AppendMutable() protoreflect.Value {
	set, a, md := l.op("LAppendMutable", nil)
	defer l.x.r.guard(a, md, "LAppendMutable", set)
	v := l.l.AppendMutable()
	l.x.r.emit(a, md, "LAppendMutable", set, msgView(v.Message()))
	return l.elem(l.l.Len()-1, v)
}

func (l *recList) Truncate(n int) {
	set, a, md := l.op("LTruncate", func(o *LOp) { o.I = n })
	defer l.x.r.guard(a, md, "LTruncate", set)
	l.l.Truncate(n)
	l.x.r.emit(a, md, "LTruncate", set, rOK())
}

func (l *recList) NewElement() protoreflect.Value {
	set, a, md := l.op("LNewElement", nil)
	defer l.x.r.guard(a, md, "LNewElement", set)
	v := l.l.NewElement()
	l.x.r.emit(a, md, "LNewElement", set, elemRet(l.fd, v))
	if l.fd.Message() != nil {
		return protoreflect.ValueOfMessage(l.x.r.newRoot(v.Message()))
	}
	return v
}

// ---- protoreflect.Map ---------------------------------------------------------------------

type recMap struct {
	x   *recMsg
	fd  protoreflect.FieldDescriptor
	via string
	m   protoreflect.Map
}

func (m *recMap) key(k protoreflect.MapKey) []int {
	return jints(proj.ScalarJSON(m.fd.MapKey().Kind(), k.Value()))
}

func (m *recMap) op(set func(*LOp)) (func(*LOp), *addr, protoreflect.MessageDescriptor) {
	return func(o *LOp) {
		o.F, o.Via = int(m.fd.Number()), m.via
		if set != nil {
			set(o)
		}
	}, m.x.a, m.x.m.Descriptor()
}

func (m *recMap) elem(k protoreflect.MapKey, v protoreflect.Value) protoreflect.Value {
	if m.fd.MapValue().Message() == nil || !v.IsValid() {
		return v
	}
	return protoreflect.ValueOfMessage(m.x.child(RStep{F: int(m.fd.Number()), T: "k", K: m.key(k)}, v.Message()))
}

func (m *recMap) Len() int {
	set, a, md := m.op(nil)
	defer m.x.r.guard(a, md, "MLen", set)
	n := m.m.Len()
	m.x.r.emit(a, md, "MLen", set, rInt(n))
	return n
}

func (m *recMap) IsValid() bool {
	set, a, md := m.op(nil)
	defer m.x.r.guard(a, md, "MIsValid", set)
	b := m.m.IsValid()
	m.x.r.emit(a, md, "MIsValid", set, rBool(b))
	return b
}

func (m *recMap) Range(f func(protoreflect.MapKey, protoreflect.Value) bool) {
	type kv struct {
		k protoreflect.MapKey
		v protoreflect.Value
	}
	var all []kv
	func() {
		set, a, md := m.op(nil)
		defer m.x.r.guard(a, md, "MRange", set)
		m.m.Range(func(k protoreflect.MapKey, v protoreflect.Value) bool {
			all = append(all, kv{k, v})
			return true
		})
		keys := [][]int{}
		for _, e := range all {
			keys = append(keys, m.key(e.k))
		}
		m.x.r.emit(a, md, "MRange", set, RRet{"keys", keys})
	}()
	for _, e := range all {
		if !f(e.k, m.elem(e.k, e.v)) {
			return
		}
	}
}

func (m *recMap) Has(k protoreflect.MapKey) bool {
	set, a, md := m.op(func(o *LOp) { o.K = m.key(k) })
	defer m.x.r.guard(a, md, "MHas", set)
	b := m.m.Has(k)
	m.x.r.emit(a, md, "MHas", set, rBool(b))
	return b
}

func (m *recMap) Clear(k protoreflect.MapKey) {
	set, a, md := m.op(func(o *LOp) { o.K = m.key(k) })
	defer m.x.r.guard(a, md, "MClear", set)
	m.m.Clear(k)
	m.x.r.emit(a, md, "MClear", set, rOK())
}

func (m *recMap) Get(k protoreflect.MapKey) protoreflect.Value {
	set, a, md := m.op(func(o *LOp) { o.K = m.key(k) })
	defer m.x.r.guard(a, md, "MGet", set)
	v := m.m.Get(k)
	if !v.IsValid() {
		m.x.r.emit(a, md, "MGet", set, RRet{"invalid", 0})
		return v
	}
	m.x.r.emit(a, md, "MGet", set, elemRet(m.fd.MapValue(), v))
	return m.elem(k, v)
}

func (m *recMap) Set(k protoreflect.MapKey, v protoreflect.Value) {
	raw, det := unwrap(v)
	switch {
	case m.fd.MapValue().Message() == nil:
		set, a, md := m.op(func(o *LOp) { o.K = m.key(k); o.X = jints(proj.ScalarJSON(m.fd.MapValue().Kind(), v)) })
		defer m.x.r.guard(a, md, "MSet", set)
		m.m.Set(k, raw)
		m.x.r.emit(a, md, "MSet", set, rOK())
	case det != nil:
		set, a, md := m.op(func(o *LOp) { o.K = m.key(k); o.H = det.a.root })
		defer m.x.r.guard(a, md, "MSetVal", set)
		m.m.Set(k, raw)
		m.x.r.emit(a, md, "MSetVal", set, rOK())
		det.a.parent, det.a.step = m.x.a, RStep{F: int(m.fd.Number()), T: "k", K: m.key(k)}
	default:
		m.m.Set(k, raw)
		m.x.r.adopt(m.x.a, "Map.Set of an attached message")
	}
}

func (m *recMap) Mutable(k protoreflect.MapKey) protoreflect.Value {
	set, a, md := m.op(func(o *LOp) { o.K = m.key(k) })
	defer m.x.r.guard(a, md, "MMutable", set)
	v := m.m.Mutable(k)
	m.x.r.emit(a, md, "MMutable", set, msgView(v.Message()))
	return m.elem(k, v)
}

func (m *recMap) NewValue() protoreflect.Value {
	set, a, md := m.op(nil)
	defer m.x.r.guard(a, md, "MNewValue", set)
	v := m.m.NewValue()
	m.x.r.emit(a, md, "MNewValue", set, elemRet(m.fd.MapValue(), v))
	if m.fd.MapValue().Message() != nil {
		return protoreflect.ValueOfMessage(m.x.r.newRoot(v.Message()))
	}
	return v
}

// ---- driver -------------------------------------------------------------------------------

func docEq(a, b []byte) bool {
	var x, y any
	if json.Unmarshal(a, &x) != nil || json.Unmarshal(b, &y) != nil {
		return false
	}
	return reflect.DeepEqual(x, y)
}

// libSide runs the whole library programme on one implementation of the value v / other o.
func libSide(w *bufio.Writer, side string, caseN int, mt protoreflect.MessageType, md protoreflect.MessageDescriptor, vj, oj proj.J, nilVariant bool) (ops, unsupported int) {
	mk := func(j proj.J) proto.Message {
		if side == "impl" {
			p := newPulsar(mt)
			proj.Fill(proj.Impl(p), j, proj.WrapImpl)
			return p
		}
		d := dynamicpb.NewMessage(md)
		proj.Fill(d.ProtoReflect(), j, proj.WrapNone)
		return d
	}
	// reference documents and their reference parse (no proxy involved)
	refMsg := dynamicpb.NewMessage(md)
	proj.Fill(refMsg.ProtoReflect(), vj, proj.WrapNone)
	refJ, refJErr := protojson.Marshal(refMsg)
	refT, refTErr := prototext.Marshal(refMsg)
	empty := proj.J{"f": proj.J{}, "u": []int{}}

	cur := mk(vj)
	other := mk(oj)
	if nilVariant && side == "impl" {
		// Go-level state: empty messages held in maps, lists and oneof wrappers become nil pointers
		// (same abstract value); only the read-only algorithms are run on it
		plantNil(reflect.ValueOf(cur))
	}
	r := &recorder{side: side, w: w, caseN: caseN, nilVariant: nilVariant && side == "impl"}
	root := r.newRoot(cur.ProtoReflect())
	px := &recProto{root}
	r.write(map[string]any{"ev": "load", "v": r.state(0)})
	call := func(name string, f func()) string {
		r.write(map[string]any{"ev": "call", "call": name})
		return catch(f)
	}
	done := func(kind, name, pn string, ok, hasEq, eq bool, h int, want proj.J) {
		r.write(map[string]any{"ev": "done", "kind": kind, "call": name, "ok": ok && pn == "", "panic": pn, "haseq": hasEq, "eq": eq, "h": h,
			"other": oj, "want": want, "st": r.state(0)})
	}
	// Equal, in both argument orders and against itself
	var eq, eq2, self bool
	pn := call("Equal", func() { eq = proto.Equal(px, other); eq2 = proto.Equal(other, px); self = proto.Equal(px, px) })
	done("same", "Equal", pn, eq == eq2 && self, true, eq, 0, empty)
	// protojson / prototext output
	var doc []byte
	var err error
	pn = call("protojson.Marshal", func() { doc, err = protojson.Marshal(px) })
	done("same", "protojson.Marshal", pn, (err == nil) == (refJErr == nil) && (err != nil || docEq(doc, refJ)), false, false, 0, empty)
	refJU, refJUErr := protojson.MarshalOptions{EmitUnpopulated: true}.Marshal(refMsg)
	pn = call("protojson.Marshal(EmitUnpopulated)", func() { doc, err = protojson.MarshalOptions{EmitUnpopulated: true}.Marshal(px) })
	done("same", "protojson.Marshal(EmitUnpopulated)", pn, (err == nil) == (refJUErr == nil) && (err != nil || docEq(doc, refJU)), false, false, 0, empty)
	pn = call("prototext.Marshal", func() { doc, err = prototext.Marshal(px) })
	okT := (err == nil) == (refTErr == nil)
	if okT && err == nil {
		a, b := dynamicpb.NewMessage(md), dynamicpb.NewMessage(md)
		ea, eb := prototext.Unmarshal(doc, a), prototext.Unmarshal(refT, b)
		okT = (ea == nil) == (eb == nil) && (ea != nil || proto.Equal(a, b))
	}
	done("same", "prototext.Marshal", pn, okT, false, false, 0, empty)
	pn = call("CheckInitialized", func() { err = proto.CheckInitialized(px) })
	done("same", "CheckInitialized", pn, err == nil, false, false, 0, empty)
	// Clone
	h := 0
	var cl proto.Message
	pn = call("Clone", func() { cl = proto.Clone(px) })
	if rp, ok := cl.(*recProto); ok {
		h = rp.m.a.root
	}
	done("clone", "Clone", pn, h > 0, false, false, h, empty)
	if nilVariant {
		return r.ops, r.unsupported
	}
	// Merge
	pn = call("Merge", func() { proto.Merge(px, other) })
	done("merge", "Merge", pn, true, false, false, 0, empty)
	// Reset, then parse the reference documents into the (now empty) message
	pn = call("Reset", func() { proto.Reset(px) })
	done("parse", "Reset", pn, true, false, false, 0, empty)
	parsed := func(doc []byte, un func([]byte, proto.Message) error) (proj.J, bool) {
		d := dynamicpb.NewMessage(md)
		if un(doc, d) != nil {
			return empty, false
		}
		return proj.Project(d.ProtoReflect(), proj.WrapNone), true
	}
	if refJErr == nil {
		if want, ok := parsed(refJ, func(b []byte, m proto.Message) error { return protojson.Unmarshal(b, m) }); ok {
			pn = call("protojson.Unmarshal", func() { err = protojson.Unmarshal(refJ, px) })
			done("parse", "protojson.Unmarshal", pn, err == nil, false, false, 0, want)
			pn = call("Reset", func() { proto.Reset(px) })
			done("parse", "Reset", pn, true, false, false, 0, empty)
		}
	}
	if refTErr == nil {
		if want, ok := parsed(refT, func(b []byte, m proto.Message) error { return prototext.Unmarshal(b, m) }); ok {
			pn = call("prototext.Unmarshal", func() { err = prototext.Unmarshal(refT, px) })
			done("parse", "prototext.Unmarshal", pn, err == nil, false, false, 0, want)
		}
	}
	return r.ops, r.unsupported
}

func cmdLibRecord(args []string) {
	fs := flag.NewFlagSet("lib-record", flag.ExitOnError)
	typ := fs.String("type", "", "")
	n := fs.Int("n", 6, "cases")
	seed := fs.Int64("seed", 1, "")
	budget := fs.Int("budget", 60, "value budget (nodes)")
	out := fs.String("out", "", "events")
	fs.Parse(args)
	mt := findType(*typ)
	md := mt.Descriptor()
	of, err := os.Create(*out)
	if err != nil {
		die("%v", err)
	}
	defer of.Close()
	w := bufio.NewWriterSize(of, 1<<20)
	defer w.Flush()
	g := val.New(*seed)
	g.LongLists = 0 // the state is logged after every write: boundary-sized payloads belong to the codec traces
	ops, uns := 0, 0
	for c := 0; c < *n; c++ {
		g.Budget = *budget
		g.Cover(md, c, *n)
		v := g.Dynamic(md)
		var o *dynamicpb.Message
		switch {
		case c%3 == 2:
			o = v // an equal value (rebuilt from its projection on each side)
		case c%2 == 0:
			o = g.Mutate(v)
		default:
			g.Budget = *budget
			o = g.Dynamic(md)
		}
		vj := proj.Project(v.ProtoReflect(), proj.WrapNone)
		oj := proj.Project(o.ProtoReflect(), proj.WrapNone)
		b, _ := json.Marshal(map[string]any{"ev": "new", "t": *typ, "case": c, "side": "both"})
		w.Write(b)
		w.WriteByte('\n')
		for _, side := range []string{"ref", "impl"} {
			a, u := libSide(w, side, c, mt, md, vj, oj, false)
			ops += a
			uns += u
		}
		if c%2 == 1 {
			b, _ := json.Marshal(map[string]any{"ev": "new", "t": *typ, "case": 1000 + c, "side": "both"})
			w.Write(b)
			w.WriteByte('\n')
			for _, side := range []string{"ref", "impl"} {
				a, u := libSide(w, side, 1000+c, mt, md, vj, oj, true)
				ops += a
				uns += u
			}
		}
	}
	b, _ := json.Marshal(map[string]any{"ev": "summary", "side": "both", "case": *n, "ops": ops, "unsupported": uns})
	os.Stderr.Write(append(b, '\n'))
}
