package main

import (
	"bufio"
	"crypto/sha256"
	"encoding/hex"
	"encoding/json"
	"flag"
	"fmt"
	"os"
	"reflect"
	"runtime"
	"sort"
	"strings"
	"sync"
	"sync/atomic"

	"github.com/cosmos/cosmos-proto/anyutil"
	"github.com/cosmos/cosmos-proto/zzverif/proj"
	"github.com/cosmos/cosmos-proto/zzverif/val"
	"google.golang.org/protobuf/encoding/protojson"
	"google.golang.org/protobuf/proto"
	"google.golang.org/protobuf/reflect/protoreflect"
	"google.golang.org/protobuf/types/dynamicpb"
)

var _ protoreflect.ProtoMessage

func init() { extraCmds["readers"] = cmdReaders }

func hashOf(b []byte) string {
	s := sha256.Sum256(b)
	return hex.EncodeToString(s[:6])
}

// readOps are the read-only operations of C11; each returns a digest of what it observed.
var readOps = map[string]func(m proto.Message, other proto.Message) string{
	"Size": func(m, _ proto.Message) string { return fmt.Sprint(proto.Size(m)) },
	"MarshalDet": func(m, _ proto.Message) string {
		b, _ := proto.MarshalOptions{Deterministic: true}.Marshal(m)
		return hashOf(b)
	},
	"Marshal": func(m, _ proto.Message) string { b, _ := proto.Marshal(m); return fmt.Sprint(len(b)) },
	"HasGet": func(m, _ proto.Message) string {
		r := m.ProtoReflect()
		fds := r.Descriptor().Fields()
		n := 0
		for i := 0; i < fds.Len(); i++ {
			if r.Has(fds.Get(i)) {
				n++
			}
			v := r.Get(fds.Get(i))
			switch {
			case fds.Get(i).IsList():
				n += v.List().Len()
			case fds.Get(i).IsMap():
				n += v.Map().Len()
			}
		}
		return fmt.Sprint(n)
	},
	"Range": func(m, _ proto.Message) string {
		var nums []int
		m.ProtoReflect().Range(func(fd protoreflect.FieldDescriptor, _ protoreflect.Value) bool {
			nums = append(nums, int(fd.Number()))
			return true
		})
		sort.Ints(nums)
		return fmt.Sprint(nums)
	},
	"WhichOneof": func(m, _ proto.Message) string {
		r := m.ProtoReflect()
		s := ""
		for i := 0; i < r.Descriptor().Oneofs().Len(); i++ {
			if fd := r.WhichOneof(r.Descriptor().Oneofs().Get(i)); fd != nil {
				s += string(fd.Name()) + ","
			} else {
				s += "-,"
			}
		}
		return s
	},
	"Equal": func(m, other proto.Message) string {
		return fmt.Sprint(proto.Equal(m, other), proto.Equal(other, m), proto.Equal(m, m))
	},
	"Clone": func(m, _ proto.Message) string { c := proto.Clone(m); return fmt.Sprint(proto.Size(c)) },
	"JSON": func(m, _ proto.Message) string {
		b, err := protojson.Marshal(m)
		return fmt.Sprint(len(b) > 0, err == nil)
	},
	"Project": func(m, _ proto.Message) string {
		b, _ := json.Marshal(proj.Project(m.ProtoReflect(), proj.WrapNone))
		return hashOf(b)
	},
	// fmt.Sprint(m) exercises String(); its text is deliberately unstable, so only completion counts
	"String": func(m, _ proto.Message) string { _ = fmt.Sprint(m); return "ok" },
	// the bytes Marshal returns belong to the caller: each goroutine appends its own trailer to its
	// own result (frame writers do) and must find both parts intact afterwards
	"MarshalThenAppend": func(m, _ proto.Message) string {
		b, _ := proto.Marshal(m)
		n := len(b)
		h := hashOf(b)
		tag := byte(trailerSeq.Add(1))
		for i := 0; i < 24; i++ {
			b = append(b, tag)
		}
		runtime.Gosched()
		for _, x := range b[n:] {
			if x != tag {
				return "trailer overwritten"
			}
		}
		return fmt.Sprint(hashOf(b[:n]) == h)
	},
	// packing a shared message into an Any only reads it
	"AnyPack": func(m, _ proto.Message) string {
		a, err := anyutil.New(m)
		if err != nil {
			return "err"
		}
		var chk proto.Message = m.ProtoReflect().New().Interface()
		if proto.Unmarshal(a.Value, chk) != nil || !proto.Equal(chk, m) {
			return "packed value differs from the message"
		}
		return a.TypeUrl
	},
}

var trailerSeq atomic.Int32

// sharedViews holds, per message, the list and map views taken from it ONCE (by the main
// goroutine, before the readers start): the readers then share the view objects themselves, not
// only the message. Written only while no reader runs.
var sharedViews = map[proto.Message][]protoreflect.Value{}

func takeViews(m proto.Message) {
	var vs []protoreflect.Value
	r := m.ProtoReflect()
	fds := r.Descriptor().Fields()
	for i := 0; i < fds.Len(); i++ {
		if fd := fds.Get(i); fd.IsList() || fd.IsMap() {
			vs = append(vs, r.Get(fd))
		}
	}
	sharedViews[m] = vs
}

func init() {
	// every read-only method of the shared List / Map view objects
	readOps["Views"] = func(m, _ proto.Message) string {
		vs, ok := sharedViews[m]
		if !ok {
			return "no views"
		}
		n := 0
		var keys []string
		for _, v := range vs {
			switch x := v.Interface().(type) {
			case protoreflect.List:
				for i := 0; i < x.Len(); i++ {
					if x.Get(i).IsValid() {
						n++
					}
				}
				if x.IsValid() {
					n++
				}
			case protoreflect.Map:
				x.Range(func(k protoreflect.MapKey, v protoreflect.Value) bool {
					keys = append(keys, k.String())
					if x.Has(k) && x.Get(k).IsValid() {
						n++
					}
					return true
				})
				n += x.Len()
			}
		}
		sort.Strings(keys)
		return fmt.Sprint(n, hashOf([]byte(strings.Join(keys, "\x00"))))
	}
}

// cmdReaders: goroutines released from one barrier, no synchronisation between them afterwards,
// each performing read-only operations on one shared message. Built with -race.
func cmdReaders(args []string) {
	fs := flag.NewFlagSet("readers", flag.ExitOnError)
	typ := fs.String("type", "", "")
	n := fs.Int("n", 20, "shared messages")
	reps := fs.Int("reps", 5, "repetitions per assignment")
	seed := fs.Int64("seed", 1, "")
	out := fs.String("out", "", "events")
	fs.Parse(args)
	mt := findType(*typ)
	md := mt.Descriptor()
	of, _ := os.Create(*out)
	defer of.Close()
	w := bufio.NewWriter(of)
	defer w.Flush()
	g := val.New(*seed)
	g.Budget = 60
	names := make([]string, 0, len(readOps))
	for k := range readOps {
		names = append(names, k)
	}
	sort.Strings(names)
	runs, bad := 0, 0
	for i := 0; i <= *n; i++ { // one extra message: unknown fields only
		g.Cover(md, i, *n) // every field of a wide message is populated in one of the shared messages
		d := g.Dynamic(md)
		shared := mt.New().Interface()
		proj.Fill(proj.Impl(shared), proj.Project(d.ProtoReflect(), proj.WrapNone), proj.WrapImpl)
		if i == *n {
			// a message holding nothing but unknown fields (decoded from a newer schema)
			var u []byte
			for k := 0; k < 3; k++ {
				u = append(u, g.UnknownRecord(md, 0)...)
			}
			d = dynamicpbNew(md)
			d.SetUnknown(u)
			shared = mt.New().Interface()
			shared.ProtoReflect().SetUnknown(append([]byte(nil), u...))
		}
		if i > 0 && i%3 == 2 {
			// as an application gets it: decoded from the wire (appended-to slices keep spare capacity)
			if b, err := proto.Marshal(d); err == nil {
				dec := mt.New().Interface()
				if proto.Unmarshal(b, dec) == nil {
					shared = dec
				}
			}
		}
		if i%2 == 1 {
			// nil map values / list elements: an extra empty element in every message-valued map and
			// message list of the reference twin, the same element as a nil pointer in the struct
			addNilEntries(shared, d)
			plantNil(reflect.ValueOf(shared))
		}
		// the comparison twin and the sequential results are built WITHOUT touching the generated
		// code's own methods before the goroutines start (dynamicpb twin; struct-level fill), so
		// that the very first use of the type's fast paths in this process is the concurrent one
		twin := proto.Message(d)
		takeViews(shared)
		want := map[string]string{}
		computeWant := func() {
			// (an independent instance with the same value: cloning the shared message would be a
			// sequential first use of it, and first uses are exactly what may write)
			var seqm proto.Message = mt.New().Interface()
			if b, err := proto.Marshal(d); err != nil || proto.Unmarshal(b, seqm) != nil {
				seqm = proto.Clone(shared)
			}
			takeViews(seqm)
			for _, k := range names {
				want[k] = readOps[k](seqm, twin)
			}
		}
		if i > 0 {
			computeWant()
		}
		// all assignments of 2 operations to each of 3 goroutines would be 11^6; take a rotating
		// selection that covers every unordered pair of operations
		for a := 0; a < len(names); a++ {
			for rep := 0; rep < *reps; rep++ {
				runtime.GOMAXPROCS([]int{2, 16, 4}[rep%3])
				k := 3 + rep%2
				assign := make([][]string, k)
				for t := range assign {
					assign[t] = []string{names[(a+t*(1+rep))%len(names)], names[(a+t+i)%len(names)]}
				}
				if rep == 0 {
					// every goroutine performs the SAME operation (state shared between calls of one
					// function -- scratch buffers, pools, caches -- only collides this way)
					for t := range assign {
						assign[t] = []string{names[a], names[a]}
					}
				}
				if runs == 0 {
					// the very first concurrent use of this type in the process: every goroutine
					// enters the generated fast paths (lazily initialised state must be race-free)
					for t := range assign {
						assign[t] = []string{[]string{"Size", "MarshalDet", "Marshal", "Clone"}[t%4], "Size"}
					}
				}
				// fresh view objects for every run: the first call on a view is as interesting as the
				// first call on a type, and it must be a concurrent one
				takeViews(shared)
				results := make([][]string, k)
				start := make(chan struct{})
				var wg sync.WaitGroup
				for t := 0; t < k; t++ {
					wg.Add(1)
					go func(t int) {
						defer wg.Done()
						<-start
						for _, op := range assign[t] {
							results[t] = append(results[t], readOps[op](shared, twin))
						}
					}(t)
				}
				close(start)
				wg.Wait()
				runs++
				if len(want) == 0 {
					computeWant() // first message of the process: sequential results only now
				}
				var mism []string
				for t := range assign {
					for j, op := range assign[t] {
						if results[t][j] != want[op] {
							mism = append(mism, fmt.Sprintf("goroutine %d %s: %s, sequential %s", t, op, results[t][j], want[op]))
						}
					}
				}
				if len(mism) > 0 || runs <= 3 {
					if len(mism) > 0 {
						bad++
					}
					b, _ := json.Marshal(map[string]any{"ev": "readers", "type": *typ, "assign": assign, "mismatch": mism, "n": len(mism)})
					w.Write(b)
					w.WriteByte('\n')
				}
			}
		}
	}
	b, _ := json.Marshal(map[string]any{"summary": true, "runs": runs, "bad": bad, "ops": names})
	w.Write(b)
	w.WriteByte('\n')
}

func dynamicpbNew(md protoreflect.MessageDescriptor) *dynamicpb.Message {
	return dynamicpb.NewMessage(md)
}

// addNilEntries adds one element to every message list and message-valued map of the top-level
// message: an empty message in the dynamic twin d, a nil pointer in the generated struct p.
func addNilEntries(p proto.Message, d protoreflect.ProtoMessage) {
	md := p.ProtoReflect().Descriptor()
	dr := d.ProtoReflect()
	for i := 0; i < md.Fields().Len(); i++ {
		fd := md.Fields().Get(i)
		switch {
		case fd.IsMap() && fd.MapValue().Message() != nil:
			f := structField(p, fd)
			if f.IsNil() {
				f.Set(reflect.MakeMap(f.Type()))
			}
			k := reflect.New(f.Type().Key()).Elem()
			if f.MapIndex(k).IsValid() {
				continue
			}
			f.SetMapIndex(k, reflect.Zero(f.Type().Elem()))
			dm := dr.Mutable(fd).Map()
			dm.Set(fd.MapKey().Default().MapKey(), dm.NewValue())
		case fd.IsList() && fd.Message() != nil:
			f := structField(p, fd)
			f.Set(reflect.Append(f, reflect.Zero(f.Type().Elem())))
			dl := dr.Mutable(fd).List()
			dl.Append(dl.NewElement())
		}
	}
}
