package main

import (
	"bufio"
	"bytes"
	"compress/gzip"
	"encoding/json"
	"flag"
	"fmt"
	"google.golang.org/protobuf/types/descriptorpb"
	"io"
	"os"
	"path/filepath"
	"reflect"
	"strings"

	"github.com/cosmos/cosmos-proto/zzverif/proj"
	"github.com/cosmos/cosmos-proto/zzverif/val"
	"google.golang.org/protobuf/encoding/prototext"
	"google.golang.org/protobuf/proto"
	"google.golang.org/protobuf/reflect/protodesc"
	"google.golang.org/protobuf/reflect/protoreflect"
	"google.golang.org/protobuf/reflect/protoregistry"
	"google.golang.org/protobuf/types/pluginpb"
)

func init() { extraCmds["coherence"] = cmdCoherence }

type entity struct {
	Kind   string `json:"kind"`
	Name   string `json:"name"`
	Fields []struct {
		Name  string `json:"name"`
		Num   int    `json:"num"`
		Kind  string `json:"kind"`
		Card  string `json:"card"`
		Oneof string `json:"oneof"`
	} `json:"fields"`
	Oneofs []string `json:"oneofs"`
	Values []struct {
		Name string `json:"name"`
		Num  int    `json:"num"`
	} `json:"values"`
}

// cmdCoherence checks the obligations exported by Schema.tla (ENTITIES lines) and the generic
// registry/type obligations on every message of the linked packages.
// surfaceEntry is one exported identifier of a linked generated package (filled by surface_gen.go,
// which the driver writes from the names protogen assigns to the request's entities).
type surfaceEntry struct {
	Kind, Full, Pkg, Go string
	Num                 int32
	V                   any
}

var surface []surfaceEntry

func cmdCoherence(args []string) {
	fs := flag.NewFlagSet("coherence", flag.ExitOnError)
	in := fs.String("in", "", "ENTITIES lines exported by Schema.tla")
	reqs := fs.String("reqs", "", "directory with <group>.req.bin plugin requests of this run")
	out := fs.String("out", "", "verdicts")
	seed := fs.Int64("seed", 1, "")
	n := fs.Int("n", 20, "values per message for Reset/String checks")
	fs.Parse(args)
	of, _ := os.Create(*out)
	defer of.Close()
	w := bufio.NewWriter(of)
	defer w.Flush()
	bad, checks := 0, 0
	emit := func(kind, name, note string) {
		bad++
		b, _ := json.Marshal(map[string]any{"kind": kind, "name": name, "note": note})
		w.Write(b)
		w.WriteByte('\n')
	}
	ck := func(ok bool, kind, name, note string) {
		checks++
		if !ok {
			emit(kind, name, note)
		}
	}
	// ---- (1) schema-derived obligations
	entities := 0
	if *in != "" {
		f, err := os.Open(*in)
		if err != nil {
			die("%v", err)
		}
		sc := bufio.NewScanner(f)
		sc.Buffer(make([]byte, 1<<20), 1<<28)
		for sc.Scan() {
			line := sc.Text()
			if !strings.HasPrefix(line, "ENTITIES ") {
				continue
			}
			var fe struct {
				File     string   `json:"file"`
				Pkg      string   `json:"pkg"`
				Entities []entity `json:"entities"`
			}
			if err := json.Unmarshal([]byte(line[9:]), &fe); err != nil {
				die("entities: %v", err)
			}
			fd, err := protoregistry.GlobalFiles.FindFileByPath(fe.File)
			if err != nil {
				continue // group not linked (failed to generate: reported by C12)
			}
			for _, e := range fe.Entities {
				entities++
				switch e.Kind {
				case "message":
					mt, err := protoregistry.GlobalTypes.FindMessageByName(protoreflect.FullName(e.Name))
					ck(err == nil, "registry:message", e.Name, fmt.Sprint(err))
					if err != nil {
						continue
					}
					d, err := protoregistry.GlobalFiles.FindDescriptorByName(protoreflect.FullName(e.Name))
					ck(err == nil && d == protoreflect.Descriptor(mt.Descriptor()), "registry:files-vs-types", e.Name, "GlobalFiles and GlobalTypes hold different descriptors")
					ck(mt.Descriptor().ParentFile().Path() == fd.Path(), "registry:file", e.Name, "message registered under another file")
					md := mt.Descriptor()
					ck(md.Fields().Len() == len(e.Fields), "descriptor:fieldcount", e.Name, fmt.Sprintf("%d fields, schema has %d", md.Fields().Len(), len(e.Fields)))
					for _, ef := range e.Fields {
						f := md.Fields().ByNumber(protoreflect.FieldNumber(ef.Num))
						ck(f != nil && string(f.Name()) == ef.Name, "descriptor:field", e.Name+"."+ef.Name, "field missing or misnamed")
						if f == nil {
							continue
						}
						kind := f.Kind().String()
						if f.IsMap() {
							kind = "message"
						}
						ck(kind == ef.Kind, "descriptor:kind", e.Name+"."+ef.Name, kind+" vs "+ef.Kind)
						card := "one"
						switch {
						case f.IsMap():
							card = "map"
						case f.IsList():
							card = "rep"
						case f.ContainingOneof() != nil:
							card = "oneof"
						}
						ck(card == ef.Card, "descriptor:card", e.Name+"."+ef.Name, card+" vs "+ef.Card)
						if ef.Card == "oneof" {
							ck(f.ContainingOneof() != nil && string(f.ContainingOneof().Name()) == ef.Oneof, "descriptor:oneof", e.Name+"."+ef.Name, "wrong oneof")
						}
					}
					ck(md.Oneofs().Len() == len(e.Oneofs), "descriptor:oneofcount", e.Name, "")
				case "enum":
					et, err := protoregistry.GlobalTypes.FindEnumByName(protoreflect.FullName(e.Name))
					ck(err == nil, "registry:enum", e.Name, fmt.Sprint(err))
					if err != nil {
						continue
					}
					ed := et.Descriptor()
					ck(ed.Values().Len() == len(e.Values), "enum:valuecount", e.Name, "")
					for _, v := range e.Values {
						en := et.New(protoreflect.EnumNumber(v.Num))
						ck(int(en.Number()) == v.Num, "enum:number", e.Name+"."+v.Name, "")
						ck(en.Descriptor() == ed, "enum:descriptor", e.Name, "enum value reports a different descriptor")
						if s, ok := en.(fmt.Stringer); ok {
							// for aliases (allow_alias) the first declared name of the number wins
							first := v.Name
							for _, w := range e.Values {
								if w.Num == v.Num {
									first = w.Name
									break
								}
							}
							ck(s.String() == first, "enum:string", e.Name+"."+v.Name, s.String())
						} else {
							emit("enum:nostringer", e.Name, "")
						}
						ev := ed.Values().ByName(protoreflect.Name(v.Name))
						ck(ev != nil && int(ev.Number()) == v.Num, "enum:value", e.Name+"."+v.Name, "")
					}
				}
			}
		}
		f.Close()
	}
	// ---- (2) registered file descriptor = request descriptor (custom options included)
	files := 0
	if *reqs != "" {
		ms, _ := filepath.Glob(filepath.Join(*reqs, "*.req.bin"))
		for _, p := range ms {
			b, err := os.ReadFile(p)
			if err != nil {
				continue
			}
			req := &pluginpb.CodeGeneratorRequest{}
			if err := proto.Unmarshal(b, req); err != nil {
				emit("request:unparsable", p, err.Error())
				continue
			}
			gen := map[string]bool{}
			for _, g := range req.FileToGenerate {
				gen[g] = true
			}
			for _, fp := range req.ProtoFile {
				if !gen[fp.GetName()] || fp.GetSyntax() != "proto3" {
					continue
				}
				fd, err := protoregistry.GlobalFiles.FindFileByPath(fp.GetName())
				if err != nil {
					// (a group that failed to generate / compile / load is reported by C12 and is not
					// linked in: only files of groups that ARE linked are expected here)
					if linkedGroup(fp) {
						emit("registry:file-missing", fp.GetName(), "a requested proto3 file is not registered by its generated package: "+err.Error())
					}
					continue
				}
				files++
				for k := 0; k < fd.Imports().Len(); k++ {
					checks++
					if imp := fd.Imports().Get(k); imp.IsPlaceholder() {
						emit("descriptor:placeholder", fp.GetName(), "import "+imp.Path()+" is a placeholder (not resolved when the file registered itself)")
					}
				}
				got := protodesc.ToFileDescriptorProto(fd)
				want := proto.Clone(fp).(interface {
					proto.Message
				})
				ck(proto.Equal(got, want), "descriptor:file", fp.GetName(), "registered file descriptor differs from the schema given to the generator")
			}
		}
	}
	// ---- (3) generic obligations on every message type of the linked packages
	g := val.New(*seed)
	g.Budget = 40
	g.Unknown = false // text format prints unknown fields in a form it does not parse back
	types := 0
	for _, md := range allMessages() {
		name := string(md.FullName())
		mt, err := protoregistry.GlobalTypes.FindMessageByName(md.FullName())
		ck(err == nil, "registry:message", name, fmt.Sprint(err))
		if err != nil {
			continue
		}
		types++
		m := mt.New().Interface()
		r := m.ProtoReflect()
		ck(r.Descriptor() == mt.Descriptor(), "type:descriptor-identity", name, "message reports a descriptor that is not the registry's")
		ck(r.Descriptor() == md, "type:descriptor-identity-files", name, "message descriptor is not the one in GlobalFiles")
		ck(r.Type().Descriptor() == mt.Descriptor(), "type:type-descriptor", name, "")
		goT := reflect.TypeOf(m)
		ck(reflect.TypeOf(r.Type().New().Interface()) == goT, "type:new", name, "Type().New() yields another Go type")
		ck(reflect.TypeOf(r.Type().Zero().Interface()) == goT, "type:zero", name, "Type().Zero() yields another Go type")
		ck(reflect.TypeOf(r.New().Interface()) == goT, "type:msgnew", name, "New() yields another Go type")
		ck(!r.Type().Zero().IsValid() && r.Type().New().IsValid(), "type:validity", name, "")
		ck(reflect.TypeOf(mt.New().Interface()) == goT && reflect.TypeOf(mt.Zero().Interface()) == goT, "type:registry-type", name, "")
		// every field's message / enum type is the registry's own descriptor, not a placeholder left
		// behind by an import that was not resolved when the file was registered
		for i := 0; i < md.Fields().Len(); i++ {
			fd := md.Fields().Get(i)
			var ref protoreflect.Descriptor
			switch {
			case fd.IsMap():
				if vm := fd.MapValue().Message(); vm != nil {
					ref = vm
				} else if ve := fd.MapValue().Enum(); ve != nil {
					ref = ve
				}
			case fd.Message() != nil:
				ref = fd.Message()
			case fd.Enum() != nil:
				ref = fd.Enum()
			}
			if ref == nil {
				continue
			}
			checks++
			if ref.IsPlaceholder() {
				emit("descriptor:placeholder", name+"."+string(fd.Name()), "field type "+string(ref.FullName())+" is a placeholder descriptor")
				continue
			}
			reg, err := protoregistry.GlobalFiles.FindDescriptorByName(ref.FullName())
			ck(err == nil && reg == ref, "descriptor:field-type-identity", name+"."+string(fd.Name()), "field type "+string(ref.FullName())+" is not the descriptor the registry holds")
		}
		// the deprecated Go API: Descriptor() ([]byte, []int) must lead to this very message
		if meth := reflect.ValueOf(m).MethodByName("Descriptor"); meth.IsValid() && meth.Type().NumIn() == 0 && meth.Type().NumOut() == 2 {
			checks++
			if pn := catch(func() {
				out := meth.Call(nil)
				got, err := legacyPath(out[0].Bytes(), out[1].Interface().([]int), false)
				ck(err == nil && got == name, "goapi:legacy-descriptor", name, fmt.Sprintf("Descriptor() path %v leads to %q (%v)", out[1].Interface(), got, err))
			}); pn != "" {
				emit("goapi:panic", name, "Descriptor(): "+pn)
			}
		}
		// the Go type registered under this name must be the type generated for this message
		ck(string(r.Descriptor().FullName()) == name, "type:wrong-go-type", name, fmt.Sprintf("registry maps %s to Go type %T, whose own descriptor is %s", name, m, r.Descriptor().FullName()))
		if string(r.Descriptor().FullName()) != name {
			continue
		}
		// Reset() and String() on values
		for i := 0; i < *n; i++ {
			d := g.Dynamic(md)
			v := mt.New().Interface()
			if pn := catch(func() { proj.Fill(proj.Impl(v), proj.Project(d.ProtoReflect(), proj.WrapNone), proj.WrapImpl) }); pn != "" {
				emit("goapi:panic", name, "cannot populate through struct reflection: "+pn)
				break
			}
			pn := catch(func() {
				if s, ok := v.(fmt.Stringer); ok {
					txt := s.String()
					back := mt.New().Interface()
					if err := prototext.Unmarshal([]byte(txt), back); err != nil {
						emit("string:unparsable", name, err.Error()+": "+trunc(txt, 200))
					} else if !proto.Equal(back, v) {
						emit("string:roundtrip", name, "String() parses back to a different message: "+trunc(txt, 200))
					}
					checks++
				} else {
					emit("string:missing", name, "")
				}
				if rs, ok := v.(interface{ Reset() }); ok {
					rs.Reset()
					checks++
					if proto.Size(v) != 0 || !proto.Equal(v, mt.New().Interface()) {
						emit("reset:not-empty", name, "")
					}
					empty := true
					v.ProtoReflect().Range(func(protoreflect.FieldDescriptor, protoreflect.Value) bool { empty = false; return false })
					if !empty || len(v.ProtoReflect().GetUnknown()) != 0 {
						emit("reset:not-empty", name, "fields remain after Reset()")
					}
				} else {
					emit("reset:missing", name, "")
				}
			})
			if pn != "" {
				emit("goapi:panic", name, pn)
			}
		}
	}
	// ... and EnumDescriptor() of every enum
	protoregistry.GlobalFiles.RangeFiles(func(fd protoreflect.FileDescriptor) bool {
		if !interesting(fd) {
			return true
		}
		var walkE func(es protoreflect.EnumDescriptors)
		walkE = func(es protoreflect.EnumDescriptors) {
			for i := 0; i < es.Len(); i++ {
				ed := es.Get(i)
				et, err := protoregistry.GlobalTypes.FindEnumByName(ed.FullName())
				if err != nil {
					continue
				}
				meth := reflect.ValueOf(et.New(0)).MethodByName("EnumDescriptor")
				if !meth.IsValid() || meth.Type().NumOut() != 2 {
					continue
				}
				checks++
				if pn := catch(func() {
					out := meth.Call(nil)
					got, err := legacyPath(out[0].Bytes(), out[1].Interface().([]int), true)
					ck(err == nil && got == string(ed.FullName()), "goapi:legacy-descriptor", string(ed.FullName()), fmt.Sprintf("EnumDescriptor() path %v leads to %q (%v)", out[1].Interface(), got, err))
				}); pn != "" {
					emit("goapi:panic", string(ed.FullName()), "EnumDescriptor(): "+pn)
				}
			}
		}
		var walkM func(ms protoreflect.MessageDescriptors)
		walkM = func(ms protoreflect.MessageDescriptors) {
			for i := 0; i < ms.Len(); i++ {
				walkE(ms.Get(i).Enums())
				walkM(ms.Get(i).Messages())
			}
		}
		walkE(fd.Enums())
		walkM(fd.Messages())
		return true
	})
	// ---- (4) the exported Go identifiers denote the entities their names say (surface_gen.go:
	// names by protoc-gen-go's rules computed from the request; values taken from the packages)
	for _, e := range surface {
		id := e.Pkg + "." + e.Go
		switch e.Kind {
		case "message":
			m, ok := e.V.(proto.Message)
			ck(ok, "surface:message", id, "not a proto.Message")
			if ok {
				got := m.ProtoReflect().Descriptor().FullName()
				ck(string(got) == e.Full, "surface:message", id, fmt.Sprintf("Go type denotes %s, the schema entity is %s", got, e.Full))
				mt, err := protoregistry.GlobalTypes.FindMessageByName(protoreflect.FullName(e.Full))
				if err == nil {
					ck(reflect.TypeOf(mt.Zero().Interface()) == reflect.TypeOf(e.V), "surface:message", id, fmt.Sprintf("registry maps %s to Go type %T", e.Full, mt.Zero().Interface()))
				}
			}
		case "enum":
			en, ok := e.V.(protoreflect.Enum)
			ck(ok, "surface:enum", id, "not a protoreflect.Enum")
			if ok {
				got := en.Descriptor().FullName()
				ck(string(got) == e.Full, "surface:enum", id, fmt.Sprintf("Go type denotes %s, the schema entity is %s", got, e.Full))
			}
		case "enumval":
			en, ok := e.V.(protoreflect.Enum)
			ck(ok, "surface:enumval", id, "not a protoreflect.Enum")
			if ok {
				ck(string(en.Descriptor().FullName()) == e.Full && int32(en.Number()) == e.Num, "surface:enumval", id,
					fmt.Sprintf("constant is %s(%d), the schema says %s(%d)", en.Descriptor().FullName(), en.Number(), e.Full, e.Num))
			}
		case "ext":
			xt, ok := e.V.(protoreflect.ExtensionType)
			ck(ok, "surface:ext", id, "not a protoreflect.ExtensionType")
			if ok {
				got := xt.TypeDescriptor().FullName()
				ck(string(got) == e.Full, "surface:ext", id, fmt.Sprintf("variable denotes extension %s, its name says %s", got, e.Full))
				rt, err := protoregistry.GlobalTypes.FindExtensionByName(protoreflect.FullName(e.Full))
				ck(err == nil && rt == xt, "surface:ext", id, fmt.Sprintf("the registry's extension type for %s is not this variable (%v)", e.Full, err))
				d, err := protoregistry.GlobalFiles.FindDescriptorByName(protoreflect.FullName(e.Full))
				if err == nil {
					xd, _ := d.(protoreflect.ExtensionDescriptor)
					ck(xd != nil && xt.TypeDescriptor().Descriptor() == xd, "surface:ext", id, "TypeDescriptor().Descriptor() is not the file's descriptor")
					if xd != nil {
						ck(xt.TypeDescriptor().ContainingMessage().FullName() == xd.ContainingMessage().FullName() && xt.TypeDescriptor().Number() == xd.Number(),
							"surface:ext", id, fmt.Sprintf("extends %s field %d, the schema says %s field %d", xt.TypeDescriptor().ContainingMessage().FullName(), xt.TypeDescriptor().Number(), xd.ContainingMessage().FullName(), xd.Number()))
					}
				}
			}
		}
	}
	b, _ := json.Marshal(map[string]any{"summary": true, "entities": entities, "files": files, "types": types, "checks": checks, "bad": bad, "surface": len(surface)})
	w.Write(b)
	w.WriteByte('\n')
}

// legacyPath resolves the (gzipped file descriptor, index path) pair of the deprecated
// Descriptor()/EnumDescriptor() methods to the full name of the declaration it designates.
func legacyPath(gz []byte, path []int, enum bool) (string, error) {
	zr, err := gzip.NewReader(bytes.NewReader(gz))
	if err != nil {
		return "", err
	}
	raw, err := io.ReadAll(zr)
	if err != nil {
		return "", err
	}
	fdp := &descriptorpb.FileDescriptorProto{}
	if err := proto.Unmarshal(raw, fdp); err != nil {
		return "", err
	}
	if len(path) == 0 {
		return "", fmt.Errorf("empty path")
	}
	name := fdp.GetPackage()
	msgs := fdp.MessageType
	enums := fdp.EnumType
	for k, idx := range path {
		last := k == len(path)-1
		if last && enum {
			if idx < 0 || idx >= len(enums) {
				return "", fmt.Errorf("enum index %d out of range at step %d", idx, k)
			}
			return strings.TrimPrefix(name+"."+enums[idx].GetName(), "."), nil
		}
		if idx < 0 || idx >= len(msgs) {
			return "", fmt.Errorf("message index %d out of range at step %d", idx, k)
		}
		m := msgs[idx]
		name = strings.TrimPrefix(name+"."+m.GetName(), ".")
		msgs, enums = m.NestedType, m.EnumType
	}
	return name, nil
}

// linkedGroup: some other file of the same Go package is registered, i.e. the package is linked
// into this binary (so the file itself should have been registered too).
func linkedGroup(fp *descriptorpb.FileDescriptorProto) bool {
	gp := fp.GetOptions().GetGoPackage()
	found := false
	protoregistry.GlobalFiles.RangeFiles(func(fd protoreflect.FileDescriptor) bool {
		if o, ok := fd.Options().(*descriptorpb.FileOptions); ok && o.GetGoPackage() == gp && fd.Path() != fp.GetName() {
			found = true
			return false
		}
		return true
	})
	return found
}
