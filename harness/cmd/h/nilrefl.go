package main

import (
	"encoding/json"
	"fmt"
	"reflect"

	"github.com/cosmos/cosmos-proto/zzverif/proj"
	"google.golang.org/protobuf/encoding/protojson"
	"google.golang.org/protobuf/encoding/prototext"
	"google.golang.org/protobuf/proto"
	"google.golang.org/protobuf/reflect/protoreflect"
	"google.golang.org/protobuf/reflect/protoregistry"
	"google.golang.org/protobuf/types/dynamicpb"
)

type nilLine struct {
	T    string `json:"t"`
	Ops  []ROp  `json:"ops"`
	Rets []any  `json:"rets"`
}

// nilOrigins returns the invalid (nil / read-only empty) messages of type md that can be
// obtained from generated code, labelled by how they arise.
func nilOrigins(md protoreflect.MessageDescriptor) map[string]func() protoreflect.Message {
	out := map[string]func() protoreflect.Message{}
	mt, err := protoregistry.GlobalTypes.FindMessageByName(md.FullName())
	if err != nil {
		return out
	}
	zero := mt.New().Interface()
	goT := reflect.TypeOf(zero)
	out["nilptr"] = func() protoreflect.Message {
		return reflect.Zero(goT).Interface().(proto.Message).ProtoReflect()
	}
	out["typezero"] = func() protoreflect.Message { return zero.ProtoReflect().Type().Zero() }
	// through a parent: Get of an unpopulated message field, nil list element, nil map value,
	// oneof wrapper holding nil
	for _, pmd := range allMessages() {
		pmt, err := protoregistry.GlobalTypes.FindMessageByName(pmd.FullName())
		if err != nil {
			continue
		}
		for i := 0; i < pmd.Fields().Len(); i++ {
			fd := pmd.Fields().Get(i)
			switch {
			case fd.IsMap() && fd.MapValue().Message() != nil && fd.MapValue().Message().FullName() == md.FullName():
				if _, ok := out["nilmapvalue"]; !ok {
					fd := fd
					out["nilmapvalue"] = func() protoreflect.Message {
						p := pmt.New().Interface()
						f := structField(p, fd)
						mv := reflect.MakeMap(f.Type())
						k := reflect.New(f.Type().Key()).Elem()
						mv.SetMapIndex(k, reflect.Zero(f.Type().Elem()))
						f.Set(mv)
						var got protoreflect.Message
						p.ProtoReflect().Get(fd).Map().Range(func(_ protoreflect.MapKey, v protoreflect.Value) bool { got = v.Message(); return false })
						return got
					}
				}
			case fd.IsList() && fd.Message() != nil && fd.Message().FullName() == md.FullName():
				if _, ok := out["nillistelem"]; !ok {
					fd := fd
					out["nillistelem"] = func() protoreflect.Message {
						p := pmt.New().Interface()
						f := structField(p, fd)
						f.Set(reflect.MakeSlice(f.Type(), 1, 1))
						return p.ProtoReflect().Get(fd).List().Get(0).Message()
					}
				}
			case !fd.IsList() && !fd.IsMap() && fd.Message() != nil && fd.Message().FullName() == md.FullName():
				fd := fd
				if fd.ContainingOneof() == nil {
					if _, ok := out["getunset"]; !ok {
						out["getunset"] = func() protoreflect.Message { return pmt.New().Get(fd).Message() }
					}
				} else {
					if _, ok := out["getunset-oneof"]; !ok {
						out["getunset-oneof"] = func() protoreflect.Message { return pmt.New().Get(fd).Message() }
					}
					if _, ok := out["getunset-oneof-sibling"]; !ok && fd.ContainingOneof().Fields().Len() > 1 {
						// another member of the same oneof is populated: Get of this member must still
						// be the empty read-only message
						var sib protoreflect.FieldDescriptor
						for k := 0; k < fd.ContainingOneof().Fields().Len(); k++ {
							if o := fd.ContainingOneof().Fields().Get(k); o.Number() != fd.Number() {
								sib = o
							}
						}
						out["getunset-oneof-sibling"] = func() protoreflect.Message {
							p := pmt.New()
							if sib.Message() != nil {
								p.Set(sib, p.NewField(sib))
							} else {
								p.Set(sib, p.NewField(sib)) // scalar default: a oneof member is populated even at zero
							}
							return p.Get(fd).Message()
						}
					}
					if _, ok := out["oneofnil"]; !ok {
						out["oneofnil"] = func() protoreflect.Message {
							p := pmt.New()
							p.Set(fd, p.NewField(fd))
							// replace the wrapped pointer by nil at struct level
							ov := reflect.ValueOf(p.Interface()).Elem()
							for j := 0; j < ov.NumField(); j++ {
								if ov.Field(j).Kind() == reflect.Interface && !ov.Field(j).IsNil() && ov.Type().Field(j).Tag.Get("protobuf_oneof") != "" {
									w := ov.Field(j).Elem() // *Wrapper
									w.Elem().Field(0).Set(reflect.Zero(w.Elem().Field(0).Type()))
								}
							}
							return p.Get(fd).Message()
						}
					}
				}
			}
		}
	}
	return out
}

// nilHolders builds, for message type md, parents that hold a nil *md in a map value, a list
// element or a oneof wrapper, together with a reference twin holding an EMPTY message instead.
func nilHolders(md protoreflect.MessageDescriptor) map[string]func() (proto.Message, proto.Message) {
	out := map[string]func() (proto.Message, proto.Message){}
	for _, pmd := range allMessages() {
		pmt, err := protoregistry.GlobalTypes.FindMessageByName(pmd.FullName())
		if err != nil {
			continue
		}
		for i := 0; i < pmd.Fields().Len(); i++ {
			fd := pmd.Fields().Get(i)
			pmd := pmd
			switch {
			case fd.IsMap() && fd.MapValue().Message() != nil && fd.MapValue().Message().FullName() == md.FullName():
				if _, ok := out["nilmapvalue"]; !ok {
					out["nilmapvalue"] = func() (proto.Message, proto.Message) {
						p := pmt.New().Interface()
						f := structField(p, fd)
						mv := reflect.MakeMap(f.Type())
						k := reflect.New(f.Type().Key()).Elem()
						mv.SetMapIndex(k, reflect.Zero(f.Type().Elem()))
						f.Set(mv)
						d := dynamicpb.NewMessage(pmd)
						dm := d.Mutable(fd).Map()
						dm.Set(fd.MapKey().Default().MapKey(), dm.NewValue())
						return p, d
					}
				}
			case fd.IsList() && fd.Message() != nil && fd.Message().FullName() == md.FullName():
				if _, ok := out["nillistelem"]; !ok {
					out["nillistelem"] = func() (proto.Message, proto.Message) {
						p := pmt.New().Interface()
						f := structField(p, fd)
						f.Set(reflect.MakeSlice(f.Type(), 2, 2))
						d := dynamicpb.NewMessage(pmd)
						dl := d.Mutable(fd).List()
						dl.Append(dl.NewElement())
						dl.Append(dl.NewElement())
						return p, d
					}
				}
			case !fd.IsList() && !fd.IsMap() && fd.Message() != nil && fd.Message().FullName() == md.FullName() && fd.ContainingOneof() != nil:
				if _, ok := out["oneofnil"]; !ok {
					out["oneofnil"] = func() (proto.Message, proto.Message) {
						p := pmt.New()
						p.Set(fd, p.NewField(fd))
						ov := reflect.ValueOf(p.Interface()).Elem()
						for j := 0; j < ov.NumField(); j++ {
							if ov.Field(j).Kind() == reflect.Interface && !ov.Field(j).IsNil() && ov.Type().Field(j).Tag.Get("protobuf_oneof") != "" {
								w := ov.Field(j).Elem()
								w.Elem().Field(0).Set(reflect.Zero(w.Elem().Field(0).Type()))
							}
						}
						d := dynamicpb.NewMessage(pmd)
						d.Set(fd, d.NewField(fd))
						return p.Interface(), d
					}
				}
			}
		}
	}
	return out
}

// structField finds the Go struct field backing fd (by its protobuf tag).
func structField(m proto.Message, fd protoreflect.FieldDescriptor) reflect.Value {
	v := reflect.ValueOf(m).Elem()
	want := fmt.Sprintf(",%d,", fd.Number())
	for i := 0; i < v.NumField(); i++ {
		tag := v.Type().Field(i).Tag.Get("protobuf")
		if tag != "" && containsTagNum(tag, want) {
			return v.Field(i)
		}
	}
	panic("no struct field for " + string(fd.FullName()))
}

func containsTagNum(tag, want string) bool {
	// tag looks like "bytes,17,opt,name=MESSAGE,proto3"
	for i := 0; i+len(want) <= len(tag); i++ {
		if tag[i:i+len(want)] == want {
			return true
		}
	}
	return false
}

// nilSuite runs the model's operation list on every invalid message of type line.T.
func nilSuite(line nilLine, emit func(reflVerdict)) (origins, checks int) {
	mt := findType(line.T)
	md := mt.Descriptor()
	// reference: dynamicpb's read-only zero message must satisfy the model too
	ref := dynamicpb.NewMessageType(md).Zero()
	for j, op := range line.Ops {
		if r := applyOp(ref, op, false); !retEq(r, line.Rets[j]) {
			o := op
			emit(reflVerdict{What: "nil:" + op.Op, Who: "dynamicpb", Read: &o, Obs: r, Want: line.Rets[j], Shape: "typezero/" + fieldShape(md, op)})
		}
	}
	for name, mk := range nilOrigins(md) {
		origins++
		for j, op := range line.Ops {
			checks++
			var m protoreflect.Message
			if pn := catch(func() { m = mk() }); pn != "" || m == nil {
				emit(reflVerdict{What: "nil:origin", Who: "pulsar", Obs: "cannot obtain: " + pn, Want: "invalid message", Shape: name})
				break
			}
			if r := applyOp(m, op, true); !retEq(r, line.Rets[j]) {
				o := op
				emit(reflVerdict{What: "nil:" + op.Op, Who: "pulsar", Read: &o, Obs: r, Want: line.Rets[j], Shape: name + "/" + fieldShape(md, op)})
			}
		}
		// generic library calls must treat it as an empty message, exactly as for the reference
		lib := func(what string, f func(m proto.Message) any) {
			checks++
			var got, want any
			pn := catch(func() { got = f(mk().Interface()) })
			catch(func() { want = f(dynamicpb.NewMessageType(md).Zero().Interface()) })
			gb, _ := json.Marshal(got)
			wb, _ := json.Marshal(want)
			if pn != "" || string(gb) != string(wb) {
				emit(reflVerdict{What: "nil:lib:" + what, Who: "pulsar", Obs: fmt.Sprintf("%s panic=%q", gb, pn), Want: string(wb), Shape: name})
			}
		}
		lib("Size", func(m proto.Message) any { return proto.Size(m) })
		lib("Marshal", func(m proto.Message) any { b, err := proto.Marshal(m); return []any{proj.Bytes(b), err == nil} })
		lib("MarshalDet", func(m proto.Message) any {
			b, err := proto.MarshalOptions{Deterministic: true}.Marshal(m)
			return []any{proj.Bytes(b), err == nil}
		})
		lib("MarshalAppend", func(m proto.Message) any {
			b, err := proto.MarshalOptions{}.MarshalAppend([]byte{7, 8, 9}, m)
			return []any{proj.Bytes(b), err == nil}
		})
		lib("EqualSelf", func(m proto.Message) any { return proto.Equal(m, m) })
		lib("EqualEmpty", func(m proto.Message) any { return proto.Equal(m, m.ProtoReflect().New().Interface()) })
		lib("Clone", func(m proto.Message) any {
			c := proto.Clone(m)
			return []any{c.ProtoReflect().IsValid(), proto.Size(c)}
		})
		lib("MergeFrom", func(m proto.Message) any {
			dst := m.ProtoReflect().New().Interface()
			proto.Merge(dst, m)
			return proto.Size(dst)
		})
		lib("CheckInitialized", func(m proto.Message) any { return proto.CheckInitialized(m) == nil })
		lib("protojson", func(m proto.Message) any { b, err := protojson.Marshal(m); return []any{len(b) > 0, err == nil} })
		lib("prototext", func(m proto.Message) any { b, err := prototext.Marshal(m); return []any{len(b), err == nil} })
		lib("IsValid", func(m proto.Message) any { return m.ProtoReflect().IsValid() })
		// stores: decoding INTO the invalid message must not succeed silently. The reference panics
		// when there is something to store and accepts an empty input; the outcome class (ok /
		// error / panic) must be the same. (Without the Merge option proto.Unmarshal resets the
		// target first, which panics for every implementation.)
		store := func(what string, data []byte) {
			checks++
			class := func(m func() proto.Message) string {
				var err error
				if pn := catch(func() { err = proto.UnmarshalOptions{Merge: true}.Unmarshal(data, m()) }); pn != "" {
					return "panic"
				}
				if err != nil {
					return "error"
				}
				return "ok"
			}
			got := class(func() proto.Message { return mk().Interface() })
			want := class(func() proto.Message { return dynamicpb.NewMessageType(md).Zero().Interface() })
			if got != want {
				emit(reflVerdict{What: "nil:store:" + what, Who: "pulsar", Obs: got, Want: want + " (data must not be dropped silently)", Shape: name})
			}
		}
		store("MergeUnmarshalEmpty", nil)
		store("MergeUnmarshalUnknown", validUnknown(md, 2))
		if data := oneKnownField(md); data != nil {
			store("MergeUnmarshalKnown", data)
		}
	}
	// a parent holding the nil message must encode, size, compare and print as if it held an
	// empty message (C09 read safety; C02/C04 byte level)
	for name, mk := range nilHolders(md) {
		checks++
		var note string
		pn := catch(func() {
			p, d := mk()
			want, _ := proto.MarshalOptions{Deterministic: true}.Marshal(d)
			got, err := proto.MarshalOptions{Deterministic: true}.Marshal(p)
			if err != nil {
				note = "Marshal: " + err.Error()
			} else if string(got) != string(want) {
				note = fmt.Sprintf("parent bytes %x, reference %x", got, want)
			}
			if n := proto.Size(p); n != len(want) {
				note += fmt.Sprintf(" Size=%d want %d", n, len(want))
			}
			if !proto.Equal(p, d) || !proto.Equal(d, p) {
				note += " parent with nil element is not Equal to the reference holding an empty message"
			}
			c := proto.Clone(p)
			if !proto.Equal(c, d) {
				note += " Clone differs"
			}
			_ = fmt.Sprint(p)
			if _, err := protojson.Marshal(p); err != nil {
				note += " protojson: " + err.Error()
			}
			back := p.ProtoReflect().New().Interface()
			if err := proto.Unmarshal(got, back); err != nil || !proto.Equal(back, d) {
				note += " round trip of the parent differs"
			}
		})
		if pn != "" {
			note += " panic: " + pn
		}
		if note != "" {
			emit(reflVerdict{What: "nil:holder", Who: "pulsar", Obs: note, Want: "as the reference with an empty message", Shape: name})
		}
	}
	return
}

// oneKnownField encodes a message of type md with its first scalar field set to a non-default value.
func oneKnownField(md protoreflect.MessageDescriptor) []byte {
	for i := 0; i < md.Fields().Len(); i++ {
		fd := md.Fields().Get(i)
		if fd.IsList() || fd.IsMap() || fd.Message() != nil {
			continue
		}
		d := dynamicpb.NewMessage(md)
		switch fd.Kind() {
		case protoreflect.StringKind:
			d.Set(fd, protoreflect.ValueOfString("x"))
		case protoreflect.BytesKind:
			d.Set(fd, protoreflect.ValueOfBytes([]byte{1}))
		case protoreflect.BoolKind:
			d.Set(fd, protoreflect.ValueOfBool(true))
		case protoreflect.EnumKind:
			d.Set(fd, protoreflect.ValueOfEnum(1))
		case protoreflect.FloatKind:
			d.Set(fd, protoreflect.ValueOfFloat32(1))
		case protoreflect.DoubleKind:
			d.Set(fd, protoreflect.ValueOfFloat64(1))
		case protoreflect.Int32Kind, protoreflect.Sint32Kind, protoreflect.Sfixed32Kind:
			d.Set(fd, protoreflect.ValueOfInt32(1))
		case protoreflect.Int64Kind, protoreflect.Sint64Kind, protoreflect.Sfixed64Kind:
			d.Set(fd, protoreflect.ValueOfInt64(1))
		case protoreflect.Uint32Kind, protoreflect.Fixed32Kind:
			d.Set(fd, protoreflect.ValueOfUint32(1))
		case protoreflect.Uint64Kind, protoreflect.Fixed64Kind:
			d.Set(fd, protoreflect.ValueOfUint64(1))
		default:
			continue
		}
		b, err := proto.Marshal(d)
		if err == nil && len(b) > 0 {
			return b
		}
	}
	return nil
}
