package main

import (
	"bufio"
	"bytes"
	"encoding/json"
	"flag"
	"fmt"
	"math/rand"
	"os"
	"strings"
	"sync"
	"sync/atomic"

	pulsarrt "github.com/cosmos/cosmos-proto/runtime"
	"github.com/cosmos/cosmos-proto/zzverif/proj"
	"google.golang.org/protobuf/encoding/protowire"
	"google.golang.org/protobuf/proto"
	"google.golang.org/protobuf/types/dynamicpb"
)

func init() {
	extraCmds["varint-replay"] = cmdVarintReplay
	extraCmds["varint-sweep"] = cmdVarintSweep
}

// checkWord runs the three helpers on x against the expected varint bytes / sizes.
func checkWord(x uint64, wantVarint []byte, wantSov, wantSoz int) string {
	var note string
	p := catch(func() {
		if n := pulsarrt.Sov(x); n != wantSov {
			note += fmt.Sprintf("Sov=%d want %d; ", n, wantSov)
		}
		if n := pulsarrt.Soz(x); n != wantSoz {
			note += fmt.Sprintf("Soz=%d want %d; ", n, wantSoz)
		}
		for _, size := range []int{len(wantVarint), len(wantVarint) + 1, 32} {
			for off := len(wantVarint); off <= size; off++ {
				buf := bytes.Repeat([]byte{0xAA}, size)
				base := pulsarrt.EncodeVarint(buf, off, x)
				if base != off-len(wantVarint) {
					note += fmt.Sprintf("EncodeVarint(off=%d) base=%d want %d; ", off, base, off-len(wantVarint))
					continue
				}
				if !bytes.Equal(buf[base:off], wantVarint) {
					note += fmt.Sprintf("EncodeVarint(off=%d) wrote %x want %x; ", off, buf[base:off], wantVarint)
				}
				for i, c := range buf {
					if (i < base || i >= off) && c != 0xAA {
						note += fmt.Sprintf("EncodeVarint(off=%d) touched byte %d; ", off, i)
						break
					}
				}
			}
		}
	})
	if p != "" {
		note += "panic: " + p
	}
	return note
}

func cmdVarintReplay(args []string) {
	fs := flag.NewFlagSet("varint-replay", flag.ExitOnError)
	in := fs.String("in", "", "WORD lines exported by MC_Digits")
	out := fs.String("out", "", "verdicts")
	fs.Parse(args)
	f, err := os.Open(*in)
	if err != nil {
		die("%v", err)
	}
	defer f.Close()
	of, _ := os.Create(*out)
	defer of.Close()
	w := bufio.NewWriter(of)
	defer w.Flush()
	sc := bufio.NewScanner(f)
	n, bad := 0, 0
	for sc.Scan() {
		line := sc.Text()
		if !strings.HasPrefix(line, "WORD ") {
			continue
		}
		var e struct {
			D      []int `json:"d"`
			Varint []int `json:"varint"`
			Sov    int   `json:"sov"`
			Zz     []int `json:"zz"`
			Soz    int   `json:"soz"`
		}
		if err := json.Unmarshal([]byte(line[5:]), &e); err != nil {
			die("word: %v", err)
		}
		n++
		x := proj.FromDigits(e.D)
		note := checkWord(x, proj.ToBytes(e.Varint), e.Sov, e.Soz)
		// the model against protowire (spec sanity, reported as INTERNAL by the driver)
		if !bytes.Equal(protowire.AppendVarint(nil, x), proj.ToBytes(e.Varint)) || protowire.SizeVarint(x) != e.Sov ||
			protowire.EncodeZigZag(int64(x)) != proj.FromDigits(e.Zz) || protowire.SizeVarint(protowire.EncodeZigZag(int64(x))) != e.Soz {
			note += "INTERNAL spec/protowire disagree; "
		}
		if note != "" {
			bad++
			b, _ := json.Marshal(map[string]any{"kind": "varint", "in": e.D, "note": note})
			w.Write(b)
			w.WriteByte('\n')
		}
	}
	b, _ := json.Marshal(map[string]any{"summary": true, "words": n, "bad": bad})
	w.Write(b)
	w.WriteByte('\n')
}

// cmdVarintSweep compares Sov/Soz with protowire over [lo, hi) with a stride, in parallel, and
// writes a random sample of observations as trace events for TLC (Trace_Varint).
func cmdVarintSweep(args []string) {
	fs := flag.NewFlagSet("varint-sweep", flag.ExitOnError)
	lo := fs.Uint64("lo", 0, "")
	hi := fs.Uint64("hi", 1<<32, "")
	stride := fs.Uint64("stride", 1, "")
	sample := fs.Int("sample", 1000, "events to record")
	seed := fs.Int64("seed", 1, "")
	out := fs.String("out", "", "events ndjson")
	verd := fs.String("verdicts", "", "verdicts ndjson")
	fs.Parse(args)
	var bad atomic.Int64
	var firstBad atomic.Uint64
	var wg sync.WaitGroup
	workers := 16
	span := (*hi - *lo) / uint64(workers)
	var total atomic.Int64
	for wk := 0; wk < workers; wk++ {
		wg.Add(1)
		go func(wk int) {
			defer wg.Done()
			a := *lo + uint64(wk)*span
			b := a + span
			if wk == workers-1 {
				b = *hi
			}
			cnt := int64(0)
			for x := a; x < b; x += *stride {
				// low 32-bit range, the same pattern in the high half, and sign-extended
				for _, y := range [3]uint64{x, x << 32, uint64(int64(int32(uint32(x))))} {
					if pulsarrt.Sov(y) != protowire.SizeVarint(y) || pulsarrt.Soz(y) != protowire.SizeVarint(protowire.EncodeZigZag(int64(y))) {
						if bad.Add(1) == 1 {
							firstBad.Store(y)
						}
					}
				}
				cnt += 3
			}
			total.Add(cnt)
		}(wk)
	}
	wg.Wait()
	of, _ := os.Create(*out)
	defer of.Close()
	w := bufio.NewWriter(of)
	defer w.Flush()
	r := rand.New(rand.NewSource(*seed))
	for i := 0; i < *sample; i++ {
		var x uint64
		switch i % 4 {
		case 0:
			x = *lo + r.Uint64()%(*hi-*lo)
		case 1:
			x = r.Uint64()
		case 2:
			x = r.Uint64() >> uint(r.Intn(64))
		default:
			x = uint64(int64(int32(r.Uint32())))
		}
		buf := bytes.Repeat([]byte{0xAA}, 24)
		off := 10 + r.Intn(14)
		base := -1
		pn := catch(func() { base = pulsarrt.EncodeVarint(buf, off, x) })
		ev := map[string]any{"ev": "varint", "d": proj.Digits64(x), "sov": pulsarrt.Sov(x), "soz": pulsarrt.Soz(x), "off": off, "base": base, "frame": proj.Bytes(buf), "panic": pn}
		b, _ := json.Marshal(ev)
		w.Write(b)
		w.WriteByte('\n')
	}
	vf, _ := os.Create(*verd)
	defer vf.Close()
	if bad.Load() > 0 {
		b, _ := json.Marshal(map[string]any{"kind": "sweep", "in": proj.Digits64(firstBad.Load()), "note": fmt.Sprintf("%d values where Sov/Soz differ from protowire, first %d", bad.Load(), firstBad.Load())})
		vf.Write(append(b, '\n'))
	}
	b, _ := json.Marshal(map[string]any{"summary": true, "evaluated": total.Load(), "bad": bad.Load()})
	vf.Write(append(b, '\n'))
}

func init() { extraCmds["skip-sweep"] = cmdSkipSweep }

// groupDepthLimit: the deepest nesting of groups protowire.ConsumeField (and with it every
// protobuf-go decoder's handling of unknown groups) accepts: a budget of 10000 levels below the
// outermost record.
const groupDepthLimit = 10001

// cmdSkipSweep: well-formed records built from a description (field number, wire type, payload
// length / varint width), each followed by trailing bytes; runtime.Skip must return exactly the
// record's length, and a message type that does not declare the field must store the record
// byte for byte as unknown and re-emit it. Validated by spec/Trace_Skip.tla.
func cmdSkipSweep(args []string) {
	fs := flag.NewFlagSet("skip-sweep", flag.ExitOnError)
	typ := fs.String("type", "ImportedMessage", "message type to decode the records into (as unknown fields)")
	maxLen := fs.Int("maxlen", 1100, "every payload length 0..maxlen")
	seed := fs.Int64("seed", 1, "")
	out := fs.String("out", "", "events ndjson")
	fs.Parse(args)
	mt := findType(*typ)
	md := mt.Descriptor()
	of, _ := os.Create(*out)
	defer of.Close()
	w := bufio.NewWriterSize(of, 1<<20)
	defer w.Flush()
	r := rand.New(rand.NewSource(*seed))
	// field numbers of every tag width that the type does not declare
	var nums []int
	// (19000..19999 cannot be declared in a .proto file but are ordinary numbers on the wire)
	for _, n := range []int{1, 15, 16, 2047, 2048, 18999, 19000, 19999, 20000, 262143, 262144, 33554431, 33554432, 536870911} {
		for md.Fields().ByNumber(protowire.Number(n)) != nil || md.ReservedRanges().Has(protowire.Number(n)) {
			n--
		}
		if n >= 1 {
			nums = append(nums, n)
		}
	}
	tpad := 0 // set by the caller for records whose tag varint is padded
	emit := func(num, wt, n, vlen int, d uint64, rec []byte) {
		trailer := []byte{0x08, 0x96, 0x01, 0xff}[:r.Intn(5)]
		buf := append(append([]byte(nil), rec...), trailer...)
		ev := map[string]any{"ev": "skiprec", "num": num, "wt": wt, "n": n, "nd": proj.Digits64(uint64(n)), "vlen": vlen, "d": proj.Digits64(d), "tpad": tpad,
			"reclen": len(rec), "got": 0, "err": false, "panic": "", "unk_ok": true, "note": ""}
		var got int
		var err error
		ev["panic"] = catch(func() { got, err = pulsarrt.Skip(buf) })
		ev["got"], ev["err"] = got, err != nil
		// stored as unknown, alone and followed by a second (varint) record of another unknown field
		note := ""
		if pn := catch(func() {
			for _, in := range [][]byte{rec, append(append([]byte(nil), rec...), protowire.AppendVarint(protowire.AppendTag(nil, protowire.Number(nums[len(nums)-1]), protowire.VarintType), 300)...)} {
				m := mt.New().Interface()
				if wt == 3 && n > groupDepthLimit {
					// nested deeper than the reference decoders' budget: the outcome of decoding is
					// the reference's (Skip itself is left unconstrained by Trace_Skip)
					err, rerr := proto.Unmarshal(in, m), proto.Unmarshal(in, dynamicpb.NewMessage(md))
					if (err == nil) != (rerr == nil) {
						note += fmt.Sprintf("unmarshal: %v, reference: %v; ", err, rerr)
					}
					continue
				}
				if err := proto.Unmarshal(in, m); err != nil {
					note += "unmarshal: " + err.Error() + "; "
					continue
				}
				if !bytes.Equal(m.ProtoReflect().GetUnknown(), in) {
					note += fmt.Sprintf("unknown set has %d bytes, record(s) %d; ", len(m.ProtoReflect().GetUnknown()), len(in))
				}
				if b, err := proto.Marshal(m); err != nil || !bytes.Equal(b, in) {
					note += "re-marshal differs; "
				}
			}
		}); pn != "" {
			note += "panic: " + pn
		}
		ev["unk_ok"], ev["note"] = note == "", trunc(note, 200)
		b, _ := json.Marshal(ev)
		w.Write(b)
		w.WriteByte('\n')
	}
	bytesRec := func(num, n int) []byte {
		rec := protowire.AppendTag(nil, protowire.Number(num), protowire.BytesType)
		rec = protowire.AppendVarint(rec, uint64(n))
		p := make([]byte, n)
		for i := range p {
			p[i] = byte(0x80 | i) // continuation-looking filler
		}
		return append(rec, p...)
	}
	for n := 0; n <= *maxLen; n++ {
		for _, num := range []int{nums[0], nums[2], nums[len(nums)-1]} {
			emit(num, 2, n, 0, 0, bytesRec(num, n))
		}
	}
	for _, n := range []int{16382, 16383, 16384, 16385, 2097151, 2097152} {
		for _, num := range nums {
			emit(num, 2, n, 0, 0, bytesRec(num, n))
		}
	}
	// varint values of every width, minimal and padded to every longer valid width
	for k := 0; k < 64; k++ {
		for _, d := range []uint64{1<<uint(k) - 1, 1 << uint(k), 1<<uint(k) + 1, ^uint64(0) >> uint(k)} {
			min := protowire.SizeVarint(d)
			for vlen := min; vlen <= 10; vlen++ {
				if vlen > min && r.Intn(3) > 0 {
					continue
				}
				num := nums[r.Intn(len(nums))]
				rec := protowire.AppendTag(nil, protowire.Number(num), protowire.VarintType)
				v := protowire.AppendVarint(nil, d)
				for len(v) < vlen { // pad: set the continuation bit of the last byte, append zero groups
					v[len(v)-1] |= 0x80
					v = append(v, 0)
				}
				emit(num, 0, 0, vlen, d, append(rec, v...))
			}
		}
	}
	// non-minimal TAG varints (valid wire data): 1..3 extra continuation groups, every wire type
	padTag := func(num int, wt protowire.Type, extra int) []byte {
		t := protowire.AppendTag(nil, protowire.Number(num), wt)
		for i := 0; i < extra; i++ {
			t[len(t)-1] |= 0x80
			t = append(t, 0)
		}
		return t
	}
	for _, num := range nums {
		for extra := 1; extra <= 3; extra++ {
			tpad = extra
			emit(num, 0, 0, 2, 300, protowire.AppendVarint(padTag(num, protowire.VarintType, extra), 300))
			emit(num, 2, 5, 0, 0, protowire.AppendBytes(padTag(num, protowire.BytesType, extra), []byte{1, 2, 3, 4, 0x85}))
			emit(num, 1, 0, 0, 0, append(padTag(num, protowire.Fixed64Type, extra), 1, 2, 3, 4, 5, 6, 7, 0x80))
			emit(num, 5, 0, 0, 0, append(padTag(num, protowire.Fixed32Type, extra), 0xff, 0xff, 0xff, 0xff))
		}
	}
	tpad = 0
	// every small field number with the two fixed-width wire types (one- and two-byte tags)
	for num := 1; num <= 80; num++ {
		if md.Fields().ByNumber(protowire.Number(num)) != nil || md.ReservedRanges().Has(protowire.Number(num)) {
			continue
		}
		emit(num, 1, 0, 0, 0, append(protowire.AppendTag(nil, protowire.Number(num), protowire.Fixed64Type), 0x80, 0x81, 3, 4, 5, 6, 7, 0x80))
		emit(num, 5, 0, 0, 0, append(protowire.AppendTag(nil, protowire.Number(num), protowire.Fixed32Type), 0x80, 0xff, 0xff, 0xff))
	}
	// groups: k start tags, `inner` one-byte varint records of field 1, k end tags. Every depth
	// up to the reference budget must be skipped exactly (described as wt = 3, n = k, vlen = inner);
	// every second one is preceded by a call on an ill-formed input that leaves groups open -- what
	// one call did must not change the next
	groupRec := func(num, k, inner int) []byte {
		var rec []byte
		for i := 0; i < k; i++ {
			rec = protowire.AppendTag(rec, protowire.Number(num), protowire.StartGroupType)
		}
		for i := 0; i < inner; i++ {
			rec = append(rec, 0x08, 0x01)
		}
		for i := 0; i < k; i++ {
			rec = protowire.AppendTag(rec, protowire.Number(num), protowire.EndGroupType)
		}
		return rec
	}
	gi := 0
	for _, k := range []int{1, 2, 3, 4, 31, 32, 33, 63, 64, 65, 99, 100, 101, 102, 127, 128, 129, 255, 256, 257, 999, 1000, 1001, 4096, 9999, 10000, groupDepthLimit, groupDepthLimit + 1, groupDepthLimit + 2, 20000} {
		for _, num := range []int{nums[0], nums[2], nums[len(nums)-1]} {
			if k > 1001 && num != nums[0] && num != nums[2] {
				continue
			}
			for _, inner := range []int{0, 1, 3} {
				if gi++; gi%2 == 0 {
					catch(func() {
						pulsarrt.Skip([]byte{0x2b, 0x33, 0x08, 0x01})
						proto.Unmarshal(append(protowire.AppendTag(nil, protowire.Number(num), protowire.StartGroupType), 0x2b, 0x08), mt.New().Interface())
					})
				}
				emit(num, 3, k, inner, 0, groupRec(num, k, inner))
			}
		}
	}
	for _, num := range nums {
		emit(num, 1, 0, 0, 0, append(protowire.AppendTag(nil, protowire.Number(num), protowire.Fixed64Type), 1, 2, 3, 4, 5, 6, 7, 0x80))
		emit(num, 5, 0, 0, 0, append(protowire.AppendTag(nil, protowire.Number(num), protowire.Fixed32Type), 0xff, 0xff, 0xff, 0xff))
	}
}
