package main

import (
	"bufio"
	"encoding/json"
	"flag"
	"fmt"
	"math"
	"math/rand"
	"os"
	"strings"
	"time"

	"github.com/cosmos/cosmos-proto/support/timepb"
	"github.com/cosmos/cosmos-proto/zzverif/proj"
	"google.golang.org/protobuf/types/known/durationpb"
	"google.golang.org/protobuf/types/known/timestamppb"
)

func init() {
	extraCmds["timepb-replay"] = cmdTimepbReplay
	extraCmds["timepb-record"] = cmdTimepbRecord
}

type addObs struct {
	S     int64
	N     int32
	Panic bool
	Fresh bool // result pointer differs from the input and the inputs are unchanged
}

func doAdd(t *timestamppb.Timestamp, d *durationpb.Duration) (o addObs) {
	t0 := &timestamppb.Timestamp{Seconds: t.Seconds, Nanos: t.Nanos}
	d0 := &durationpb.Duration{Seconds: d.Seconds, Nanos: d.Nanos}
	defer func() {
		if r := recover(); r != nil {
			o.Panic = true
		}
		o.Fresh = o.Fresh && t.Seconds == t0.Seconds && t.Nanos == t0.Nanos && d.Seconds == d0.Seconds && d.Nanos == d0.Nanos
	}()
	r := timepb.Add(t, d)
	o.S, o.N = r.Seconds, r.Nanos
	o.Fresh = r != t
	return
}

func doAddStd(t *timestamppb.Timestamp, d time.Duration) (o addObs) {
	defer func() {
		if r := recover(); r != nil {
			o.Panic = true
		}
	}()
	r := timepb.AddStd(t, d)
	o.S, o.N = r.Seconds, r.Nanos
	o.Fresh = r != t
	return
}

// cmdTimepbReplay: scaled cases of TimePB.tla (NS = 4) replayed with nanos scaled by 10^9/4.
func cmdTimepbReplay(args []string) {
	fs := flag.NewFlagSet("timepb-replay", flag.ExitOnError)
	in := fs.String("in", "", "CASE lines")
	out := fs.String("out", "", "verdicts")
	fs.Parse(args)
	f, err := os.Open(*in)
	if err != nil {
		die("%v", err)
	}
	defer f.Close()
	of, _ := os.Create(*out)
	defer of.Close()
	w := bufio.NewWriter(of)
	defer w.Flush()
	n, bad := 0, 0
	emit := func(kind, note string, c any) {
		bad++
		b, _ := json.Marshal(map[string]any{"kind": kind, "note": note, "case": c})
		w.Write(b)
		w.WriteByte('\n')
	}
	const scale = 250000000
	sc := bufio.NewScanner(f)
	for sc.Scan() {
		line := sc.Text()
		if !strings.HasPrefix(line, "CASE ") {
			continue
		}
		var c struct {
			Ts, Tn, Ds, Dn int64
			Want           struct {
				S, N  int64
				Panic bool
			}
			Valid bool
		}
		if err := json.Unmarshal([]byte(line[5:]), &c); err != nil {
			die("case: %v", err)
		}
		n++
		// the scaled model's overflow region does not map to int64 overflow; replay only
		// representable sums here (real overflow is exercised by timepb-record)
		if c.Want.Panic {
			continue
		}
		t := &timestamppb.Timestamp{Seconds: c.Ts, Nanos: int32(c.Tn * scale)}
		d := &durationpb.Duration{Seconds: c.Ds, Nanos: int32(c.Dn * scale)}
		o := doAdd(t, d)
		switch {
		case o.Panic:
			emit("add:panic", "Add panicked on a representable sum", c)
		case o.S != c.Want.S || int64(o.N) != c.Want.N*scale:
			kind := "add:value"
			if o.N < 0 || o.N >= 1e9 {
				kind = "add:not-normalised"
			}
			emit(kind, fmt.Sprintf("Add = (%d, %d), want (%d, %d)", o.S, o.N, c.Want.S, c.Want.N*scale), c)
		case !o.Fresh:
			emit("add:not-fresh", "Add returned its input or modified it", c)
		}
		// AddStd with the same duration
		sd := time.Duration(c.Ds)*time.Second + time.Duration(c.Dn*scale)
		os := doAddStd(t, sd)
		if os.Panic || os.S != c.Want.S || int64(os.N) != c.Want.N*scale || !os.Fresh {
			emit("addstd", fmt.Sprintf("AddStd = %+v, want (%d, %d)", os, c.Want.S, c.Want.N*scale), c)
		}
		// Compare against the instants
		t2 := &timestamppb.Timestamp{Seconds: c.Want.S, Nanos: int32(c.Want.N * scale)}
		cmp := timepb.Compare(t, t2)
		wantCmp := 0
		if c.Ds < 0 || (c.Ds == 0 && c.Dn < 0) {
			wantCmp = 1
		} else if c.Ds > 0 || c.Dn > 0 {
			wantCmp = -1
		}
		if cmp != wantCmp || timepb.Compare(t2, t) != -wantCmp || timepb.Compare(t, t) != 0 {
			emit("compare", fmt.Sprintf("Compare(t, t+d) = %d, want %d", cmp, wantCmp), c)
		}
	}
	b, _ := json.Marshal(map[string]any{"summary": true, "cases": n, "bad": bad})
	w.Write(b)
	w.WriteByte('\n')
}

// cmdTimepbRecord records real-scale executions (boundaries of every carry/borrow, the extremes
// of both valid ranges, and int64 extremes for overflow) as trace events for Trace_TimePB.
func cmdTimepbRecord(args []string) {
	fs := flag.NewFlagSet("timepb-record", flag.ExitOnError)
	n := fs.Int("n", 2000, "")
	seed := fs.Int64("seed", 1, "")
	out := fs.String("out", "", "events")
	fs.Parse(args)
	of, _ := os.Create(*out)
	defer of.Close()
	w := bufio.NewWriter(of)
	defer w.Flush()
	r := rand.New(rand.NewSource(*seed))
	const tsMin, tsMax = -62135596800, 253402300799
	const dMax = 315576000000
	secsT := []int64{tsMin, tsMin + 1, -1, 0, 1, 1700000000, tsMax - 1, tsMax}
	secsD := []int64{-dMax, -dMax + 1, -1, 0, 1, 86400, dMax - 1, dMax}
	wild := []int64{math.MaxInt64, math.MaxInt64 - 1, math.MinInt64, math.MinInt64 + 1, math.MaxInt64 / 2, math.MinInt64 / 2}
	nanosT := []int32{0, 1, 2, 499999999, 500000000, 999999998, 999999999}
	nanosD := []int32{0, 1, 2, 500000000, 999999998, 999999999}
	for i := 0; i < *n; i++ {
		var ts, ds int64
		var tn, dn int32
		valid := true
		switch i % 4 {
		case 0, 1:
			ts, ds = secsT[r.Intn(len(secsT))], secsD[r.Intn(len(secsD))]
		case 2:
			ts = tsMin + r.Int63n(tsMax-tsMin)
			ds = -dMax + r.Int63n(2*dMax)
		default: // overflow territory: arbitrary int64 seconds
			valid = false
			ts, ds = wild[r.Intn(len(wild))], wild[r.Intn(len(wild))]
			if r.Intn(2) == 0 {
				ds = []int64{0, 1, -1, 2, -2}[r.Intn(5)]
			}
		}
		if r.Intn(3) == 0 {
			tn = int32(r.Int63n(1e9))
		} else {
			tn = nanosT[r.Intn(len(nanosT))]
		}
		if r.Intn(3) == 0 {
			dn = int32(r.Int63n(1e9))
		} else {
			dn = nanosD[r.Intn(len(nanosD))]
		}
		// a valid duration's nanos carry the sign of its seconds
		if ds < 0 || (ds == 0 && r.Intn(2) == 0) {
			dn = -dn
		}
		// the extremes of time.Duration itself (AddStd's argument type): split exactly into
		// seconds and nanos with integer division
		var stdDur *time.Duration
		if i%7 == 6 {
			pool := []time.Duration{math.MinInt64, math.MinInt64 + 1, math.MaxInt64, math.MaxInt64 - 1, -1, 1, -999999999, 999999999, -1000000000, 1000000000,
				-1000000001, 1 << 62, -(1 << 62), math.MinInt64 + 854775808, math.MaxInt64 - 854775807}
			sd := pool[r.Intn(len(pool))]
			stdDur = &sd
			valid = true
			ts = secsT[1+r.Intn(len(secsT)-2)]
			ds, dn = int64(sd)/1000000000, int32(int64(sd)%1000000000)
		}
		t := &timestamppb.Timestamp{Seconds: ts, Nanos: tn}
		d := &durationpb.Duration{Seconds: ds, Nanos: dn}
		o := doAdd(t, d)
		ev := map[string]any{"ev": "add", "ts": proj.Digits64(uint64(ts)), "tn": tn, "ds": proj.Digits64(uint64(ds)), "dn": dn,
			"rs": proj.Digits64(uint64(o.S)), "rn": o.N, "panic": o.Panic, "fresh": o.Fresh, "valid": valid}
		// AddStd agreement where d is expressible as a time.Duration and t is a valid Timestamp
		if valid && (stdDur != nil || (ds > -9223372036 && ds < 9223372036)) {
			sd := time.Duration(ds)*time.Second + time.Duration(dn)
			if stdDur != nil {
				sd = *stdDur
			}
			os := doAddStd(t, sd)
			ev["std"] = true
			ev["std_s"] = proj.Digits64(uint64(os.S))
			ev["std_n"] = os.N
			ev["std_panic"] = os.Panic
		} else {
			ev["std"] = false
			ev["std_s"] = proj.Digits64(0)
			ev["std_n"] = 0
			ev["std_panic"] = false
		}
		b, _ := json.Marshal(ev)
		w.Write(b)
		w.WriteByte('\n')
	}
}
