package main

import (
	"bufio"
	"bytes"
	"encoding/json"
	"flag"
	"fmt"
	"os"
	"strings"

	"github.com/cosmos/cosmos-proto/zzverif/proj"
	"google.golang.org/protobuf/proto"
	"google.golang.org/protobuf/reflect/protoreflect"
	"google.golang.org/protobuf/types/dynamicpb"
)

func init() { extraCmds["codec-replay"] = cmdCodecReplay }

// An edge of the decoder machine's state graph as exported by MC_Codec.
type edge struct {
	P    []int `json:"p"`
	I    int   `json:"i"`
	To   any   `json:"to"`
	Enc  []int `json:"enc"`
	Size int   `json:"size"`
	Dto  any   `json:"dto"` // target state with unknown fields stripped at every depth
}

type edgeVerdict struct {
	N       int    `json:"n"`
	P       []int  `json:"p"`
	I       int    `json:"i"`
	Shape   string `json:"shape"`
	Ref     bool   `json:"ref"`    // the reference (dynamicpb) reaches the model's target state
	Fresh   bool   `json:"fresh"`  // pulsar Unmarshal(path ++ record) reaches it
	Merge   bool   `json:"merge"`  // pulsar Unmarshal(path) then Merge-Unmarshal(record) reaches it
	Fast    bool   `json:"fast"`   // pulsar's own reflection shows the same state
	Enc     bool   `json:"enc"`    // deterministic bytes of the decoded message = model bytes
	Size    bool   `json:"size"`   // proto.Size = model size
	RefEnc  bool   `json:"refenc"` // reference deterministic bytes = model bytes
	RT      bool   `json:"rt"`     // pulsar's own bytes decode (pulsar) to the same state again
	Disc    bool   `json:"disc"`   // pulsar DiscardUnknown decode = model state stripped of unknowns
	RefDisc bool   `json:"refdisc"`
	Note    string `json:"note,omitempty"`
}

func shapeOf(md protoreflect.MessageDescriptor, rec []byte) string {
	if len(rec) == 0 {
		return "empty"
	}
	// field number from the tag varint
	var tag uint64
	for i, c := range rec {
		tag |= uint64(c&0x7f) << (7 * uint(i))
		if c < 0x80 {
			break
		}
	}
	fd := md.Fields().ByNumber(protoreflect.FieldNumber(tag >> 3))
	if fd == nil {
		return fmt.Sprintf("unknown/wt%d", tag&7)
	}
	switch {
	case fd.IsMap():
		return "map/" + fd.MapKey().Kind().String() + "->" + fd.MapValue().Kind().String()
	case fd.IsList():
		return "rep/" + fd.Kind().String()
	case fd.ContainingOneof() != nil:
		return "oneof/" + fd.Kind().String()
	}
	return "one/" + fd.Kind().String()
}

func cmdCodecReplay(args []string) {
	fs := flag.NewFlagSet("codec-replay", flag.ExitOnError)
	typ := fs.String("type", "", "root type")
	in := fs.String("in", "", "file with ALPHA / EDGE lines exported by TLC")
	out := fs.String("out", "", "verdict ndjson (only failing edges are written, plus a summary line)")
	fs.Parse(args)
	mt := findType(*typ)
	md := mt.Descriptor()
	f, err := os.Open(*in)
	if err != nil {
		die("%v", err)
	}
	defer f.Close()
	of, err := os.Create(*out)
	if err != nil {
		die("%v", err)
	}
	defer of.Close()
	w := bufio.NewWriter(of)
	defer w.Flush()
	sc := bufio.NewScanner(f)
	sc.Buffer(make([]byte, 1<<20), 1<<30)
	var alpha [][]byte
	n, bad := 0, 0
	var sample *edgeVerdict
	for sc.Scan() {
		line := sc.Text()
		switch {
		case strings.HasPrefix(line, "ALPHA "):
			var a [][]int
			if err := json.Unmarshal([]byte(line[6:]), &a); err != nil {
				die("alpha: %v", err)
			}
			for _, r := range a {
				alpha = append(alpha, proj.ToBytes(r))
			}
		case strings.HasPrefix(line, "EDGE "):
			var e edge
			if err := json.Unmarshal([]byte(line[5:]), &e); err != nil {
				die("edge: %v: %s", err, line[:200])
			}
			n++
			var pre []byte
			for _, k := range e.P {
				pre = append(pre, alpha[k-1]...)
			}
			rec := alpha[e.I-1]
			all := append(append([]byte(nil), pre...), rec...)
			want := proj.Normalize(e.To, md)
			v := edgeVerdict{N: n, P: e.P, I: e.I, Shape: shapeOf(md, rec)}
			// reference
			d := dynamicpb.NewMessage(md)
			if err := proto.Unmarshal(all, d); err == nil {
				v.Ref = jsonEq(proj.Normalize(proj.Project(d.ProtoReflect(), proj.WrapNone), md), want)
				rb, _ := proto.MarshalOptions{Deterministic: true}.Marshal(d)
				v.RefEnc = bytes.Equal(rb, proj.ToBytes(e.Enc))
			} else {
				v.Note += "ref: " + err.Error() + "; "
			}
			// pulsar, one shot
			p := newPulsar(mt)
			var uerr error
			if pn := catch(func() { uerr = proto.Unmarshal(all, p) }); pn != "" {
				v.Note += "panic(fresh): " + pn + "; "
			} else if uerr != nil {
				v.Note += "err(fresh): " + uerr.Error() + "; "
			} else {
				if pn := catch(func() {
					st := proj.Normalize(proj.Project(proj.Impl(p), proj.WrapImpl), md)
					v.Fresh = jsonEq(st, want)
					v.Fast = jsonEq(proj.Normalize(proj.Project(p.ProtoReflect(), proj.WrapNone), md), st)
					b, err := proto.MarshalOptions{Deterministic: true}.Marshal(p)
					v.Enc = err == nil && bytes.Equal(b, proj.ToBytes(e.Enc))
					v.Size = proto.Size(p) == e.Size && len(b) == e.Size
					p3 := newPulsar(mt)
					if err := proto.Unmarshal(b, p3); err == nil {
						v.RT = jsonEq(proj.Normalize(proj.Project(proj.Impl(p3), proj.WrapImpl), md), want) && proto.Equal(p, p3)
					}
				}); pn != "" {
					v.Note += "panic(observe): " + pn + "; "
				}
			}
			// pulsar, path then Merge of the record
			p2 := newPulsar(mt)
			if pn := catch(func() {
				if err := proto.Unmarshal(pre, p2); err != nil {
					v.Note += "err(pre): " + err.Error() + "; "
					return
				}
				if err := (proto.UnmarshalOptions{Merge: true}).Unmarshal(rec, p2); err != nil {
					v.Note += "err(merge): " + err.Error() + "; "
					return
				}
				v.Merge = jsonEq(proj.Normalize(proj.Project(proj.Impl(p2), proj.WrapImpl), md), want)
			}); pn != "" {
				v.Note += "panic(merge): " + pn + "; "
			}
			// DiscardUnknown
			wantD := proj.Normalize(e.Dto, md)
			d2 := dynamicpb.NewMessage(md)
			if err := (proto.UnmarshalOptions{DiscardUnknown: true}).Unmarshal(all, d2); err == nil {
				v.RefDisc = jsonEq(proj.Normalize(proj.Project(d2.ProtoReflect(), proj.WrapNone), md), wantD)
			}
			p4 := newPulsar(mt)
			if pn := catch(func() {
				if err := (proto.UnmarshalOptions{DiscardUnknown: true}).Unmarshal(all, p4); err != nil {
					v.Note += "err(discard): " + err.Error() + "; "
					return
				}
				v.Disc = jsonEq(proj.Normalize(proj.Project(proj.Impl(p4), proj.WrapImpl), md), wantD)
			}); pn != "" {
				v.Note += "panic(discard): " + pn + "; "
			}
			okAll := v.Ref && v.Fresh && v.Merge && v.Fast && v.Enc && v.Size && v.RefEnc && v.RT && v.Disc && v.RefDisc
			if !okAll {
				bad++
				b, _ := json.Marshal(v)
				w.Write(b)
				w.WriteByte('\n')
			} else if sample == nil {
				vv := v
				sample = &vv
			}
		}
	}
	sum := map[string]any{"summary": true, "edges": n, "bad": bad, "alphabet": len(alpha), "sample": sample}
	b, _ := json.Marshal(sum)
	w.Write(b)
	w.WriteByte('\n')
}
