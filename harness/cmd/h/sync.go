package main

import (
	"reflect"
	"strconv"
	"strings"

	"github.com/cosmos/cosmos-proto/zzverif/proj"
	"google.golang.org/protobuf/reflect/protoreflect"
)

// syncInto makes message m hold the projected value j by editing it IN PLACE through the
// reflection API: Go objects that exist on both sides (nested messages, list elements, map
// values) are kept and updated rather than replaced, so that whatever a generated type caches
// inside its structs across calls (size caches, memoised encodings) survives into the next
// marshal. This is the "multi-step history" companion of load (which starts from a fresh
// message); the trace specification treats both alike: afterwards the message holds j.
func syncInto(m protoreflect.Message, j proj.J) {
	md := m.Descriptor()
	fj, _ := j["f"].(proj.J)
	want := map[protoreflect.FieldNumber]any{}
	for k, v := range fj {
		n, _ := strconv.Atoi(k)
		want[protoreflect.FieldNumber(n)] = v
	}
	// clear what must go
	var drop []protoreflect.FieldDescriptor
	m.Range(func(fd protoreflect.FieldDescriptor, _ protoreflect.Value) bool {
		if _, ok := want[fd.Number()]; !ok {
			drop = append(drop, fd)
		}
		return true
	})
	for _, fd := range drop {
		m.Clear(fd)
	}
	asJ := func(a any) proj.J {
		if t, ok := a.(proj.J); ok {
			return t
		}
		return proj.J{}
	}
	asList := func(a any) []any {
		switch t := a.(type) {
		case []any:
			return t
		}
		return nil
	}
	for i := 0; i < md.Fields().Len(); i++ {
		fd := md.Fields().Get(i)
		w, ok := want[fd.Number()]
		if !ok {
			continue
		}
		switch {
		case fd.IsMap():
			mp := m.Mutable(fd).Map()
			ents := asList(w)
			keep := map[string]bool{}
			vfd := fd.MapValue()
			for _, e := range ents {
				ej := asJ(e)
				k := proj.ScalarValue(fd.MapKey().Kind(), ej["k"]).MapKey()
				keep[k.String()] = true
				if vfd.Message() != nil {
					syncInto(mp.Mutable(k).Message(), asJ(ej["v"]))
				} else {
					mp.Set(k, proj.ScalarValue(vfd.Kind(), ej["v"]))
				}
			}
			var del []protoreflect.MapKey
			mp.Range(func(k protoreflect.MapKey, _ protoreflect.Value) bool {
				if !keep[k.String()] {
					del = append(del, k)
				}
				return true
			})
			for _, k := range del {
				mp.Clear(k)
			}
		case fd.IsList():
			l := m.Mutable(fd).List()
			els := asList(w)
			if els == nil {
				// scalar lists are rendered as [][]int
				if ss, ok := w.([][]int); ok {
					for _, s := range ss {
						els = append(els, s)
					}
				}
			}
			if l.Len() > len(els) {
				l.Truncate(len(els))
			}
			for k, e := range els {
				switch {
				case fd.Message() != nil && k < l.Len():
					syncInto(l.Get(k).Message(), asJ(e))
				case fd.Message() != nil:
					syncInto(l.AppendMutable().Message(), asJ(e))
				case k < l.Len():
					l.Set(k, proj.ScalarValue(fd.Kind(), e))
				default:
					l.Append(proj.ScalarValue(fd.Kind(), e))
				}
			}
		case fd.Message() != nil:
			syncInto(m.Mutable(fd).Message(), asJ(w))
		default:
			m.Set(fd, proj.ScalarValue(fd.Kind(), w))
		}
	}
	u, _ := j["u"].([]int)
	if u == nil {
		if a, ok := j["u"].([]any); ok {
			for _, x := range a {
				if f, ok := x.(float64); ok {
					u = append(u, int(f))
				}
			}
		}
	}
	m.SetUnknown(proj.ToBytes(u))
}

// resliceLists shortens every message list reachable from the generated struct v by one element
// with a plain Go reslice (x.F = x.F[:n-1]): the dropped pointer stays in the spare capacity.
func resliceLists(v reflect.Value) (n int) {
	if v.Kind() == reflect.Ptr || v.Kind() == reflect.Interface {
		if v.IsNil() {
			return 0
		}
		return resliceLists(v.Elem())
	}
	if v.Kind() != reflect.Struct || strings.HasPrefix(v.Type().PkgPath(), "google.golang.org/protobuf/") {
		return 0
	}
	for i := 0; i < v.NumField(); i++ {
		f := v.Field(i)
		if v.Type().Field(i).PkgPath != "" {
			continue
		}
		switch f.Kind() {
		case reflect.Slice:
			if f.Type().Elem().Kind() != reflect.Ptr || f.Len() == 0 {
				continue
			}
			f.Set(f.Slice(0, f.Len()-1))
			n++
			for j := 0; j < f.Len(); j++ {
				n += resliceLists(f.Index(j))
			}
		case reflect.Map:
			if f.Type().Elem().Kind() != reflect.Ptr {
				continue
			}
			for _, k := range f.MapKeys() {
				n += resliceLists(f.MapIndex(k))
			}
		case reflect.Ptr, reflect.Interface:
			n += resliceLists(f)
		}
	}
	return n
}

// truncateLists is the same edit on the reference twin, through the reflection API.
func truncateLists(m protoreflect.Message) {
	if !m.IsValid() || strings.HasPrefix(string(m.Descriptor().FullName()), "google.protobuf.") {
		return
	}
	m.Range(func(fd protoreflect.FieldDescriptor, v protoreflect.Value) bool {
		switch {
		case fd.IsList() && fd.Message() != nil:
			l := m.Mutable(fd).List()
			l.Truncate(l.Len() - 1)
			for i := 0; i < l.Len(); i++ {
				truncateLists(l.Get(i).Message())
			}
		case fd.IsMap() && fd.MapValue().Message() != nil:
			v.Map().Range(func(_ protoreflect.MapKey, mv protoreflect.Value) bool {
				truncateLists(mv.Message())
				return true
			})
		case fd.Message() != nil && !fd.IsList() && !fd.IsMap():
			truncateLists(m.Mutable(fd).Message())
		}
		return true
	})
}
