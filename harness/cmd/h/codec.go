package main

import (
	"bufio"
	"bytes"
	"encoding/json"
	"flag"
	"fmt"
	"math"
	"os"
	"reflect"
	"sort"
	"strings"

	"github.com/cosmos/cosmos-proto/zzverif/proj"
	"github.com/cosmos/cosmos-proto/zzverif/val"
	"google.golang.org/protobuf/encoding/protojson"
	"google.golang.org/protobuf/encoding/prototext"
	"google.golang.org/protobuf/proto"
	"google.golang.org/protobuf/reflect/protoreflect"
	"google.golang.org/protobuf/reflect/protoregistry"
	"google.golang.org/protobuf/runtime/protoiface"
	"google.golang.org/protobuf/runtime/protoimpl"
	"google.golang.org/protobuf/types/dynamicpb"
)

type J = proj.J

// Op is one step of a codec case. A case starts with a "load" (or "reset") op.
type Op struct {
	Op      string `json:"op"`
	T       string `json:"t,omitempty"`
	V       J      `json:"v,omitempty"`
	Det     bool   `json:"det"`
	Prefix  []int  `json:"prefix"`
	Cap     int    `json:"cap,omitempty"`
	In      []int  `json:"in"`
	Merge   bool   `json:"merge"`
	Discard bool   `json:"discard"`
	Tag     string `json:"tag,omitempty"` // free-form provenance label
	Reps    int    `json:"reps,omitempty"`
	RO      bool   `json:"ro"`            // lib: read-only library calls only (no Merge into the message)
	Off     int    `json:"off,omitempty"` // alias_in: offset of the input inside its backing array
	Limit   int    `json:"limit"`         // unmarshal: proto.UnmarshalOptions.RecursionLimit (0 = default)
}

// Event is an executed Op with what was observed on the pulsar message and on the dynamicpb twin.
type Event struct {
	Op
	Ev        string   `json:"ev"`
	Ok        bool     `json:"ok"`
	Err       string   `json:"err,omitempty"`
	Panic     string   `json:"panic,omitempty"`
	Out       []int    `json:"out"`
	N         int      `json:"n"`
	NDirect   int      `json:"n_direct"`
	St        J        `json:"st,omitempty"` // struct-level (impl reflection) projection after the op
	FastEq    bool     `json:"fast_eq"`      // projection through pulsar fast reflection equals St
	RefOk     bool     `json:"ref_ok"`       // twin outcome
	RefOut    []int    `json:"ref_out"`      // twin bytes
	RefN      int      `json:"ref_n"`
	RefSt     J        `json:"ref_st,omitempty"` // twin projection
	RefErr    string   `json:"ref_err,omitempty"`
	Case      int      `json:"case"`
	Equal     bool     `json:"equal"` // lib: proto.Equal(current, other)
	RefEqual  bool     `json:"ref_equal"`
	EqualSelf bool     `json:"equal_self"` // Equal(m, m), Equal(m, Clone(m)), Equal(pulsar, dynamic twin)
	CloneOk   bool     `json:"clone_ok"`   // clone equal and independent
	InitOk    bool     `json:"init_ok"`
	JSONOk    bool     `json:"json_ok"` // protojson both directions agree with the reference
	TextOk    bool     `json:"text_ok"`
	LibNote   string   `json:"lib_note,omitempty"`
	StBefore  J        `json:"st_before,omitempty"` // alias ops: projection before the disturbance
	OutBefore []int    `json:"out_before"`
	ROChanged []string `json:"ro_changed"` // readonly: read-only calls after which the Go struct differed
	ROCalls   int      `json:"ro_calls"`
	Outs      [][]int  `json:"outs"` // detn: distinct outputs over all repetitions and histories
	Marshals  int      `json:"marshals"`
	Histories int      `json:"histories"`
	OutDirect []int    `json:"out_direct"` // marshal(det): bytes from a direct fast-path call with Flags = Deterministic only
	OutNil    []int    `json:"out_nil"`    // append: MarshalAppend(prefix, typed nil pointer)
	evName    string
}

func findType(name string) protoreflect.MessageType {
	mt, err := protoregistry.GlobalTypes.FindMessageByName(protoreflect.FullName(name))
	if err != nil {
		die("type %s: %v", name, err)
	}
	return mt
}

// newPulsar returns a fresh message of the generated Go type.
func newPulsar(mt protoreflect.MessageType) proto.Message { return mt.New().Interface() }

var retainedMethods = map[protoreflect.FullName]*protoiface.Methods{}

var boundaryCase int

// deepMapValue builds a message of type md whose k-th message-typed field (k rotating) leads,
// possibly through up to two singular message fields, to a map that is given five entries.
func deepMapValue(g *val.Gen, md protoreflect.MessageDescriptor, k int) *dynamicpb.Message {
	target := func(fd protoreflect.FieldDescriptor) protoreflect.MessageDescriptor {
		if fd.IsMap() {
			return fd.MapValue().Message()
		}
		return fd.Message()
	}
	mapOf := func(m protoreflect.MessageDescriptor) protoreflect.FieldDescriptor {
		for i := 0; i < m.Fields().Len(); i++ {
			if fd := m.Fields().Get(i); fd.IsMap() && fd.MapKey().Kind() != protoreflect.BoolKind {
				return fd
			}
		}
		return nil
	}
	// singular steps from m to a message type that has a map (at most two)
	var steps func(m protoreflect.MessageDescriptor, left int) ([]protoreflect.FieldDescriptor, bool)
	steps = func(m protoreflect.MessageDescriptor, left int) ([]protoreflect.FieldDescriptor, bool) {
		if mapOf(m) != nil {
			return nil, true
		}
		if left == 0 {
			return nil, false
		}
		for i := 0; i < m.Fields().Len(); i++ {
			fd := m.Fields().Get(i)
			if fd.Message() == nil || fd.IsMap() || fd.IsList() || strings.HasPrefix(string(fd.Message().FullName()), "google.protobuf.") {
				continue
			}
			if rest, ok := steps(fd.Message(), left-1); ok {
				return append([]protoreflect.FieldDescriptor{fd}, rest...), true
			}
		}
		return nil, false
	}
	type cand struct {
		first protoreflect.FieldDescriptor
		path  []protoreflect.FieldDescriptor
	}
	var cands []cand
	for i := 0; i < md.Fields().Len(); i++ {
		fd := md.Fields().Get(i)
		if t := target(fd); t != nil && !strings.HasPrefix(string(t.FullName()), "google.protobuf.") {
			if p, ok := steps(t, 2); ok {
				cands = append(cands, cand{fd, p})
			}
		}
	}
	if len(cands) == 0 {
		return nil
	}
	c := cands[k%len(cands)]
	root := dynamicpb.NewMessage(md)
	var cur protoreflect.Message
	switch {
	case c.first.IsMap():
		cur = root.Mutable(c.first).Map().Mutable(g.Scalar(c.first.MapKey()).MapKey()).Message()
	case c.first.IsList():
		cur = root.Mutable(c.first).List().AppendMutable().Message()
	default:
		cur = root.Mutable(c.first).Message()
	}
	for _, st := range c.path {
		cur = cur.Mutable(st).Message()
	}
	mf := mapOf(cur.Descriptor())
	mp := cur.Mutable(mf).Map()
	for i := 0; i < 12 && mp.Len() < 5; i++ {
		key := g.Scalar(mf.MapKey()).MapKey()
		if mf.MapValue().Message() != nil {
			mp.Mutable(key)
		} else {
			mp.Set(key, g.Scalar(mf.MapValue()))
		}
	}
	return root
}

// extremeScalar: a value of fd's kind with the widest (or narrowest) wire encoding.
func extremeScalar(fd protoreflect.FieldDescriptor, wide bool) protoreflect.Value {
	switch fd.Kind() {
	case protoreflect.EnumKind:
		vs := fd.Enum().Values()
		best := vs.Get(0).Number()
		for i := 0; i < vs.Len(); i++ {
			n := vs.Get(i).Number()
			if wide && (n < 0 || (best >= 0 && n > best)) {
				best = n
			}
		}
		return protoreflect.ValueOfEnum(best)
	case protoreflect.Int32Kind:
		if wide {
			return protoreflect.ValueOfInt32(-1)
		}
		return protoreflect.ValueOfInt32(1)
	case protoreflect.Sint32Kind, protoreflect.Sfixed32Kind:
		if wide {
			return protoreflect.ValueOfInt32(math.MinInt32)
		}
		return protoreflect.ValueOfInt32(1)
	case protoreflect.Int64Kind, protoreflect.Sint64Kind, protoreflect.Sfixed64Kind:
		if wide {
			return protoreflect.ValueOfInt64(math.MinInt64)
		}
		return protoreflect.ValueOfInt64(1)
	case protoreflect.Uint32Kind, protoreflect.Fixed32Kind:
		if wide {
			return protoreflect.ValueOfUint32(math.MaxUint32)
		}
		return protoreflect.ValueOfUint32(1)
	case protoreflect.Uint64Kind, protoreflect.Fixed64Kind:
		if wide {
			return protoreflect.ValueOfUint64(math.MaxUint64)
		}
		return protoreflect.ValueOfUint64(1)
	case protoreflect.StringKind:
		if wide {
			return protoreflect.ValueOfString("a rather long value")
		}
		return protoreflect.ValueOfString("")
	case protoreflect.BytesKind:
		if wide {
			return protoreflect.ValueOfBytes([]byte("a rather long value"))
		}
		return protoreflect.ValueOfBytes(nil)
	case protoreflect.BoolKind:
		return protoreflect.ValueOfBool(wide)
	case protoreflect.FloatKind:
		return protoreflect.ValueOfFloat32(1.5)
	default:
		return protoreflect.ValueOfFloat64(1.5)
	}
}

// rekey replaces the keys of every populated map of m (not bool-keyed ones) by other keys,
// keeping the number of entries and the values.
func rekey(m protoreflect.Message) {
	m.Range(func(fd protoreflect.FieldDescriptor, v protoreflect.Value) bool {
		if !fd.IsMap() || fd.MapKey().Kind() == protoreflect.BoolKind {
			return true
		}
		type kv struct {
			k protoreflect.MapKey
			v protoreflect.Value
		}
		var es []kv
		mp := v.Map()
		mp.Range(func(k protoreflect.MapKey, v protoreflect.Value) bool {
			es = append(es, kv{k, v})
			return true
		})
		for _, e := range es {
			mp.Clear(e.k)
		}
		for i, e := range es {
			var nk protoreflect.Value
			switch fd.MapKey().Kind() {
			case protoreflect.StringKind:
				nk = protoreflect.ValueOfString(fmt.Sprintf("%s~%d", e.k.String(), i))
			case protoreflect.Int32Kind, protoreflect.Sint32Kind, protoreflect.Sfixed32Kind:
				nk = protoreflect.ValueOfInt32(int32(1000003*(i+1)) ^ int32(e.k.Int()))
			case protoreflect.Int64Kind, protoreflect.Sint64Kind, protoreflect.Sfixed64Kind:
				nk = protoreflect.ValueOfInt64(int64(1000003*(i+1)) ^ e.k.Int())
			case protoreflect.Uint32Kind, protoreflect.Fixed32Kind:
				nk = protoreflect.ValueOfUint32(uint32(1000003*(i+1)) ^ uint32(e.k.Uint()))
			default:
				nk = protoreflect.ValueOfUint64(uint64(1000003*(i+1)) ^ e.k.Uint())
			}
			mp.Set(nk.MapKey(), e.v)
		}
		return true
	})
}

// mixedParent rebuilds the value d as a dynamicpb message whose message-typed children (singular
// and oneof members, list elements, map values) are GENERATED messages: protobuf-go's reflection
// encoder then calls the children's fast paths with its own, already non-empty, output buffer.
func mixedParent(d protoreflect.Message) protoreflect.Message {
	child := func(m protoreflect.Message) protoreflect.Message {
		mt, err := protoregistry.GlobalTypes.FindMessageByName(m.Descriptor().FullName())
		if err != nil {
			return m
		}
		c := mt.New()
		if !m.IsValid() {
			return c
		}
		b, err := proto.Marshal(m.Interface())
		if err != nil || proto.Unmarshal(b, c.Interface()) != nil {
			return m
		}
		return c
	}
	parent := dynamicpb.NewMessage(d.Descriptor())
	d.Range(func(fd protoreflect.FieldDescriptor, v protoreflect.Value) bool {
		switch {
		case fd.IsMap() && fd.MapValue().Message() != nil:
			mp := parent.Mutable(fd).Map()
			v.Map().Range(func(k protoreflect.MapKey, mv protoreflect.Value) bool {
				mp.Set(k, protoreflect.ValueOfMessage(child(mv.Message())))
				return true
			})
		case fd.IsMap():
			parent.Set(fd, v)
		case fd.IsList() && fd.Message() != nil:
			l := parent.Mutable(fd).List()
			for i := 0; i < v.List().Len(); i++ {
				l.Append(protoreflect.ValueOfMessage(child(v.List().Get(i).Message())))
			}
		case fd.Message() != nil:
			parent.Set(fd, protoreflect.ValueOfMessage(child(v.Message())))
		default:
			parent.Set(fd, v)
		}
		return true
	})
	parent.SetUnknown(d.GetUnknown())
	return parent
}

func catch(f func()) (p string) {
	defer func() {
		if r := recover(); r != nil {
			p = fmt.Sprint(r)
			if p == "" {
				p = "panic"
			}
		}
	}()
	f()
	return ""
}

func jsonEq(a, b any) bool {
	ab, _ := json.Marshal(a)
	bb, _ := json.Marshal(b)
	return bytes.Equal(ab, bb)
}

type codecRunner struct {
	mt         protoreflect.MessageType
	md         protoreflect.MessageDescriptor
	p          proto.Message      // pulsar message
	d          *dynamicpb.Message // reference twin
	out        *bufio.Writer
	n          int
	caseN      int
	nilPlanted bool // Go-level nil messages were planted into the current message (plantnil)
}

func (r *codecRunner) project(e *Event) {
	if p := catch(func() { e.St = proj.Project(proj.Impl(r.p), proj.WrapImpl) }); p != "" {
		e.Panic = "project: " + p
		return
	}
	var fast J
	if p := catch(func() { fast = proj.Project(r.p.ProtoReflect(), proj.WrapNone) }); p != "" {
		e.FastEq = false
		if e.Panic == "" {
			e.Panic = "fastproject: " + p
		}
	} else {
		e.FastEq = jsonEq(fast, e.St)
	}
	e.RefSt = proj.Project(r.d.ProtoReflect(), proj.WrapNone)
}

func (r *codecRunner) emit(e *Event) {
	e.Ev = e.Op.Op
	if e.evName != "" {
		e.Ev = e.evName
	}
	e.Case = r.caseN
	if e.OutDirect == nil {
		e.OutDirect = []int{}
	}
	if e.OutNil == nil {
		e.OutNil = []int{}
	}
	if e.Out == nil {
		e.Out = []int{}
	}
	if e.RefOut == nil {
		e.RefOut = []int{}
	}
	if e.Prefix == nil {
		e.Prefix = []int{}
	}
	if e.In == nil {
		e.In = []int{}
	}
	if e.Outs == nil {
		e.Outs = [][]int{}
	}
	if e.OutBefore == nil {
		e.OutBefore = []int{}
	}
	if e.ROChanged == nil {
		e.ROChanged = []string{}
	}
	b, err := json.Marshal(e)
	if err != nil {
		die("marshal event: %v", err)
	}
	r.out.Write(b)
	r.out.WriteByte('\n')
	r.n++
}

func (r *codecRunner) run(op Op) {
	e := &Event{Op: op}
	switch op.Op {
	case "load":
		r.caseN++
		r.nilPlanted = false
		r.mt = findType(op.T)
		r.md = r.mt.Descriptor()
		r.p = newPulsar(r.mt)
		r.d = dynamicpb.NewMessage(r.md)
		if p := catch(func() { proj.Fill(proj.Impl(r.p), op.V, proj.WrapImpl) }); p != "" {
			die("load: fill pulsar: %s", p)
		}
		proj.Fill(r.d.ProtoReflect(), op.V, proj.WrapNone)
		e.Ok, e.RefOk = true, true
		r.project(e)
	case "sync":
		// multi-step history: the SAME Go objects are edited in place to hold op.V (see sync.go)
		e.evName = "load"
		e.T = string(r.md.FullName())
		e.Panic = catch(func() { syncInto(r.p.ProtoReflect(), op.V) })
		r.d = dynamicpb.NewMessage(r.md)
		proj.Fill(r.d.ProtoReflect(), op.V, proj.WrapNone)
		e.Ok, e.RefOk = e.Panic == "", true
		r.project(e)
	case "reslice":
		// Go-level history: every message list (any depth) is shortened by one with a plain
		// reslice, x.F = x.F[:n-1], which keeps the dropped element in the spare capacity. The
		// value is now the twin's after Truncate(n-1); later decodes must not resurrect the element.
		e.evName = "load"
		e.T = string(r.md.FullName())
		e.N = resliceLists(reflect.ValueOf(r.p))
		truncateLists(r.d.ProtoReflect())
		e.Op.V = proj.Project(r.d.ProtoReflect(), proj.WrapNone)
		e.Ok, e.RefOk = true, true
		r.project(e)
	case "reset":
		e.Panic = catch(func() { proto.Reset(r.p) })
		proto.Reset(r.d)
		e.Ok, e.RefOk = e.Panic == "", true
		r.project(e)
	case "marshal":
		o := proto.MarshalOptions{Deterministic: op.Det}
		var b []byte
		var err error
		e.Panic = catch(func() { b, err = o.Marshal(r.p) })
		e.Ok = err == nil && e.Panic == ""
		if err != nil {
			e.Err = err.Error()
		}
		e.Out = proj.Bytes(b)
		if op.Det && e.Ok {
			// the fast path called the way protoiface documents it, with ONLY the Deterministic flag
			if pn := catch(func() {
				pm := r.p.ProtoReflect()
				// one Methods value per type is kept for the whole run (the closures take the message
				// from their input; protobuf-go caches its own per type the same way), and the size
				// of ANOTHER message of the type -- same shape, other map keys -- is taken through it
				// right before: what one call computes must not leak into the next
				ms := retainedMethods[r.md.FullName()]
				if ms == nil {
					ms = pm.ProtoMethods()
					retainedMethods[r.md.FullName()] = ms
				}
				if ms != nil && ms.Marshal != nil {
					if ms.Size != nil {
						other := proto.Clone(r.p)
						rekey(other.ProtoReflect())
						ms.Size(protoiface.SizeInput{Message: other.ProtoReflect(), Flags: protoiface.MarshalDeterministic})
					}
					out, derr := ms.Marshal(protoiface.MarshalInput{Message: pm, Flags: protoiface.MarshalDeterministic})
					if derr != nil {
						e.Err += "|direct: " + derr.Error()
						e.Ok = false
					}
					e.OutDirect = proj.Bytes(out.Buf)
				} else {
					e.OutDirect = e.Out
				}
			}); pn != "" {
				e.Panic, e.Ok = "direct: "+pn, false
			}
		}
		rb, rerr := o.Marshal(r.d)
		e.RefOk = rerr == nil
		e.RefOut = proj.Bytes(rb)
	case "mixed":
		// the current value as a dynamicpb parent holding generated children: validated as a
		// Marshal step (the abstract value is the same)
		e.evName = "marshal"
		o := proto.MarshalOptions{Deterministic: true}
		var b []byte
		var err error
		e.Panic = catch(func() { b, err = o.Marshal(mixedParent(r.d.ProtoReflect()).Interface()) })
		e.Ok = err == nil && e.Panic == ""
		if err != nil {
			e.Err = err.Error()
		}
		e.Out, e.OutDirect = proj.Bytes(b), proj.Bytes(b)
		rb, rerr := o.Marshal(r.d)
		e.RefOk = rerr == nil
		e.RefOut = proj.Bytes(rb)
	case "roundtrip":
		o := proto.MarshalOptions{Deterministic: op.Det}
		var b []byte
		var err error
		e.Panic = catch(func() { b, err = o.Marshal(r.p) })
		e.Ok = err == nil && e.Panic == ""
		if err != nil {
			e.Err = err.Error()
		}
		e.Out = proj.Bytes(b)
		fresh := newPulsar(r.mt)
		twin := dynamicpb.NewMessage(r.md)
		if e.Ok {
			var uerr error
			if p := catch(func() { uerr = proto.Unmarshal(b, fresh) }); p != "" {
				e.Panic, e.Ok = "unmarshal: "+p, false
			} else if uerr != nil {
				e.Err, e.Ok = "unmarshal: "+uerr.Error(), false
			}
			e.RefOk = proto.Unmarshal(b, twin) == nil
		}
		if p := catch(func() { e.St = proj.Project(proj.Impl(fresh), proj.WrapImpl) }); p != "" {
			e.Panic, e.Ok = "project: "+p, false
			e.St = J{"f": J{}, "u": []int{}}
		}
		e.FastEq = true
		e.RefSt = proj.Project(twin.ProtoReflect(), proj.WrapNone)
		// the generic algorithm must agree too
		if e.Ok {
			if p := catch(func() {
				if !proto.Equal(r.p, fresh) {
					e.Err += "|proto.Equal(original, decoded) = false"
					e.Ok = false
				}
			}); p != "" {
				e.Panic, e.Ok = "equal: "+p, false
			}
		}
	case "detn":
		// C05: many deterministic marshals of equal messages built through different histories
		o := proto.MarshalOptions{Deterministic: true}
		seen := map[string]bool{}
		variants := []proto.Message{r.p}
		e.Panic = catch(func() {
			cur := proj.Project(proj.Impl(r.p), proj.WrapImpl)
			// (1) same value inserted in reverse key order
			v1 := newPulsar(r.mt)
			proj.FillOrder(proj.Impl(v1), cur, proj.WrapImpl, true)
			// (2) grow then shrink: extra map keys inserted first and deleted afterwards
			v2 := newPulsar(r.mt)
			proj.FillOrder(proj.Impl(v2), cur, proj.WrapImpl, false)
			growShrink(v2.ProtoReflect())
			// (3) nil versus empty containers
			v3 := proto.Clone(r.p)
			plantEmpty(reflect.ValueOf(v3))
			// (4) decoded from the wire
			v4 := newPulsar(r.mt)
			if b, err := proto.Marshal(r.p); err == nil {
				proto.Unmarshal(b, v4)
			}
			variants = append(variants, v1, v2, v3, v4)
			for _, m := range variants {
				for i := 0; i < op.Reps; i++ {
					b, err := o.Marshal(m)
					if err != nil {
						e.Err = err.Error()
						return
					}
					e.Marshals++
					if !seen[string(b)] {
						seen[string(b)] = true
						e.Outs = append(e.Outs, proj.Bytes(b))
					}
				}
			}
		})
		e.Histories = len(variants)
		e.Ok = e.Panic == "" && e.Err == ""
		rb, _ := o.Marshal(r.d)
		e.RefOut = proj.Bytes(rb)
		e.RefOk = true
	case "lib":
		// C10: generic algorithms on (current message, other = op.V) for pulsar and the twins
		other := newPulsar(r.mt)
		otherD := dynamicpb.NewMessage(r.md)
		proj.Fill(proj.Impl(other), op.V, proj.WrapImpl)
		proj.Fill(otherD.ProtoReflect(), op.V, proj.WrapNone)
		note := func(f string, a ...any) { e.LibNote += fmt.Sprintf(f, a...) + "; " }
		e.RefEqual = proto.Equal(r.d, otherD)
		e.Panic = catch(func() {
			e.Equal = proto.Equal(r.p, other)
			cl := proto.Clone(r.p)
			e.EqualSelf = proto.Equal(r.p, r.p) && proto.Equal(r.p, cl) && proto.Equal(cl, r.p) && proto.Equal(r.p, r.d) && proto.Equal(r.d, r.p)
			// the clone is deep: overwriting everything it owns leaves the original unchanged
			before := proj.Project(proj.Impl(r.p), proj.WrapImpl)
			scribbleOwned(reflect.ValueOf(cl))
			proto.Reset(cl)
			e.CloneOk = jsonEq(before, proj.Project(proj.Impl(r.p), proj.WrapImpl)) && reflect.TypeOf(cl) == reflect.TypeOf(r.p)
			// the clone of the type's nil message is that nil message again (as for every
			// protobuf-go type): invalid, of the same Go type, equal to it and not to an empty message
			nilm := r.mt.Zero().Interface()
			if nc := proto.Clone(nilm); nc == nil || nc.ProtoReflect().IsValid() || reflect.TypeOf(nc) != reflect.TypeOf(nilm) || !proto.Equal(nc, nilm) || proto.Equal(nc, newPulsar(r.mt)) {
				e.CloneOk = false
				note("proto.Clone of the nil message is not the nil message")
			}
			e.InitOk = proto.CheckInitialized(r.p) == nil && proto.CheckInitialized(other) == nil
			// JSON / text: pulsar output parses (reference parser, into the reference message) to the
			// twin's value; the reference's output parses INTO pulsar (library-driven Set/Mutable/
			// Append/NewField) to the same value
			e.JSONOk, e.TextOk = true, true
			// --- JSON: same document as the reference produces (compared as parsed JSON, since the
			// library randomises whitespace); the reference's document parsed INTO pulsar gives
			// what it gives parsed into the reference
			refJ, refErr := protojson.Marshal(r.d)
			pJ, pErr := protojson.Marshal(r.p)
			switch {
			case (refErr == nil) != (pErr == nil):
				e.JSONOk = false
				note("protojson.Marshal: pulsar err=%v reference err=%v", pErr, refErr)
			case refErr == nil:
				var a, b any
				json.Unmarshal(refJ, &a)
				json.Unmarshal(pJ, &b)
				if !reflect.DeepEqual(a, b) {
					e.JSONOk = false
					note("protojson output differs from the reference: %s vs %s", trunc(string(pJ), 150), trunc(string(refJ), 150))
				}
				into := newPulsar(r.mt)
				intoD := dynamicpb.NewMessage(r.md)
				e1 := protojson.Unmarshal(refJ, into)
				e2 := protojson.Unmarshal(refJ, intoD)
				if (e1 == nil) != (e2 == nil) {
					e.JSONOk = false
					note("protojson.Unmarshal: pulsar err=%v reference err=%v", e1, e2)
				} else if e1 == nil && !jsonEq(proj.Normalize(proj.Project(proj.Impl(into), proj.WrapImpl), r.md), proj.Normalize(proj.Project(intoD.ProtoReflect(), proj.WrapNone), r.md)) {
					e.JSONOk = false
					note("JSON parsed into pulsar differs from JSON parsed into the reference")
				}
			}
			// --- JSON with EmitUnpopulated: the encoder then calls Get on every field, populated or
			// not (also on nil messages held in containers)
			{
				o := protojson.MarshalOptions{EmitUnpopulated: true}
				refU, refUErr := o.Marshal(r.d)
				pU, pUErr := o.Marshal(r.p)
				var a, b any
				json.Unmarshal(refU, &a)
				json.Unmarshal(pU, &b)
				if (refUErr == nil) != (pUErr == nil) || (refUErr == nil && !reflect.DeepEqual(a, b)) {
					e.JSONOk = false
					note("protojson(EmitUnpopulated) differs from the reference: %s vs %s (%v / %v)", trunc(string(pU), 150), trunc(string(refU), 150), pUErr, refUErr)
				}
				// ... and that document, which spells out every default value (empty strings and
				// bytes, zero numbers, empty lists), parsed back: the same fields are populated and
				// the same document is printed again
				if refUErr == nil {
					into, intoD := newPulsar(r.mt), dynamicpb.NewMessage(r.md)
					e1, e2 := protojson.Unmarshal(refU, into), protojson.Unmarshal(refU, intoD)
					if (e1 == nil) != (e2 == nil) {
						e.JSONOk = false
						note("protojson.Unmarshal(document with explicit defaults): pulsar err=%v reference err=%v", e1, e2)
					} else if e1 == nil {
						set := func(m protoreflect.Message) string {
							var ns []int
							m.Range(func(fd protoreflect.FieldDescriptor, _ protoreflect.Value) bool {
								ns = append(ns, int(fd.Number()))
								return true
							})
							sort.Ints(ns)
							return fmt.Sprint(ns)
						}
						if sp, sd := set(into.ProtoReflect()), set(intoD.ProtoReflect()); sp != sd {
							e.JSONOk = false
							note("after parsing a document with explicit defaults Range visits %s, reference %s", sp, sd)
						}
						p2, _ := o.Marshal(into)
						r2, _ := o.Marshal(intoD)
						var a2, b2 any
						json.Unmarshal(r2, &a2)
						json.Unmarshal(p2, &b2)
						if !reflect.DeepEqual(a2, b2) {
							e.JSONOk = false
							note("document with explicit defaults, parsed and printed again, differs from the reference: %s vs %s", trunc(string(p2), 150), trunc(string(r2), 150))
						}
					}
				}
			}
			// --- text format, same scheme (documents compared by parsing both with the reference)
			refT, refTErr := prototext.Marshal(r.d)
			pT, pTErr := prototext.Marshal(r.p)
			switch {
			case (refTErr == nil) != (pTErr == nil):
				e.TextOk = false
				note("prototext.Marshal: pulsar err=%v reference err=%v", pTErr, refTErr)
			case refTErr == nil:
				x, y := dynamicpb.NewMessage(r.md), dynamicpb.NewMessage(r.md)
				ex, ey := prototext.Unmarshal(refT, x), prototext.Unmarshal(pT, y)
				if (ex == nil) != (ey == nil) || (ex == nil && !proto.Equal(x, y)) {
					e.TextOk = false
					note("prototext output differs from the reference (%v / %v)", ex, ey)
				}
				if ex == nil {
					into := newPulsar(r.mt)
					if err := prototext.Unmarshal(refT, into); err != nil {
						e.TextOk = false
						note("prototext.Unmarshal into pulsar: %v", err)
					} else if !jsonEq(proj.Normalize(proj.Project(proj.Impl(into), proj.WrapImpl), r.md), proj.Normalize(proj.Project(x.ProtoReflect(), proj.WrapNone), r.md)) {
						e.TextOk = false
						note("text parsed into pulsar differs from text parsed into the reference")
					}
				}
			}
			// Merge(current, other) on pulsar
			if !op.RO {
				proto.Merge(r.p, other)
			}
		})
		// ... and on the twin (outside the recover scope of the pulsar calls, so that a pulsar
		// panic cannot make the twin look wrong)
		if !op.RO {
			proto.Merge(r.d, otherD)
		}
		e.Ok, e.RefOk = e.Panic == "", true
		r.project(e)
	case "plantnil":
		// Go-level states reflection cannot build: EMPTY messages held in maps, lists and oneof
		// wrappers are replaced by nil pointers. The abstract value is unchanged (a nil message
		// reads as an empty one), so every later event is validated against the same state.
		planted := 0
		e.Panic = catch(func() { planted = plantNil(reflect.ValueOf(r.p)) })
		r.nilPlanted = planted > 0
		e.N = planted
		e.Ok, e.RefOk = e.Panic == "", true
		r.project(e)
	case "plantempty":
		// Go-level state: nil slices and maps become empty non-nil ones (Mutable without Append,
		// Append then Truncate(0)); the abstract value is unchanged
		e.evName = "plantnil"
		e.Panic = catch(func() { plantEmpty(reflect.ValueOf(r.p)) })
		e.Ok, e.RefOk = e.Panic == "", true
		r.project(e)
	case "alias_in":
		// C07: decode from a caller buffer, then overwrite that buffer: the message must not notice
		// (the input sits at offset op.Off of its backing array: zero-copy views of aligned
		// payloads only arise at some alignments)
		backing := make([]byte, op.Off+len(op.In)+8)
		in := append(backing[op.Off:op.Off], proj.ToBytes(op.In)...)
		fresh := newPulsar(r.mt)
		var uerr error
		e.Panic = catch(func() { uerr = proto.Unmarshal(in, fresh) })
		e.Ok = uerr == nil && e.Panic == ""
		if !bytes.Equal(in, proj.ToBytes(op.In)) {
			e.Err += "|input modified by Unmarshal"
			e.Ok = false
		}
		if uerr != nil {
			e.Err = uerr.Error()
		}
		if e.Ok {
			e.Panic = catch(func() {
				e.StBefore = proj.Project(proj.Impl(fresh), proj.WrapImpl)
				b0, _ := proto.MarshalOptions{Deterministic: true}.Marshal(fresh)
				e.OutBefore = proj.Bytes(b0)
				full := in[:cap(in)]
				for i := range full {
					full[i] = 0xA5
				}
				e.St = proj.Project(proj.Impl(fresh), proj.WrapImpl)
				b1, _ := proto.MarshalOptions{Deterministic: true}.Marshal(fresh)
				e.Out = proj.Bytes(b1)
			})
			e.Ok = e.Panic == ""
		}
		e.FastEq, e.RefOk = true, true
	case "alias_out":
		// C07: marshal, then overwrite every byte the message owns in place: the returned bytes
		// must not change
		var b []byte
		var err error
		e.Panic = catch(func() { b, err = proto.MarshalOptions{Deterministic: op.Det}.Marshal(r.p) })
		e.Ok = err == nil && e.Panic == ""
		e.OutBefore = proj.Bytes(b)
		if e.Ok {
			victim := proto.Clone(r.p) // keep r.p intact for the following ops
			b2, _ := proto.MarshalOptions{Deterministic: op.Det}.Marshal(victim)
			keep := append([]byte(nil), b2...)
			scribbleOwned(reflect.ValueOf(victim))
			if !bytes.Equal(b2, keep) {
				e.Err = "bytes returned by Marshal changed when the message was overwritten in place"
				e.Ok = false
			}
			e.Out = proj.Bytes(b)
		}
		e.FastEq, e.RefOk = true, true
	case "readonly":
		// C07: read-only calls leave every field of the Go struct unchanged (nil vs empty included)
		variants := []proto.Message{r.p}
		v3 := proto.Clone(r.p)
		plantEmpty(reflect.ValueOf(v3))
		variants = append(variants, v3)
		// ... and with strings that are not valid UTF-8 (encoders may refuse them; nothing rewrites them)
		v4 := proto.Clone(r.p)
		spoilStrings(reflect.ValueOf(v4))
		variants = append(variants, v4)
		// ... and with every oneof holding a typed-nil wrapper ((*T_Member)(nil): a Go state protobuf-go's
		// own getters panic on; calls that panic on it are not judged, calls that return must not
		// have "repaired" it)
		typedNil := -1
		if v5 := proto.Clone(r.p); plantTypedNilWrappers(v5) > 0 {
			typedNil = len(variants)
			variants = append(variants, v5)
		}
		for vi, m := range variants {
			calls := map[string]func(){
				"Size":       func() { proto.Size(m) },
				"SizeDet":    func() { proto.MarshalOptions{Deterministic: true}.Size(m) },
				"Marshal":    func() { proto.Marshal(m) },
				"MarshalDet": func() { proto.MarshalOptions{Deterministic: true}.Marshal(m) },
				"Equal":      func() { proto.Equal(m, m); proto.Equal(m, r.d) },
				"Range": func() {
					m.ProtoReflect().Range(func(fd protoreflect.FieldDescriptor, v protoreflect.Value) bool { return true })
				},
				"GetAll": func() {
					fds := m.ProtoReflect().Descriptor().Fields()
					for i := 0; i < fds.Len(); i++ {
						v := m.ProtoReflect().Get(fds.Get(i))
						switch {
						case fds.Get(i).IsList():
							_ = v.List().Len()
						case fds.Get(i).IsMap():
							_ = v.Map().Len()
						}
						m.ProtoReflect().Has(fds.Get(i))
					}
					ods := m.ProtoReflect().Descriptor().Oneofs()
					for i := 0; i < ods.Len(); i++ {
						m.ProtoReflect().WhichOneof(ods.Get(i))
					}
					m.ProtoReflect().GetUnknown()
				},
				"Getters": func() {
					rv := reflect.ValueOf(m)
					for i := 0; i < rv.NumMethod(); i++ {
						name := rv.Type().Method(i).Name
						if strings.HasPrefix(name, "Get") && rv.Method(i).Type().NumIn() == 0 {
							rv.Method(i).Call(nil)
						}
					}
				},
				"String":  func() { _ = fmt.Sprint(m) },
				"Project": func() { proj.Project(m.ProtoReflect(), proj.WrapNone) },
			}
			for name, f := range calls {
				if vi == 0 && r.nilPlanted {
					// earlier reads (the projections logged with every event) may already have
					// "healed" nil elements: plant them again so that each call starts from nil
					plantNil(reflect.ValueOf(m))
				}
				before := snapshot(reflect.ValueOf(m))
				pn := catch(f)
				after := snapshot(reflect.ValueOf(m))
				e.ROCalls++
				if pn != "" && vi == typedNil {
					continue
				}
				if pn != "" {
					e.ROChanged = append(e.ROChanged, fmt.Sprintf("%s(variant %d): panic %s", name, vi, pn))
				} else if before != after {
					e.ROChanged = append(e.ROChanged, fmt.Sprintf("%s(variant %d)", name, vi))
				}
			}
		}
		// reads through list / map views that were taken before their field was cleared: what such
		// a stale view SHOWS is unspecified (DESIGN 3.1), but reading through it is still a read --
		// the struct must not change (a lazily re-created container would)
		if pn := catch(func() {
			c := proto.Clone(r.p)
			cm := c.ProtoReflect()
			type view struct {
				fd protoreflect.FieldDescriptor
				v  protoreflect.Value
				k  protoreflect.MapKey
			}
			var views []view
			cm.Range(func(fd protoreflect.FieldDescriptor, v protoreflect.Value) bool {
				switch {
				case fd.IsList():
					views = append(views, view{fd: fd, v: v})
				case fd.IsMap():
					w := view{fd: fd, v: v}
					v.Map().Range(func(k protoreflect.MapKey, _ protoreflect.Value) bool { w.k = k; return false })
					views = append(views, w)
				}
				return true
			})
			for _, w := range views {
				cm.Clear(w.fd)
			}
			before := snapshot(reflect.ValueOf(c))
			for _, w := range views {
				catch(func() {
					if w.fd.IsList() {
						l := w.v.List()
						_ = l.IsValid()
						if l.Len() > 0 {
							_ = l.Get(0)
						}
					} else {
						mp := w.v.Map()
						_ = mp.IsValid()
						_ = mp.Len()
						if w.k.IsValid() {
							_ = mp.Has(w.k)
							_ = mp.Get(w.k)
						}
						mp.Range(func(protoreflect.MapKey, protoreflect.Value) bool { return true })
					}
				})
				e.ROCalls++
			}
			if after := snapshot(reflect.ValueOf(c)); after != before {
				e.ROChanged = append(e.ROChanged, "reads through stale list/map views")
			}
		}); pn != "" {
			e.ROChanged = append(e.ROChanged, "stale views: panic "+pn)
		}
		e.Ok, e.FastEq, e.RefOk = true, true, true
	case "size":
		o := proto.MarshalOptions{Deterministic: op.Det}
		e.Panic = catch(func() {
			e.N = o.Size(r.p)
			var flags protoiface.MarshalInputFlags
			if op.Det {
				flags |= protoiface.MarshalDeterministic
			}
			e.NDirect = r.p.ProtoReflect().ProtoMethods().Size(protoiface.SizeInput{Message: r.p.ProtoReflect(), Flags: flags}).Size
		})
		e.Ok = e.Panic == ""
		e.RefN = o.Size(r.d)
		e.RefOk = true
	case "append":
		o := proto.MarshalOptions{Deterministic: op.Det}
		prefix := proj.ToBytes(op.Prefix)
		buf := make([]byte, len(prefix), len(prefix)+op.Cap)
		copy(buf, prefix)
		// canary bytes in the spare capacity and a shadow copy of the caller-visible part
		full := buf[:cap(buf)]
		for i := len(prefix); i < len(full); i++ {
			full[i] = 0xEE
		}
		var b []byte
		var err error
		e.Panic = catch(func() { b, err = o.MarshalAppend(buf, r.p) })
		e.Ok = err == nil && e.Panic == ""
		if err != nil {
			e.Err = err.Error()
		}
		e.Out = proj.Bytes(b)
		// the caller's own slice must be unchanged
		if !bytes.Equal(buf, prefix) {
			e.Err += "|caller prefix modified"
			e.Ok = false
		}
		rb, rerr := o.MarshalAppend(append([]byte(nil), prefix...), r.d)
		e.RefOk = rerr == nil
		e.RefOut = proj.Bytes(rb)
		// a typed nil pointer marshals as the empty message: the prefix comes back unchanged
		if pn := catch(func() {
			nilMsg := reflect.Zero(reflect.TypeOf(r.p)).Interface().(proto.Message)
			nb, nerr := o.MarshalAppend(append([]byte(nil), prefix...), nilMsg)
			if nerr != nil {
				e.Err += "|nil: " + nerr.Error()
				e.Ok = false
			}
			e.OutNil = proj.Bytes(nb)
		}); pn != "" {
			e.Panic, e.Ok = "nil: "+pn, false
		}
	case "unmarshal":
		o := proto.UnmarshalOptions{Merge: op.Merge, DiscardUnknown: op.Discard, RecursionLimit: op.Limit}
		in := proj.ToBytes(op.In)
		shadow := append([]byte(nil), in...)
		var err error
		e.Panic = catch(func() { err = o.Unmarshal(in, r.p) })
		e.Ok = err == nil && e.Panic == ""
		if err != nil {
			e.Err = err.Error()
		}
		if !bytes.Equal(in, shadow) {
			e.Err += "|input modified"
			e.Ok = false
		}
		rerr := o.Unmarshal(shadow, r.d)
		e.RefOk = rerr == nil
		if rerr != nil {
			e.RefErr = rerr.Error()
		}
		r.project(e)
	default:
		die("unknown op %q", op.Op)
	}
	r.emit(e)
}

// randomCodecPlan draws the op sequence for one random value, according to mode:
//
//	rt      round trips (C01): marshal in both modes, decode own output into a fresh message
//	det     deterministic bytes (C02)
//	size    Size / MarshalAppend (C04)
//	xform   well-typed stream rewriting, merge option (C03)
//	unknown unknown-field handling, DiscardUnknown (C14)
//	all     everything
func randomCodecPlan(g *val.Gen, mt protoreflect.MessageType, mode string, emit func(Op)) {
	md := mt.Descriptor()
	d := g.Dynamic(md)
	v := proj.Project(d.ProtoReflect(), proj.WrapNone)
	t := string(md.FullName())
	is := func(ms ...string) bool {
		if mode == "all" {
			return true
		}
		for _, m := range ms {
			if m == mode {
				return true
			}
		}
		return false
	}
	emit(Op{Op: "load", T: t, V: v})
	if is("rt") {
		// multi-step history: the same objects, already sized and marshalled once, are edited in
		// place (anything cached inside them is now stale) and marshalled again
		emit(Op{Op: "size", Det: true, Tag: "rt-history"})
		emit(Op{Op: "marshal", Det: true, Tag: "rt-history"})
		cur := d
		for k := 0; k < 2; k++ {
			cur = g.Mutate(cur)
			emit(Op{Op: "sync", V: proj.Project(cur.ProtoReflect(), proj.WrapNone), Tag: "rt-history"})
			emit(Op{Op: "size", Det: true, Tag: "rt-history"})
			emit(Op{Op: "roundtrip", Det: true, Tag: "rt-history"})
		}
		// ... then the nested messages are emptied in place, then the whole message
		for _, ev := range []J{emptyNested(proj.Project(cur.ProtoReflect(), proj.WrapNone)), {"f": J{}, "u": []int{}}} {
			emit(Op{Op: "sync", V: ev, Tag: "rt-history"})
			emit(Op{Op: "size", Det: true, Tag: "rt-history"})
			emit(Op{Op: "roundtrip", Det: true, Tag: "rt-history"})
		}
		emit(Op{Op: "load", T: t, V: v})
	}
	if is("det") {
		// generated children under a parent of another implementation, also empty ones
		emit(Op{Op: "mixed", Det: true, Tag: "det-mixed"})
		emit(Op{Op: "sync", V: emptyNested(v), Tag: "det-mixed"})
		emit(Op{Op: "mixed", Det: true, Tag: "det-mixed"})
		emit(Op{Op: "load", T: t, V: v})
	}
	// (not in lib mode: proto.Merge INTO a message holding nil map values / list elements panics
	// "cannot merge into invalid message" in every implementation -- nil is read-only)
	if g.R.Intn(2) == 0 && (is("rt", "det", "size") || mode == "mem" || mode == "pure") {
		emit(Op{Op: "plantnil", Tag: "plantnil"})
	}
	b, err := proto.MarshalOptions{Deterministic: true}.Marshal(d)
	if err != nil {
		die("reference marshal: %v", err)
	}
	if is("rt") {
		emit(Op{Op: "roundtrip", Det: true, Tag: "rt"})
		emit(Op{Op: "roundtrip", Det: false, Tag: "rt"})
		emit(Op{Op: "marshal", Det: false, Tag: "rt"})
	}
	if is("det") {
		emit(Op{Op: "marshal", Det: true, Tag: "det"})
		emit(Op{Op: "marshal", Det: true, Tag: "det"})
	}
	if mode == "lib" {
		d2 := g.Dynamic(md)
		v2 := proj.Project(d2.ProtoReflect(), proj.WrapNone)
		emit(Op{Op: "lib", V: v2, Tag: "lib"})
		emit(Op{Op: "marshal", Det: true, Tag: "lib"})
		// near-equal variants: Equal must tell a single difference, wherever it is
		for k := 0; k < 3; k++ {
			near := proj.Project(g.Mutate(d).ProtoReflect(), proj.WrapNone)
			emit(Op{Op: "load", T: t, V: v})
			emit(Op{Op: "lib", V: near, Tag: "lib-near"})
		}
		emit(Op{Op: "lib", V: v, Tag: "lib-self"}) // merge the original value onto the merged one
		emit(Op{Op: "reset", Tag: "lib"})
		emit(Op{Op: "lib", V: v2, Tag: "lib-onto-empty"})
		// Go-level nil messages in containers read as empty ones for every read-only algorithm
		// (Merge INTO them is invalid everywhere, hence the read-only variant)
		emit(Op{Op: "load", T: t, V: v})
		emit(Op{Op: "plantnil", Tag: "lib-nil"})
		emit(Op{Op: "lib", V: v, RO: true, Tag: "lib-nil"})
		emit(Op{Op: "lib", V: v2, RO: true, Tag: "lib-nil"})
	}
	if mode == "mem" {
		x := b
		if g.R.Intn(2) == 0 {
			x = g.InjectUnknown(md, b, 0)
		}
		emit(Op{Op: "alias_in", In: proj.Bytes(x), Tag: "mem"})
		emit(Op{Op: "alias_in", In: proj.Bytes(g.Xform(md, b, 0)), Tag: "mem-xform"}) // non-canonical but well-typed streams
		if len(x) >= 120 {
			// zero-copy views of fixed-width payloads depend on the alignment of the input
			for off := 1; off < 8; off++ {
				emit(Op{Op: "alias_in", In: proj.Bytes(x), Off: off, Tag: "mem-align"})
			}
		}
		emit(Op{Op: "alias_out", Det: g.R.Intn(2) == 0, Tag: "mem"})
		emit(Op{Op: "readonly", Tag: "mem"})
	}
	if mode == "pure" {
		emit(Op{Op: "detn", Reps: 6, Tag: "pure"})
		emit(Op{Op: "marshal", Det: true, Tag: "pure"}) // incl. the direct fast-path call with Flags = Deterministic only
		// one string-keyed map of the type (another one in every case) holding nothing but entries
		// around the one-/two-byte length prefix: keys of 110..125 bytes, values alternately of
		// the narrowest and the widest encoding -- whatever pairs keys with values, or sizes an
		// entry, in an order other than the one it is written in shows here
		var cands []protoreflect.FieldDescriptor
		for i := 0; i < md.Fields().Len(); i++ {
			if fd := md.Fields().Get(i); fd.IsMap() && fd.MapKey().Kind() == protoreflect.StringKind && fd.MapValue().Message() == nil {
				cands = append(cands, fd)
			}
		}
		if len(cands) > 0 {
			fd := cands[boundaryCase%len(cands)]
			boundaryCase++
			bd := dynamicpb.NewMessage(md)
			mp := bd.Mutable(fd).Map()
			for i, l := range []int{110, 113, 116, 119, 122, 125} {
				kb := make([]byte, l)
				for j := range kb {
					kb[j] = byte('a' + g.R.Intn(26))
				}
				mp.Set(protoreflect.ValueOfString(string(kb)).MapKey(), extremeScalar(fd.MapValue(), (i+boundaryCase)%2 == 0))
			}
			emit(Op{Op: "load", T: t, V: proj.Project(bd.ProtoReflect(), proj.WrapNone)})
			emit(Op{Op: "detn", Reps: 6, Tag: "pure-boundary"})
			emit(Op{Op: "marshal", Det: true, Tag: "pure-boundary"})
			// ... and keys that share a long prefix (what a comparison of a leading word, a hash
			// or a length would call equal)
			emit(Op{Op: "load", T: t, V: v})
		}
		// ... and keys that share a long prefix (what a comparison of a leading word, a hash or a
		// length would call equal), in any string-keyed map, message-valued ones included
		var sk []protoreflect.FieldDescriptor
		for i := 0; i < md.Fields().Len(); i++ {
			if fd := md.Fields().Get(i); fd.IsMap() && fd.MapKey().Kind() == protoreflect.StringKind {
				sk = append(sk, fd)
			}
		}
		if len(sk) > 0 {
			fd := sk[boundaryCase%len(sk)]
			pd := dynamicpb.NewMessage(md)
			pm := pd.Mutable(fd).Map()
			for i, suffix := range []string{"alice", "bob", "carol/1", "carol/10", "carol/2", ""} {
				key := protoreflect.ValueOfString("account/balance/" + suffix).MapKey()
				if fd.MapValue().Message() != nil {
					pm.Mutable(key)
				} else {
					pm.Set(key, extremeScalar(fd.MapValue(), i%2 == 0))
				}
			}
			emit(Op{Op: "load", T: t, V: proj.Project(pd.ProtoReflect(), proj.WrapNone)})
			emit(Op{Op: "detn", Reps: 6, Tag: "pure-prefix"})
			emit(Op{Op: "marshal", Det: true, Tag: "pure-prefix"})
			emit(Op{Op: "load", T: t, V: v})
		}
		// a map with several entries BELOW a message-typed field of each shape in turn (singular,
		// oneof member, list element, map value) and up to two singular steps further down: the
		// Deterministic option has to arrive there whatever the way
		if dd := deepMapValue(g, md, boundaryCase); dd != nil {
			emit(Op{Op: "load", T: t, V: proj.Project(dd.ProtoReflect(), proj.WrapNone)})
			emit(Op{Op: "detn", Reps: 6, Tag: "pure-deep"})
			emit(Op{Op: "marshal", Det: true, Tag: "pure-deep"})
			emit(Op{Op: "load", T: t, V: v})
		}
	}
	if is("size") {
		emit(Op{Op: "size", Det: true, Tag: "size"})
		emit(Op{Op: "size", Det: false, Tag: "size"})
		for k := 0; k < 2; k++ {
			pl := []int{0, 1, 7, 64}[g.R.Intn(4)]
			prefix := make([]int, pl)
			for i := range prefix {
				prefix[i] = g.R.Intn(256)
			}
			emit(Op{Op: "append", Det: g.R.Intn(2) == 0, Prefix: prefix, Cap: []int{0, 3, len(b) + pl + 16, 4096}[g.R.Intn(4)], Tag: "size"})
		}
	}
	if is("size") {
		// the same value with empty-but-non-nil containers
		emit(Op{Op: "plantempty", Tag: "size-empty"})
		emit(Op{Op: "size", Det: true, Tag: "size-empty"})
		emit(Op{Op: "append", Det: true, Prefix: []int{1, 2, 3}, Cap: 64, Tag: "size-empty"})
		// ... and the empty message itself, onto a non-empty buffer with and without spare room
		emit(Op{Op: "sync", V: J{"f": J{}, "u": []int{}}, Tag: "size-empty"})
		emit(Op{Op: "append", Det: true, Prefix: []int{9, 8, 7}, Cap: 0, Tag: "size-empty"})
		emit(Op{Op: "append", Det: false, Prefix: []int{9, 8, 7, 6}, Cap: 32, Tag: "size-empty"})
		emit(Op{Op: "load", T: t, V: v})
	}
	if is("xform") {
		x := g.Xform(md, b, 0)
		emit(Op{Op: "unmarshal", In: proj.Bytes(x), Tag: "xform"})
		emit(Op{Op: "marshal", Det: true, Tag: "xform"})
		// continue decoding onto the non-empty message: the Merge option
		y := g.Xform(md, g.EncodeRandom(md, 1), 0)
		emit(Op{Op: "unmarshal", In: proj.Bytes(y), Merge: true, Tag: "merge"})
		emit(Op{Op: "size", Det: true, Tag: "merge"})
		// decoding a concatenation equals decoding the first then merging the second
		emit(Op{Op: "unmarshal", In: proj.Bytes(append(append([]byte(nil), x...), y...)), Tag: "concat"})
		// a caller-set recursion limit that the stream fits exactly is enough
		if dm := dynamicpb.NewMessage(md); proto.Unmarshal(x, dm) == nil {
			emit(Op{Op: "unmarshal", In: proj.Bytes(x), Limit: 1 + msgDepth(dm.ProtoReflect()), Tag: "at-limit"})
		}
		// Go-level history: lists resliced shorter (the dropped element stays in the spare capacity),
		// then decoded into again with the Merge option: the appended elements must be fresh
		emit(Op{Op: "load", T: t, V: v})
		emit(Op{Op: "reslice", Tag: "reslice"})
		near, _ := proto.MarshalOptions{Deterministic: true}.Marshal(g.Mutate(d))
		emit(Op{Op: "unmarshal", In: proj.Bytes(near), Merge: true, Tag: "reslice-merge"})
		emit(Op{Op: "marshal", Det: true, Tag: "reslice-merge"})
	}
	if is("unknown") {
		gu := *g
		gu.Unknown = true
		x := g.InjectUnknown(md, b, 0)
		emit(Op{Op: "unmarshal", In: proj.Bytes(x), Tag: "unknown"})
		emit(Op{Op: "marshal", Det: true, Tag: "unknown"})
		emit(Op{Op: "unmarshal", In: proj.Bytes(x), Discard: true, Tag: "discard"})
		emit(Op{Op: "marshal", Det: true, Tag: "discard"})
		emit(Op{Op: "unmarshal", In: proj.Bytes(x), Merge: true, Discard: g.R.Intn(2) == 0, Tag: "discard-merge"})
		// DiscardUnknown concerns the records of THIS input: merged with it onto a message that
		// already holds unknown records (at the top and in its children), those stay
		emit(Op{Op: "unmarshal", In: proj.Bytes(x), Tag: "unknown"})
		if nb, err := (proto.MarshalOptions{Deterministic: true}).Marshal(g.Mutate(d)); err == nil {
			emit(Op{Op: "unmarshal", In: proj.Bytes(g.InjectUnknown(md, nb, 0)), Merge: true, Discard: true, Tag: "discard-merge-onto-unknown"})
			emit(Op{Op: "marshal", Det: true, Tag: "discard-merge-onto-unknown"})
		}
		// a caller-set recursion limit that the input fits exactly: every option still applies at
		// the deepest level
		if dm := dynamicpb.NewMessage(md); proto.Unmarshal(x, dm) == nil {
			lim := 1 + msgDepth(dm.ProtoReflect())
			emit(Op{Op: "unmarshal", In: proj.Bytes(x), Discard: true, Limit: lim, Tag: "discard-at-limit"})
			emit(Op{Op: "unmarshal", In: proj.Bytes(x), Limit: lim, Tag: "unknown-at-limit"})
			emit(Op{Op: "marshal", Det: true, Tag: "unknown-at-limit"})
		}
		// the stored unknown records are copies: overwriting the input afterwards changes nothing
		emit(Op{Op: "alias_in", In: proj.Bytes(x), Tag: "unknown-alias"})
	}
}

func cmdCodec(args []string) {
	fs := flag.NewFlagSet("codec", flag.ExitOnError)
	typ := fs.String("type", "", "message full name")
	n := fs.Int("n", 100, "number of random cases")
	seed := fs.Int64("seed", 1, "seed")
	out := fs.String("out", "", "events ndjson")
	plan := fs.String("plan", "", "ndjson plan of ops to execute instead of random cases")
	maxDepth := fs.Int("depth", 3, "max nesting of generated values")
	mode := fs.String("mode", "all", "rt|det|size|xform|unknown|all")
	fs.Parse(args)
	f, err := os.Create(*out)
	if err != nil {
		die("%v", err)
	}
	defer f.Close()
	w := bufio.NewWriterSize(f, 1<<20)
	defer w.Flush()
	r := &codecRunner{out: w}
	if *plan != "" {
		pf, err := os.Open(*plan)
		if err != nil {
			die("%v", err)
		}
		sc := bufio.NewScanner(pf)
		sc.Buffer(make([]byte, 1<<20), 1<<28)
		for sc.Scan() {
			var op Op
			if err := json.Unmarshal(sc.Bytes(), &op); err != nil {
				die("plan: %v", err)
			}
			r.run(op)
		}
		return
	}
	mt := findType(*typ)
	g := val.New(*seed)
	g.MaxDepth = *maxDepth
	if *mode == "pure" {
		g.MaxLen = 9
		g.Budget = 120
	}
	for i := 0; i < *n; i++ {
		g.Cover(mt.Descriptor(), i, *n) // every field of a wide message is populated in some case
		randomCodecPlan(g, mt, *mode, r.run)
	}
}

var _ = reflect.TypeOf

// emptyNested returns the projected value j with every directly nested message value (singular
// fields, list elements, map values) replaced by the empty message; scalars stay.
func emptyNested(j J) J {
	out := J{"f": J{}, "u": j["u"]}
	f, _ := j["f"].(J)
	empty := func() J { return J{"f": J{}, "u": []int{}} }
	isMsg := func(a any) bool { m, ok := a.(J); _, hf := m["f"]; return ok && hf }
	for k, v := range f {
		switch t := v.(type) {
		case J:
			if isMsg(t) {
				out["f"].(J)[k] = empty()
			} else {
				out["f"].(J)[k] = t
			}
		case []any:
			var l []any
			for _, e := range t {
				switch ee := e.(type) {
				case J:
					if isMsg(ee) {
						l = append(l, empty())
					} else if vv, ok := ee["v"].(J); ok && isMsg(vv) {
						l = append(l, J{"k": ee["k"], "v": empty()})
					} else {
						l = append(l, ee)
					}
				default:
					l = append(l, e)
				}
			}
			out["f"].(J)[k] = l
		default:
			out["f"].(J)[k] = v
		}
	}
	return out
}

// msgDepth is the number of message levels below m (0 for a message without populated message fields).
func msgDepth(m protoreflect.Message) int {
	d := 0
	up := func(x protoreflect.Message) {
		if n := 1 + msgDepth(x); n > d {
			d = n
		}
	}
	m.Range(func(fd protoreflect.FieldDescriptor, v protoreflect.Value) bool {
		switch {
		case fd.IsMap() && fd.MapValue().Message() != nil:
			v.Map().Range(func(_ protoreflect.MapKey, mv protoreflect.Value) bool { up(mv.Message()); return true })
		case fd.IsList() && fd.Message() != nil:
			for i := 0; i < v.List().Len(); i++ {
				up(v.List().Get(i).Message())
			}
		case fd.Message() != nil && !fd.IsMap() && !fd.IsList():
			up(v.Message())
		}
		return true
	})
	return d
}

// growShrink inserts and then deletes extra keys in every populated map (and nested ones), and
// appends+truncates every populated list, leaving the value unchanged.
func growShrink(m protoreflect.Message) {
	m.Range(func(fd protoreflect.FieldDescriptor, v protoreflect.Value) bool {
		switch {
		case fd.IsMap():
			mp := v.Map()
			var extra []protoreflect.MapKey
			for i := 0; i < 12; i++ {
				var k protoreflect.MapKey
				switch fd.MapKey().Kind() {
				case protoreflect.BoolKind:
					k = protoreflect.ValueOfBool(i%2 == 0).MapKey()
				case protoreflect.StringKind:
					k = protoreflect.ValueOfString(fmt.Sprintf("\x01extra-%d", i)).MapKey()
				case protoreflect.Int32Kind, protoreflect.Sint32Kind, protoreflect.Sfixed32Kind:
					k = protoreflect.ValueOfInt32(int32(-1000000 - i)).MapKey()
				case protoreflect.Int64Kind, protoreflect.Sint64Kind, protoreflect.Sfixed64Kind:
					k = protoreflect.ValueOfInt64(int64(-1000000 - i)).MapKey()
				case protoreflect.Uint32Kind, protoreflect.Fixed32Kind:
					k = protoreflect.ValueOfUint32(uint32(3000000000 + i)).MapKey()
				default:
					k = protoreflect.ValueOfUint64(uint64(3000000000 + i)).MapKey()
				}
				if !mp.Has(k) {
					mp.Set(k, mp.NewValue())
					extra = append(extra, k)
				}
			}
			for _, k := range extra {
				mp.Clear(k)
			}
			if fd.MapValue().Message() != nil {
				mp.Range(func(_ protoreflect.MapKey, mv protoreflect.Value) bool { growShrink(mv.Message()); return true })
			}
		case fd.IsList():
			l := v.List()
			n := l.Len()
			for i := 0; i < 5; i++ {
				l.Append(l.NewElement())
			}
			l.Truncate(n)
			if fd.Message() != nil {
				for i := 0; i < n; i++ {
					growShrink(l.Get(i).Message())
				}
			}
		case fd.Message() != nil:
			growShrink(v.Message())
		}
		return true
	})
}

// plantEmpty replaces nil slices and maps in a generated struct (recursively) by empty non-nil
// ones: equal messages, different Go state.
func plantEmpty(v reflect.Value) {
	if v.Kind() == reflect.Ptr {
		if v.IsNil() {
			return
		}
		v = v.Elem()
	}
	if v.Kind() != reflect.Struct {
		return
	}
	for i := 0; i < v.NumField(); i++ {
		f := v.Field(i)
		sf := v.Type().Field(i)
		if sf.PkgPath != "" || sf.Tag.Get("protobuf") == "" {
			continue
		}
		switch f.Kind() {
		case reflect.Slice:
			if f.IsNil() {
				f.Set(reflect.MakeSlice(f.Type(), 0, 0))
			} else if f.Type().Elem().Kind() == reflect.Ptr {
				for j := 0; j < f.Len(); j++ {
					plantEmpty(f.Index(j))
				}
			}
		case reflect.Map:
			if f.IsNil() {
				f.Set(reflect.MakeMap(f.Type()))
			} else if f.Type().Elem().Kind() == reflect.Ptr {
				for _, k := range f.MapKeys() {
					plantEmpty(f.MapIndex(k))
				}
			}
		case reflect.Ptr:
			plantEmpty(f)
		}
	}
}

// plantTypedNilWrappers sets every oneof field of the (top-level) struct to a typed-nil pointer of
// its first wrapper type, taken from the OneofWrappers the generated file registers.
func plantTypedNilWrappers(m proto.Message) int {
	mt, err := protoregistry.GlobalTypes.FindMessageByName(m.ProtoReflect().Descriptor().FullName())
	if err != nil {
		return 0
	}
	mi, ok := mt.(*protoimpl.MessageInfo)
	if !ok || mi.GoReflectType == nil || fmt.Sprintf("%T", m) != mi.GoReflectType.String() {
		return 0
	}
	v := reflect.ValueOf(m).Elem()
	n := 0
	for i := 0; i < v.NumField(); i++ {
		f := v.Field(i)
		if f.Kind() != reflect.Interface || v.Type().Field(i).Tag.Get("protobuf_oneof") == "" {
			continue
		}
		for _, w := range mi.OneofWrappers {
			if wt := reflect.TypeOf(w); wt.Implements(f.Type()) {
				f.Set(reflect.Zero(wt))
				n++
				break
			}
		}
	}
	return n
}

// spoilStrings makes every string the struct holds (singular fields, list elements, oneof
// members, nested messages) invalid UTF-8: a state any Go caller can build, which encoders may
// refuse but which read-only calls must leave as it is.
func spoilStrings(v reflect.Value) {
	if v.Kind() == reflect.Ptr || v.Kind() == reflect.Interface {
		if v.IsNil() {
			return
		}
		v = v.Elem()
		if v.Kind() == reflect.Ptr {
			spoilStrings(v)
			return
		}
	}
	if v.Kind() != reflect.Struct {
		return
	}
	for i := 0; i < v.NumField(); i++ {
		f := v.Field(i)
		sf := v.Type().Field(i)
		if sf.PkgPath != "" || (sf.Tag.Get("protobuf") == "" && sf.Tag.Get("protobuf_oneof") == "") {
			continue
		}
		switch f.Kind() {
		case reflect.String:
			f.SetString("\xff\xfe" + f.String())
		case reflect.Slice:
			for j := 0; j < f.Len(); j++ {
				switch f.Index(j).Kind() {
				case reflect.String:
					f.Index(j).SetString("\xc3" + f.Index(j).String())
				case reflect.Ptr:
					spoilStrings(f.Index(j))
				}
			}
		case reflect.Map:
			if f.Type().Elem().Kind() == reflect.Ptr {
				for _, k := range f.MapKeys() {
					spoilStrings(f.MapIndex(k))
				}
			}
		case reflect.Ptr, reflect.Interface:
			spoilStrings(f)
		}
	}
}

// scribbleOwned overwrites, in place, every byte slice reachable from a generated struct
// (bytes fields, repeated bytes, map values, unknown fields), recursively.
func scribbleOwned(v reflect.Value) {
	if v.Kind() == reflect.Ptr || v.Kind() == reflect.Interface {
		if v.IsNil() {
			return
		}
		scribbleOwned(v.Elem())
		return
	}
	switch v.Kind() {
	case reflect.Struct:
		for i := 0; i < v.NumField(); i++ {
			f := v.Field(i)
			name := v.Type().Field(i).Name
			if name == "state" || name == "sizeCache" {
				continue
			}
			if !f.CanSet() { // unexported: unknownFields
				if f.Kind() == reflect.Slice && f.Type().Elem().Kind() == reflect.Uint8 {
					for j := 0; j < f.Len(); j++ {
						p := (*byte)(f.Index(j).Addr().UnsafePointer())
						*p ^= 0xFF
					}
				}
				continue
			}
			scribbleOwned(f)
		}
	case reflect.Slice:
		if v.Type().Elem().Kind() == reflect.Uint8 {
			for j := 0; j < v.Len(); j++ {
				v.Index(j).SetUint(v.Index(j).Uint() ^ 0xFF)
			}
			return
		}
		for j := 0; j < v.Len(); j++ {
			scribbleOwned(v.Index(j))
		}
	case reflect.Map:
		for _, k := range v.MapKeys() {
			e := v.MapIndex(k)
			if e.Kind() == reflect.Slice && e.Type().Elem().Kind() == reflect.Uint8 {
				for j := 0; j < e.Len(); j++ {
					p := (*byte)(e.Index(j).Addr().UnsafePointer())
					*p ^= 0xFF
				}
			} else {
				scribbleOwned(e)
			}
		}
	}
}

// snapshot renders the full Go state of a generated struct, distinguishing nil from empty
// slices and maps (the protoimpl message state word is skipped: it is lazily initialised by
// protobuf-go's own reflection, which this harness uses for projection).
func snapshot(v reflect.Value) string {
	var sb strings.Builder
	var walk func(v reflect.Value, depth int)
	walk = func(v reflect.Value, depth int) {
		if depth > 12 {
			sb.WriteString("…")
			return
		}
		switch v.Kind() {
		case reflect.Ptr, reflect.Interface:
			if v.IsNil() {
				sb.WriteString("nil")
				return
			}
			sb.WriteString("&")
			walk(v.Elem(), depth+1)
		case reflect.Struct:
			sb.WriteString(v.Type().Name() + "{")
			for i := 0; i < v.NumField(); i++ {
				name := v.Type().Field(i).Name
				if name == "state" {
					continue
				}
				// protobuf-go's own generated types (Any, Timestamp, ...) cache their size
				if name == "sizeCache" && strings.HasPrefix(v.Type().PkgPath(), "google.golang.org/protobuf/") {
					continue
				}
				sb.WriteString(name + ":")
				walk(v.Field(i), depth+1)
				sb.WriteString(",")
			}
			sb.WriteString("}")
		case reflect.Slice:
			if v.IsNil() {
				sb.WriteString("nilslice")
				return
			}
			fmt.Fprintf(&sb, "[%d:", v.Len())
			for j := 0; j < v.Len(); j++ {
				walk(v.Index(j), depth+1)
				sb.WriteString(" ")
			}
			sb.WriteString("]")
		case reflect.Map:
			if v.IsNil() {
				sb.WriteString("nilmap")
				return
			}
			keys := v.MapKeys()
			strs := make([]string, len(keys))
			idx := map[string]reflect.Value{}
			for i, k := range keys {
				strs[i] = fmt.Sprintf("%#v", k)
				idx[strs[i]] = k
			}
			sort.Strings(strs)
			fmt.Fprintf(&sb, "map[%d:", len(keys))
			for _, s := range strs {
				sb.WriteString(s + "=>")
				walk(v.MapIndex(idx[s]), depth+1)
				sb.WriteString(" ")
			}
			sb.WriteString("]")
		case reflect.Float32, reflect.Float64:
			fmt.Fprintf(&sb, "%x", math.Float64bits(v.Float()))
		case reflect.String:
			fmt.Fprintf(&sb, "%q", v.String())
		case reflect.Bool:
			fmt.Fprintf(&sb, "%v", v.Bool())
		case reflect.Int, reflect.Int32, reflect.Int64:
			fmt.Fprintf(&sb, "%d", v.Int())
		case reflect.Uint8, reflect.Uint32, reflect.Uint64:
			fmt.Fprintf(&sb, "%d", v.Uint())
		default:
			fmt.Fprintf(&sb, "?%s", v.Kind())
		}
	}
	walk(v, 0)
	return sb.String()
}

func hasNestedUnknown(m protoreflect.Message) bool {
	found := false
	m.Range(func(fd protoreflect.FieldDescriptor, v protoreflect.Value) bool {
		switch {
		case fd.IsMap() && fd.MapValue().Message() != nil:
			v.Map().Range(func(_ protoreflect.MapKey, mv protoreflect.Value) bool {
				if len(mv.Message().GetUnknown()) > 0 || hasNestedUnknown(mv.Message()) {
					found = true
				}
				return !found
			})
		case fd.IsList() && fd.Message() != nil:
			for i := 0; i < v.List().Len(); i++ {
				if len(v.List().Get(i).Message().GetUnknown()) > 0 || hasNestedUnknown(v.List().Get(i).Message()) {
					found = true
				}
			}
		case fd.Message() != nil && !fd.IsMap() && !fd.IsList():
			if len(v.Message().GetUnknown()) > 0 || hasNestedUnknown(v.Message()) {
				found = true
			}
		}
		return !found
	})
	return found
}

// isEmptyMsg: a non-nil generated message without populated fields or unknown bytes.
func isEmptyMsg(v reflect.Value) bool {
	if v.Kind() != reflect.Ptr || v.IsNil() {
		return false
	}
	m, ok := v.Interface().(proto.Message)
	if !ok {
		return false
	}
	j := proj.Project(proj.Impl(m), proj.WrapImpl)
	f, _ := j["f"].(proj.J)
	u, _ := j["u"].([]int)
	return len(f) == 0 && len(u) == 0
}

// plantNil replaces empty messages inside maps, lists and oneof wrappers by nil pointers,
// recursively; returns how many were replaced.
func plantNil(v reflect.Value) int {
	n := 0
	if v.Kind() == reflect.Ptr || v.Kind() == reflect.Interface {
		if v.IsNil() {
			return 0
		}
		return plantNil(v.Elem())
	}
	if v.Kind() != reflect.Struct {
		return 0
	}
	// only generated message structs of this module (not anypb etc.)
	if strings.HasPrefix(v.Type().PkgPath(), "google.golang.org/protobuf/") {
		return 0
	}
	for i := 0; i < v.NumField(); i++ {
		f := v.Field(i)
		sf := v.Type().Field(i)
		if sf.PkgPath != "" {
			continue
		}
		switch f.Kind() {
		case reflect.Map:
			if f.Type().Elem().Kind() != reflect.Ptr {
				continue
			}
			for _, k := range f.MapKeys() {
				e := f.MapIndex(k)
				if isEmptyMsg(e) {
					f.SetMapIndex(k, reflect.Zero(f.Type().Elem()))
					n++
				} else {
					n += plantNil(e)
				}
			}
		case reflect.Slice:
			if f.Type().Elem().Kind() != reflect.Ptr {
				continue
			}
			for j := 0; j < f.Len(); j++ {
				if isEmptyMsg(f.Index(j)) {
					f.Index(j).Set(reflect.Zero(f.Type().Elem()))
					n++
				} else {
					n += plantNil(f.Index(j))
				}
			}
		case reflect.Interface:
			// oneof wrapper: *Wrapper{Field: *Msg}
			if f.IsNil() || sf.Tag.Get("protobuf_oneof") == "" {
				continue
			}
			w := f.Elem()
			if w.Kind() == reflect.Ptr && !w.IsNil() && w.Elem().Kind() == reflect.Struct && w.Elem().NumField() == 1 {
				inner := w.Elem().Field(0)
				if inner.Kind() == reflect.Ptr && inner.Type().Elem().Kind() == reflect.Struct {
					if isEmptyMsg(inner) {
						inner.Set(reflect.Zero(inner.Type()))
						n++
					} else {
						n += plantNil(inner)
					}
				}
			}
		case reflect.Ptr:
			if f.Type().Elem().Kind() == reflect.Struct && sf.Tag.Get("protobuf") != "" {
				n += plantNil(f)
			}
		}
	}
	return n
}
