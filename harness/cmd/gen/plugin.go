package main

import (
	"bufio"
	"crypto/sha256"
	"encoding/hex"
	"encoding/json"
	"flag"
	"fmt"
	"os"
	"path/filepath"
	"regexp"
	"strings"

	"github.com/cosmos/cosmos-proto/zzverif/corpus"
	"google.golang.org/protobuf/proto"
	"google.golang.org/protobuf/reflect/protodesc"
	"google.golang.org/protobuf/reflect/protoregistry"
	"google.golang.org/protobuf/types/descriptorpb"
	"google.golang.org/protobuf/types/pluginpb"

	_ "github.com/cosmos/cosmos-proto/internal/testprotos/test3"
	_ "github.com/cosmos/cosmos-proto/testpb"
)

type pluginCase struct {
	Fp    string   `json:"fp"`
	Pp    string   `json:"pp"`
	Mp    string   `json:"mp"`
	Flag  string   `json:"flag"`
	Gen   []string `json:"gen"`
	Kind  string   `json:"kind"`
	Files []string `json:"files"`
}

type outFile struct {
	File string `json:"file"` // universe letter
	Name string `json:"name"`
	Sha  string `json:"sha"`
	Size int    `json:"size"`
}

type pluginEvent struct {
	Ev string `json:"ev"`
	pluginCase
	Param    string    `json:"param"`
	Run      int       `json:"run"`
	Obs      string    `json:"obs"` // fatal | error | ok
	Err      string    `json:"err"`
	ErrSha   string    `json:"errsha"` // hash of the full CodeGeneratorResponse.error text ("" unless obs = error)
	Out      []outFile `json:"out"`
	Hermetic []string  `json:"hermetic"`
}

const mappedPath = corpus.GenPath + "/xbmapped"

func paramOf(c pluginCase, u map[string]*corpus.File) string {
	var ps []string
	switch c.Fp {
	case "absent":
	case "unknown":
		ps = append(ps, "features=nosuchfeature")
	case "fast+unknown":
		ps = append(ps, "features=fast+nosuchfeature")
	case "unknown+fast":
		ps = append(ps, "features=nosuchfeature+fast")
	case "all+unknown":
		ps = append(ps, "features=all+nosuchfeature")
	case "unknown+all":
		ps = append(ps, "features=nosuchfeature+all")
	case "empty":
		ps = append(ps, "features=")
	default:
		ps = append(ps, "features="+c.Fp)
	}
	switch c.Pp {
	case "absent":
	default:
		ps = append(ps, "paths="+c.Pp)
	}
	if c.Mp == "mapA" {
		ps = append(ps, "M"+u["A"].Name+"="+mappedPath)
	}
	if c.Flag == "unknownflag" {
		ps = append(ps, "nosuchflag=1")
	}
	if c.Flag == "pool" {
		ps = append(ps, "pool="+corpus.GenPath+"/pa.Msg")
	}
	return strings.Join(ps, ",")
}

var hermeticRe = regexp.MustCompile(`(/tmp/|/root/|/home/|/usr/lib/go|/var/|20[0-9][0-9]-[01][0-9]-[0-3][0-9]|[01][0-9]:[0-5][0-9]:[0-5][0-9])`)

// cmdPlugin executes the request cases exported by spec/Plugin.tla, each R times in fresh
// processes under different environments, and records what the plugin answered.
func cmdPlugin(args []string) {
	fs := flag.NewFlagSet("plugin", flag.ExitOnError)
	plugin := fs.String("plugin", "", "plugin binary")
	in := fs.String("in", "", "CASE lines")
	out := fs.String("out", "", "events ndjson")
	runs := fs.Int("runs", 3, "fresh processes per case")
	stride := fs.Int("stride", 1, "execute about one case in n (chosen by a hash of the case index: a fixed stride aliases with the block structure of the enumeration)")
	seed := fs.Int("seed", 1, "sampling seed")
	fs.Parse(args)
	u := corpus.PluginUniverse()
	universe := []*corpus.File{u["X"], u["A"], u["xa2"], u["B"], u["C"], u["D"], u["E"], u["F"], u["G"], u["H"], u["p1"], u["p2"], u["I"]}
	base := map[string]string{}
	for k, f := range u {
		base[strings.TrimSuffix(filepath.Base(f.Name), ".proto")] = k
	}
	f, err := os.Open(*in)
	if err != nil {
		die("%v", err)
	}
	defer f.Close()
	of, _ := os.Create(*out)
	defer of.Close()
	w := bufio.NewWriter(of)
	defer w.Flush()
	sc := bufio.NewScanner(f)
	sc.Buffer(make([]byte, 1<<20), 1<<26)
	marker := "VERIFMARKERxyzzy"
	host, _ := os.Hostname()
	idx := 0
	for sc.Scan() {
		line := sc.Text()
		if !strings.HasPrefix(line, "CASE ") {
			continue
		}
		idx++
		if *stride > 1 {
			h := uint64(idx)*0x9E3779B97F4A7C15 + uint64(*seed)*0xBF58476D1CE4E5B9
			h ^= h >> 29
			h *= 0x94D049BB133111EB
			h ^= h >> 32
			if h%uint64(*stride) != 0 {
				continue
			}
		}
		var c pluginCase
		if err := json.Unmarshal([]byte(line[5:]), &c); err != nil {
			die("case: %v", err)
		}
		var toGen []string
		for _, g := range c.Gen {
			toGen = append(toGen, u[g].Name)
		}
		param := paramOf(c, u)
		req := BuildRequest(universe, toGen, param)
		// protoc always passes the dependencies too; make sure an empty files_to_generate still
		// carries the universe
		if len(toGen) == 0 {
			req = BuildRequest(universe, []string{u["A"].Name}, param)
			req.FileToGenerate = nil
		}
		for r := 0; r < *runs; r++ {
			tmp, _ := os.MkdirTemp("", "plug")
			env := []string{"HOME=" + tmp, "TMPDIR=" + tmp, "PWD=" + tmp, "TZ=" + []string{"UTC", "Asia/Tokyo", "America/Lima"}[r%3],
				"LANG=" + []string{"C", "en_US.UTF-8", "de_DE"}[r%3], "VERIF_MARKER=" + marker, "PATH=/usr/bin:/bin", "GOMAXPROCS=" + fmt.Sprint(1+r%4)}
			// every other run invokes the plugin under a different name and path (protoc's
			// --plugin=NAME=PATH override, a renamed build output): argv[0] is environment too
			bin := *plugin
			if r%2 == 1 {
				alias := filepath.Join(tmp, "renamed-"+marker)
				if os.Symlink(*plugin, alias) == nil {
					bin = alias
				}
			}
			// the working directory is environment as well: the root, the scratch directory, or
			// two levels below it
			cwd := []string{"/", tmp, filepath.Join(tmp, "a", "b")}[r%3]
			os.MkdirAll(cwd, 0o755)
			resp, stderr, err := RunPluginIn(bin, req, env, cwd)
			os.RemoveAll(tmp)
			ev := pluginEvent{Ev: "run", pluginCase: c, Param: param, Run: r, Out: []outFile{}, Hermetic: []string{}}
			switch {
			case err != nil:
				ev.Obs, ev.Err = "fatal", trunc(err.Error()+": "+stderr, 300)
			case resp.Error != nil:
				ev.Obs, ev.Err = "error", trunc(resp.GetError(), 300)
				es := sha256.Sum256([]byte(resp.GetError()))
				ev.ErrSha = hex.EncodeToString(es[:8])
			default:
				ev.Obs = "ok"
				for _, gf := range resp.File {
					sum := sha256.Sum256([]byte(gf.GetContent()))
					b := strings.TrimSuffix(filepath.Base(gf.GetName()), ".pulsar.go")
					ev.Out = append(ev.Out, outFile{File: base[b], Name: gf.GetName(), Sha: hex.EncodeToString(sum[:8]), Size: len(gf.GetContent())})
					content := gf.GetContent()
					if m := hermeticRe.FindString(content); m != "" {
						ev.Hermetic = append(ev.Hermetic, gf.GetName()+": "+m)
					}
					for _, needle := range []string{marker, tmp, host} {
						if needle != "" && strings.Contains(content, needle) {
							ev.Hermetic = append(ev.Hermetic, gf.GetName()+": contains "+needle)
						}
					}
				}
			}
			b, _ := json.Marshal(ev)
			w.Write(b)
			w.WriteByte('\n')
		}
	}
}

// checkedIn lists the proto files behind the checked-in *.pulsar.go files.
var checkedIn = map[string][]string{
	"testpb":                    {"1.proto", "2.proto", "3.proto"},
	"internal/testprotos/test3": {"internal/testprotos/test3/test.proto", "internal/testprotos/test3/test_import.proto", "internal/testprotos/test3/test_nesting.proto"},
}

// registryRequest builds a request for files already linked into this binary.
func registryRequest(paths []string, param string) *pluginpb.CodeGeneratorRequest {
	var ordered []*descriptorpb.FileDescriptorProto
	seen := map[string]bool{}
	var visit func(p string)
	visit = func(p string) {
		if seen[p] {
			return
		}
		seen[p] = true
		fd, err := protoregistry.GlobalFiles.FindFileByPath(p)
		if err != nil {
			die("registry: %s: %v", p, err)
		}
		fp := protodesc.ToFileDescriptorProto(fd)
		for _, d := range fp.Dependency {
			visit(d)
		}
		ordered = append(ordered, fp)
	}
	for _, p := range paths {
		visit(p)
	}
	req := &pluginpb.CodeGeneratorRequest{FileToGenerate: paths, ProtoFile: ordered}
	if param != "" {
		req.Parameter = proto.String(param)
	}
	return req
}

// cmdRegen regenerates the checked-in packages (without source comments, which are not
// available from the linked descriptors) into --out, for diffing two plugin builds.
func cmdRegen(args []string) {
	fs := flag.NewFlagSet("regen", flag.ExitOnError)
	plugin := fs.String("plugin", "", "plugin binary")
	out := fs.String("out", "", "output dir")
	fs.Parse(args)
	for dir, files := range checkedIn {
		req := registryRequest(files, "paths=source_relative")
		resp, stderr, err := RunPlugin(*plugin, req, nil)
		if err != nil {
			die("regen %s: %v\n%s", dir, err, stderr)
		}
		if resp.Error != nil {
			die("regen %s: %s", dir, resp.GetError())
		}
		for _, f := range resp.File {
			name := f.GetName()
			if !strings.Contains(name, "/") {
				name = filepath.Join(dir, name)
			}
			p := filepath.Join(*out, name)
			os.MkdirAll(filepath.Dir(p), 0o755)
			os.WriteFile(p, []byte(f.GetContent()), 0o644)
		}
	}
}
