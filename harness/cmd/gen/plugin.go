package main

import (
	"flag"
	"os"
	"path/filepath"
	"strings"

	"google.golang.org/protobuf/proto"
	"google.golang.org/protobuf/reflect/protodesc"
	"google.golang.org/protobuf/reflect/protoregistry"
	"google.golang.org/protobuf/types/descriptorpb"
	"google.golang.org/protobuf/types/pluginpb"

	_ "github.com/cosmos/cosmos-proto/internal/testprotos/test3"
	_ "github.com/cosmos/cosmos-proto/testpb"
)

func cmdPlugin(args []string) { die("not implemented") }

// checkedIn lists the proto files behind the checked-in *.pulsar.go files.
var checkedIn = map[string][]string{
	"testpb":                     {"1.proto", "2.proto", "3.proto"},
	"internal/testprotos/test3": {"internal/testprotos/test3/test.proto", "internal/testprotos/test3/test_import.proto", "internal/testprotos/test3/test_nesting.proto"},
}

// registryRequest builds a request for files already linked into this binary.
func registryRequest(paths []string, param string) *pluginpb.CodeGeneratorRequest {
	var ordered []*descriptorpb.FileDescriptorProto
	seen := map[string]bool{}
	var visit func(p string)
	visit = func(p string) {
		if seen[p] {
			return
		}
		seen[p] = true
		fd, err := protoregistry.GlobalFiles.FindFileByPath(p)
		if err != nil {
			die("registry: %s: %v", p, err)
		}
		fp := protodesc.ToFileDescriptorProto(fd)
		for _, d := range fp.Dependency {
			visit(d)
		}
		ordered = append(ordered, fp)
	}
	for _, p := range paths {
		visit(p)
	}
	req := &pluginpb.CodeGeneratorRequest{FileToGenerate: paths, ProtoFile: ordered}
	if param != "" {
		req.Parameter = proto.String(param)
	}
	return req
}

// cmdRegen regenerates the checked-in packages (without source comments, which are not
// available from the linked descriptors) into --out, for diffing two plugin builds.
func cmdRegen(args []string) {
	fs := flag.NewFlagSet("regen", flag.ExitOnError)
	plugin := fs.String("plugin", "", "plugin binary")
	out := fs.String("out", "", "output dir")
	fs.Parse(args)
	for dir, files := range checkedIn {
		req := registryRequest(files, "paths=source_relative")
		resp, stderr, err := RunPlugin(*plugin, req, nil)
		if err != nil {
			die("regen %s: %v\n%s", dir, err, stderr)
		}
		if resp.Error != nil {
			die("regen %s: %s", dir, resp.GetError())
		}
		for _, f := range resp.File {
			name := f.GetName()
			if !strings.Contains(name, "/") {
				name = filepath.Join(dir, name)
			}
			p := filepath.Join(*out, name)
			os.MkdirAll(filepath.Dir(p), 0o755)
			os.WriteFile(p, []byte(f.GetContent()), 0o644)
		}
	}
}
