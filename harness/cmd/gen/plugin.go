package main

func cmdPlugin(args []string) { die("not implemented") }
