// Command gen turns corpus schemas into plugin requests, runs the plugin binary built from the
// working tree, and writes the generated sources into the scratch module (zzverif/gen/<pkg>).
package main

import (
	"bytes"
	"encoding/json"
	"flag"
	"fmt"
	"os"
	"os/exec"
	"path/filepath"
	"strings"

	"github.com/cosmos/cosmos-proto/zzverif/corpus"
	"google.golang.org/protobuf/compiler/protogen"
	"google.golang.org/protobuf/proto"
	"google.golang.org/protobuf/reflect/protodesc"
	"google.golang.org/protobuf/reflect/protoreflect"
	"google.golang.org/protobuf/reflect/protoregistry"
	"google.golang.org/protobuf/types/descriptorpb"
	"google.golang.org/protobuf/types/pluginpb"

	_ "github.com/cosmos/cosmos-proto" // cosmos.proto options
	_ "google.golang.org/protobuf/types/known/anypb"
	_ "google.golang.org/protobuf/types/known/durationpb"
	_ "google.golang.org/protobuf/types/known/fieldmaskpb"
	_ "google.golang.org/protobuf/types/known/timestamppb"
)

type GroupResult struct {
	Group    string   `json:"group"`
	Files    []string `json:"files"`   // proto files requested
	GoPkgs   []string `json:"gopkgs"`  // go import paths generated
	Written  []string `json:"written"` // paths written relative to module root
	Error    string   `json:"error"`   // plugin response error
	Crash    string   `json:"crash"`   // process-level failure (exit code, stderr)
	Tags     []string `json:"tags"`
	ReqPath  string   `json:"req_path"` // serialized request (replay)
	Messages []string `json:"messages"` // full names of all messages (non map-entry)
	Stderr   string   `json:"stderr,omitempty"`
	// Surface lists the exported Go identifiers protoc-gen-go's naming rules assign to the
	// entities of the requested files (computed with protogen from the request, not read from the
	// plugin's output): the worker is linked against exactly these names.
	Surface []SurfaceEntry `json:"surface,omitempty"`
}

type SurfaceEntry struct {
	Pkg  string `json:"pkg"`  // Go import path
	Go   string `json:"go"`   // exported identifier
	Kind string `json:"kind"` // message | enum | enumval | ext
	Full string `json:"full"` // protobuf full name
	Num  int32  `json:"num"`  // enum value number
}

// surfaceOf derives the exported identifiers of the files to generate.
func surfaceOf(req *pluginpb.CodeGeneratorRequest) []SurfaceEntry {
	gen, err := protogen.Options{}.New(req)
	if err != nil {
		return nil
	}
	var out []SurfaceEntry
	var enums func(es []*protogen.Enum)
	enums = func(es []*protogen.Enum) {
		for _, e := range es {
			out = append(out, SurfaceEntry{Pkg: string(e.GoIdent.GoImportPath), Go: e.GoIdent.GoName, Kind: "enum", Full: string(e.Desc.FullName())})
			for _, v := range e.Values {
				out = append(out, SurfaceEntry{Pkg: string(v.GoIdent.GoImportPath), Go: v.GoIdent.GoName, Kind: "enumval", Full: string(e.Desc.FullName()), Num: int32(v.Desc.Number())})
			}
		}
	}
	exts := func(xs []*protogen.Extension) {
		for _, x := range xs {
			out = append(out, SurfaceEntry{Pkg: string(x.GoIdent.GoImportPath), Go: "E_" + x.GoIdent.GoName, Kind: "ext", Full: string(x.Desc.FullName())})
		}
	}
	var msgs func(ms []*protogen.Message)
	msgs = func(ms []*protogen.Message) {
		for _, m := range ms {
			if m.Desc.IsMapEntry() {
				continue
			}
			out = append(out, SurfaceEntry{Pkg: string(m.GoIdent.GoImportPath), Go: m.GoIdent.GoName, Kind: "message", Full: string(m.Desc.FullName())})
			enums(m.Enums)
			exts(m.Extensions)
			msgs(m.Messages)
		}
	}
	for _, f := range gen.Files {
		if !f.Generate {
			continue
		}
		enums(f.Enums)
		exts(f.Extensions)
		msgs(f.Messages)
	}
	return out
}

func die(f string, a ...any) {
	fmt.Fprintf(os.Stderr, "gen: "+f+"\n", a...)
	os.Exit(2)
}

// wellKnown returns the FileDescriptorProto of a file already linked into this binary.
func wellKnown(path string) *descriptorpb.FileDescriptorProto {
	fd, err := protoregistry.GlobalFiles.FindFileByPath(path)
	if err != nil {
		return nil
	}
	return protodesc.ToFileDescriptorProto(fd)
}

// BuildRequest assembles a CodeGeneratorRequest for the given files (all of `universe` are
// available as dependencies).
func BuildRequest(universe []*corpus.File, toGen []string, param string) *pluginpb.CodeGeneratorRequest {
	byName := map[string]*corpus.File{}
	for _, f := range universe {
		byName[f.Name] = f
	}
	var ordered []*descriptorpb.FileDescriptorProto
	seen := map[string]bool{}
	var visit func(name string)
	visit = func(name string) {
		if seen[name] {
			return
		}
		seen[name] = true
		if f, ok := byName[name]; ok {
			for _, d := range f.Deps {
				visit(d)
			}
			ordered = append(ordered, f.ToProto())
			return
		}
		wk := wellKnown(name)
		if wk == nil {
			die("unknown dependency %q", name)
		}
		for _, d := range wk.Dependency {
			visit(d)
		}
		if name == "cosmos_proto/cosmos.proto" {
			// the descriptor linked into this binary carries the go_package of the proto
			// source tree; the Go package actually lives at the module root
			if wk.Options == nil {
				wk.Options = &descriptorpb.FileOptions{}
			}
			wk.Options.GoPackage = proto.String("github.com/cosmos/cosmos-proto;cosmos_proto")
		}
		ordered = append(ordered, wk)
	}
	for _, n := range toGen {
		visit(n)
	}
	req := &pluginpb.CodeGeneratorRequest{FileToGenerate: toGen, ProtoFile: ordered}
	if param != "" {
		req.Parameter = proto.String(param)
	}
	return req
}

// RunPlugin executes the plugin in a fresh process.
func RunPlugin(plugin string, req *pluginpb.CodeGeneratorRequest, env []string) (*pluginpb.CodeGeneratorResponse, string, error) {
	return RunPluginIn(plugin, req, env, "")
}

// RunPluginIn runs the plugin with the given working directory ("" = the caller's).
func RunPluginIn(plugin string, req *pluginpb.CodeGeneratorRequest, env []string, dir string) (*pluginpb.CodeGeneratorResponse, string, error) {
	in, err := proto.Marshal(req)
	if err != nil {
		die("marshal request: %v", err)
	}
	cmd := exec.Command(plugin)
	cmd.Dir = dir
	cmd.Stdin = bytes.NewReader(in)
	var out, errb bytes.Buffer
	cmd.Stdout = &out
	cmd.Stderr = &errb
	if env != nil {
		cmd.Env = env
	}
	if err := cmd.Run(); err != nil {
		return nil, errb.String(), fmt.Errorf("plugin process: %v", err)
	}
	resp := &pluginpb.CodeGeneratorResponse{}
	if err := proto.Unmarshal(out.Bytes(), resp); err != nil {
		return nil, errb.String(), fmt.Errorf("plugin output unparsable: %v", err)
	}
	return resp, errb.String(), nil
}

func allMessages(fd *descriptorpb.FileDescriptorProto) []string {
	var out []string
	var walk func(prefix string, ms []*descriptorpb.DescriptorProto)
	walk = func(prefix string, ms []*descriptorpb.DescriptorProto) {
		for _, m := range ms {
			if m.GetOptions().GetMapEntry() {
				continue
			}
			n := prefix + "." + m.GetName()
			out = append(out, strings.TrimPrefix(n, "."))
			walk(n, m.NestedType)
		}
	}
	walk("."+fd.GetPackage(), fd.MessageType)
	return out
}

func cmdCorpus(args []string) {
	fs := flag.NewFlagSet("corpus", flag.ExitOnError)
	root := fs.String("root", "", "module root of the scratch tree")
	plugin := fs.String("plugin", "", "plugin binary")
	probes := fs.Bool("probes", false, "include probe groups for known findings")
	extra := fs.String("extra", "", "JSON file with extra corpus.File schemas (e.g. TLC-generated)")
	out := fs.String("out", "", "result JSON path")
	only := fs.String("only", "", "comma separated groups (default all)")
	fs.Parse(args)
	files := corpus.AllStatic(*probes)
	if *extra != "" {
		b, err := os.ReadFile(*extra)
		if err != nil {
			die("%v", err)
		}
		var ex []*corpus.File
		if err := json.Unmarshal(b, &ex); err != nil {
			die("extra: %v", err)
		}
		files = append(files, ex...)
	}
	onlySet := map[string]bool{}
	for _, g := range strings.Split(*only, ",") {
		if g != "" {
			onlySet[g] = true
		}
	}
	var results []GroupResult
	for _, g := range corpus.Groups(files) {
		if len(onlySet) > 0 && !onlySet[g] {
			continue
		}
		var toGen []string
		res := GroupResult{Group: g}
		pk := map[string]bool{}
		for _, f := range files {
			if f.Group == g {
				toGen = append(toGen, f.Name)
				res.Tags = f.Tags
				if !pk[f.GoImportPath()] {
					pk[f.GoImportPath()] = true
					res.GoPkgs = append(res.GoPkgs, f.GoImportPath())
				}
				res.Messages = append(res.Messages, allMessages(f.ToProto())...)
			}
		}
		res.Files = toGen
		req := BuildRequest(files, toGen, "")
		reqBytes, _ := proto.Marshal(req)
		res.ReqPath = filepath.Join(*root, "zzverif", "gen", g+".req.bin")
		os.MkdirAll(filepath.Dir(res.ReqPath), 0o755)
		os.WriteFile(res.ReqPath, reqBytes, 0o644)
		res.Surface = surfaceOf(req)
		resp, stderr, err := RunPlugin(*plugin, req, nil)
		res.Stderr = trunc(stderr, 2000)
		if err != nil {
			res.Crash = err.Error()
			results = append(results, res)
			continue
		}
		if resp.Error != nil {
			res.Error = resp.GetError()
			results = append(results, res)
			continue
		}
		for _, f := range resp.File {
			name := f.GetName()
			if !strings.HasPrefix(name, corpus.ModPath+"/") {
				res.Error = "unexpected output path " + name
				continue
			}
			rel := strings.TrimPrefix(name, corpus.ModPath+"/")
			p := filepath.Join(*root, rel)
			os.MkdirAll(filepath.Dir(p), 0o755)
			if err := os.WriteFile(p, []byte(f.GetContent()), 0o644); err != nil {
				die("%v", err)
			}
			res.Written = append(res.Written, rel)
		}
		results = append(results, res)
	}
	b, _ := json.MarshalIndent(results, "", " ")
	if *out == "" {
		os.Stdout.Write(b)
	} else if err := os.WriteFile(*out, b, 0o644); err != nil {
		die("%v", err)
	}
}

func trunc(s string, n int) string {
	if len(s) > n {
		return s[:n] + "…"
	}
	return s
}

// cmdDump writes the corpus schemas as JSON (input to Schema.tla's WellFormed check).
func cmdDump(args []string) {
	fs := flag.NewFlagSet("dump", flag.ExitOnError)
	probes := fs.Bool("probes", true, "")
	known := fs.String("known", "", "write the list of known type names to this file")
	fs.Parse(args)
	files := corpus.AllStatic(*probes)
	for _, f := range files {
		f.Canon()
	}
	b, _ := json.Marshal(files)
	os.Stdout.Write(b)
	if *known != "" {
		kb, _ := json.Marshal(corpus.KnownTypes(files))
		os.WriteFile(*known, kb, 0o644)
	}
}

var _ = protoreflect.FullName("")

func main() {
	if len(os.Args) < 2 {
		die("usage: gen <corpus|dump|plugin> ...")
	}
	switch os.Args[1] {
	case "corpus":
		cmdCorpus(os.Args[2:])
	case "dump":
		cmdDump(os.Args[2:])
	case "plugin":
		cmdPlugin(os.Args[2:])
	case "regen":
		cmdRegen(os.Args[2:])
	default:
		die("unknown subcommand %s", os.Args[1])
	}
}
