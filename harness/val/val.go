// Package val generates message values (boundary-heavy, seeded) for arbitrary descriptors, using
// dynamicpb (the reference implementation) as the carrier.
package val

import (
	"bytes"
	"math"
	"math/rand"
	"strings"

	"google.golang.org/protobuf/encoding/protowire"
	"google.golang.org/protobuf/proto"
	"google.golang.org/protobuf/reflect/protoreflect"
	"google.golang.org/protobuf/types/dynamicpb"
)

var i64pool = []int64{0, 1, -1, 2, 63, 64, 127, 128, 255, 256, 16383, 16384, -128, -129, 2097151, 2097152,
	268435455, 268435456, math.MaxInt32, math.MaxInt32 + 1, math.MinInt32, math.MinInt32 - 1, 1<<32 - 1, 1 << 32, 1<<32 + 1,
	1<<35 - 1, 1 << 35, 1<<42 - 1, 1 << 42, 1<<49 - 1, 1 << 49, 1<<56 - 1, 1 << 56, 1<<62 - 1, 1 << 62,
	math.MaxInt64, math.MinInt64, math.MinInt64 + 1, -1 << 32, -(1 << 32) - 1, -64, -65, -8192, -8193}

var u64pool = []uint64{0, 1, 127, 128, 16383, 16384, 2097151, 2097152, 268435455, 268435456, 1<<31 - 1, 1 << 31, 1<<32 - 1, 1 << 32,
	1<<35 - 1, 1 << 35, 1<<42 - 1, 1 << 42, 1<<49 - 1, 1 << 49, 1<<56 - 1, 1 << 56, 1<<63 - 1, 1 << 63, 1<<63 + 1, math.MaxUint64, math.MaxUint64 - 1}

var f64pool = []uint64{0, 1 << 63, math.Float64bits(1), math.Float64bits(-1.5), math.Float64bits(math.Inf(1)), math.Float64bits(math.Inf(-1)),
	0x7ff8000000000001, 0xfff8000000000000, 0x7ff80000deadbeef, 1, 0x000fffffffffffff, math.Float64bits(math.MaxFloat64), math.Float64bits(math.SmallestNonzeroFloat64),
	math.Float64bits(3.141592653589793), math.Float64bits(1e-300)}

// quiet NaNs only: signalling float32 NaNs do not survive protoreflect.Value (see DESIGN 3.1)
var f32pool = []uint32{0, 1 << 31, math.Float32bits(1), math.Float32bits(-1.5), math.Float32bits(float32(math.Inf(1))), math.Float32bits(float32(math.Inf(-1))),
	0x7fc00001, 0xffc00000, 0x7fc0beef, 1, 0x007fffff, math.Float32bits(math.MaxFloat32), math.Float32bits(math.SmallestNonzeroFloat32), math.Float32bits(2.5)}

var strpool = []string{"", "a", "ab", "hello world", "héllo", "日本語", "\x00", "a\x00b", "ÿ", "😀 emoji", strings.Repeat("x", 127), strings.Repeat("y", 128), strings.Repeat("z", 200), "k1", "k2", "k3", "Z", "aa"}

var bytespool = [][]byte{{}, {0}, {0xff}, {0, 0}, {1, 2, 3}, []byte("bytes"), {0x80, 0x80, 0x80}, []byte(strings.Repeat("\xa5", 130)), {0x0a, 0x00}}

type Gen struct {
	R        *rand.Rand
	MaxDepth int
	MaxLen   int  // max list/map length
	Unknown  bool // attach unknown fields
	// ZeroBias is the probability (percent) of drawing an explicit zero for a scalar
	ZeroBias int
	// Budget bounds the number of fields/elements populated per top-level value
	Budget int
	left   int
	// Force: field numbers of the top-level message that are always populated (with a non-default
	// value where the kind allows), so that a series of cases covers every field of a wide message
	Force       map[protoreflect.FieldNumber]bool
	rootName    protoreflect.FullName
	nestedForce int
	chase       int
	// LongLists is the probability (percent) that a populated scalar list gets 15..129 elements
	LongLists int
}

// Cover arranges for case number c of n to force the fields whose index is congruent to c.
func (g *Gen) Cover(md protoreflect.MessageDescriptor, c, n int) {
	g.Force = map[protoreflect.FieldNumber]bool{}
	if n <= 0 {
		return
	}
	for i := 0; i < md.Fields().Len(); i++ {
		if i%n == c%n {
			g.Force[md.Fields().Get(i).Number()] = true
		}
	}
}

func New(seed int64) *Gen {
	return &Gen{R: rand.New(rand.NewSource(seed)), MaxDepth: 3, MaxLen: 4, Unknown: true, ZeroBias: 10, Budget: 80, left: 80, LongLists: 4}
}

func (g *Gen) i64() int64 {
	if g.R.Intn(100) < 70 {
		return i64pool[g.R.Intn(len(i64pool))]
	}
	return int64(g.R.Uint64())
}
func (g *Gen) u64() uint64 {
	if g.R.Intn(100) < 70 {
		return u64pool[g.R.Intn(len(u64pool))]
	}
	return g.R.Uint64() >> uint(g.R.Intn(64))
}

// longLen draws a payload length at a length-prefix boundary (1|2 bytes at 127/128, the
// neighbourhood of 255/256/511/512, rarely 2|3 bytes at 16383/16384).
func (g *Gen) longLen() int {
	if g.R.Intn(8) == 0 {
		return []int{16383, 16384}[g.R.Intn(2)]
	}
	return []int{253, 254, 255, 256, 257, 511, 512, 767}[g.R.Intn(8)]
}

func (g *Gen) Str() string {
	if g.LongLists > 0 && g.R.Intn(100) < 2 {
		return strings.Repeat("s", g.longLen())
	}
	if g.R.Intn(100) < 80 {
		return strpool[g.R.Intn(len(strpool))]
	}
	n := g.R.Intn(40)
	rs := make([]rune, n)
	for i := range rs {
		rs[i] = rune([]int32{'a', 'z', 'A', '0', ' ', 0xe9, 0x4e2d, 0x1f600, '\n', '"', '\\'}[g.R.Intn(11)])
	}
	return string(rs)
}

func (g *Gen) BytesV() []byte {
	if g.LongLists > 0 && g.R.Intn(100) < 2 {
		return bytes.Repeat([]byte{0x80}, g.longLen())
	}
	if g.R.Intn(100) < 70 {
		return append([]byte(nil), bytespool[g.R.Intn(len(bytespool))]...)
	}
	n := g.R.Intn(300)
	b := make([]byte, n)
	g.R.Read(b)
	return b
}

// Scalar draws a value for a non-message field descriptor (element type).
func (g *Gen) Scalar(fd protoreflect.FieldDescriptor) protoreflect.Value {
	zero := g.R.Intn(100) < g.ZeroBias
	switch fd.Kind() {
	case protoreflect.BoolKind:
		return protoreflect.ValueOfBool(!zero && g.R.Intn(2) == 0)
	case protoreflect.Int32Kind, protoreflect.Sint32Kind, protoreflect.Sfixed32Kind:
		if zero {
			return protoreflect.ValueOfInt32(0)
		}
		return protoreflect.ValueOfInt32(int32(g.i64()))
	case protoreflect.Uint32Kind, protoreflect.Fixed32Kind:
		if zero {
			return protoreflect.ValueOfUint32(0)
		}
		return protoreflect.ValueOfUint32(uint32(g.u64()))
	case protoreflect.Int64Kind, protoreflect.Sint64Kind, protoreflect.Sfixed64Kind:
		if zero {
			return protoreflect.ValueOfInt64(0)
		}
		return protoreflect.ValueOfInt64(g.i64())
	case protoreflect.Uint64Kind, protoreflect.Fixed64Kind:
		if zero {
			return protoreflect.ValueOfUint64(0)
		}
		return protoreflect.ValueOfUint64(g.u64())
	case protoreflect.FloatKind:
		if zero {
			return protoreflect.ValueOfFloat32(0)
		}
		if g.R.Intn(100) < 80 {
			return protoreflect.ValueOfFloat32(math.Float32frombits(f32pool[g.R.Intn(len(f32pool))]))
		}
		return protoreflect.ValueOfFloat32(float32(g.R.NormFloat64() * 1e3))
	case protoreflect.DoubleKind:
		if zero {
			return protoreflect.ValueOfFloat64(0)
		}
		if g.R.Intn(100) < 80 {
			return protoreflect.ValueOfFloat64(math.Float64frombits(f64pool[g.R.Intn(len(f64pool))]))
		}
		return protoreflect.ValueOfFloat64(g.R.NormFloat64() * 1e9)
	case protoreflect.StringKind:
		if zero {
			return protoreflect.ValueOfString("")
		}
		return protoreflect.ValueOfString(g.Str())
	case protoreflect.BytesKind:
		if zero {
			return protoreflect.ValueOfBytes(nil)
		}
		return protoreflect.ValueOfBytes(g.BytesV())
	case protoreflect.EnumKind:
		vals := fd.Enum().Values()
		if zero {
			return protoreflect.ValueOfEnum(0)
		}
		if g.R.Intn(100) < 80 {
			return protoreflect.ValueOfEnum(vals.Get(g.R.Intn(vals.Len())).Number())
		}
		return protoreflect.ValueOfEnum(protoreflect.EnumNumber(int32(g.i64()))) // open enum: undeclared number
	}
	panic("val: scalar kind " + fd.Kind().String())
}

// UnknownRecord draws a well-formed record whose field number is not declared in md.
func (g *Gen) UnknownRecord(md protoreflect.MessageDescriptor, depth int) []byte {
	var num protowire.Number
	for {
		// (19000..19999 cannot be DECLARED in a .proto file but are ordinary numbers on the wire)
		cands := []int32{g.R.Int31n(40) + 1, 15, 16, 2047, 2048, 262143, 262144, 33554431, 33554432, 536870911, 1000 + g.R.Int31n(100000), 19000, 19999, 19000 + g.R.Int31n(1000)}
		// also numbers adjacent to declared ones
		if md.Fields().Len() > 0 {
			fd := md.Fields().Get(g.R.Intn(md.Fields().Len()))
			cands = append(cands, int32(fd.Number())+1, int32(fd.Number())-1)
		}
		n := cands[g.R.Intn(len(cands))]
		if n < 1 || n > 536870911 {
			continue
		}
		if md.Fields().ByNumber(protoreflect.FieldNumber(n)) == nil {
			num = protowire.Number(n)
			break
		}
	}
	var b []byte
	switch w := g.R.Intn(5); {
	case w == 0:
		b = protowire.AppendTag(b, num, protowire.VarintType)
		b = protowire.AppendVarint(b, g.u64())
	case w == 1:
		b = protowire.AppendTag(b, num, protowire.Fixed64Type)
		b = protowire.AppendFixed64(b, g.u64())
	case w == 2:
		b = protowire.AppendTag(b, num, protowire.BytesType)
		b = protowire.AppendBytes(b, g.BytesV())
	case w == 3:
		b = protowire.AppendTag(b, num, protowire.Fixed32Type)
		b = protowire.AppendFixed32(b, uint32(g.u64()))
	default:
		b = protowire.AppendTag(b, num, protowire.StartGroupType)
		if depth < 2 {
			for i := g.R.Intn(3); i > 0; i-- {
				// group content: arbitrary records with any numbers
				inner := g.UnknownRecord(md, depth+1)
				b = append(b, inner...)
			}
		}
		b = protowire.AppendTag(b, num, protowire.EndGroupType)
	}
	return b
}

// Fill populates m (any protoreflect.Message implementation, normally dynamicpb) randomly.
func (g *Gen) Fill(m protoreflect.Message, depth int) {
	md := m.Descriptor()
	if depth == 0 {
		g.left = g.Budget
		g.rootName = md.FullName()
	}
	// recursive types: a forced field is also forced in ONE nested message of the root's own type,
	// so that the same field is populated at two nesting levels of one value (not in all of them:
	// values of self-recursive types would grow geometrically)
	if depth == 0 {
		g.nestedForce = 2
		g.chase = 0
	}
	// chase: below a forced message-valued field, singular message fields are always populated
	// for two more levels, so that a recursive schema is actually followed back to the root's type
	chased := g.chase > 0
	if chased {
		g.chase--
		defer func() { g.chase++ }()
	}
	sameAsRoot := depth == 0
	if depth > 0 && md.FullName() == g.rootName && g.nestedForce > 0 {
		g.nestedForce--
		sameAsRoot = true
	}
	followed := false
	oneofDone := map[string]bool{}
	zbOrig := g.ZeroBias
	defer func() { g.ZeroBias = zbOrig }()
	for i := 0; i < md.Fields().Len(); i++ {
		g.ZeroBias = zbOrig
		fd := md.Fields().Get(i)
		if od := fd.ContainingOneof(); od != nil && !od.IsSynthetic() {
			if oneofDone[string(od.Name())] {
				continue
			}
			oneofDone[string(od.Name())] = true
			var forced protoreflect.FieldDescriptor
			if sameAsRoot && depth < g.MaxDepth {
				for k := 0; k < od.Fields().Len(); k++ {
					if g.Force[od.Fields().Get(k).Number()] {
						forced = od.Fields().Get(k)
					}
				}
			}
			if forced == nil && g.R.Intn(4) == 0 {
				continue // oneof unset
			}
			fd = od.Fields().Get(g.R.Intn(od.Fields().Len()))
			if forced != nil {
				fd = forced
			}
			if fd.Message() != nil {
				if depth >= g.MaxDepth {
					continue
				}
				sub := m.NewField(fd)
				if g.R.Intn(3) > 0 {
					g.Fill(sub.Message(), depth+1)
				}
				m.Set(fd, sub)
			} else {
				m.Set(fd, g.Scalar(fd))
			}
			continue
		}
		force := sameAsRoot && depth < g.MaxDepth && g.Force[fd.Number()]
		// (only ONE field per chased message is followed: the first singular message field that can
		// lead back to the root's type -- following all of them explodes on self-recursive types)
		follow := chased && !followed && fd.Message() != nil && !fd.IsList() && !fd.IsMap() && depth < g.MaxDepth && g.reaches(fd.Message(), g.rootName, 4)
		if follow {
			followed = true
		}
		if !force && !follow && (g.R.Intn(100) < 35 || g.left <= 0) {
			continue
		}
		g.left--
		if force {
			g.ZeroBias = 0 // a forced field must actually be populated
			if depth == 0 {
				g.nestedForce = 2 // per forced field: the nested messages of the root's type below THIS field
			}
		}
		switch {
		case fd.IsMap():
			mp := m.Mutable(fd).Map()
			nn := g.R.Intn(g.MaxLen + 1)
			if g.R.Intn(5) == 0 {
				nn = 1 // exactly one entry, often
			}
			if force && nn == 0 {
				nn = 2
			}
			// entries whose encoded length straddles the one-/two-byte length prefix (127 / 128):
			// string keys of 110..126 bytes with values of mixed widths
			// (not in the recorders that log the state after every write: LongLists = 0 there)
			boundary := g.LongLists > 0 && fd.MapKey().Kind() == protoreflect.StringKind && fd.MapValue().Message() == nil && (g.R.Intn(100) < 8 || (force && g.R.Intn(2) == 0))
			if boundary {
				nn = 3 + g.R.Intn(3)
			}
			for n := nn; n > 0 && (g.left > 0 || force || boundary); n-- {
				g.left--
				k := g.Scalar(fd.MapKey()).MapKey()
				if boundary {
					kb := make([]byte, 110+g.R.Intn(17))
					for i := range kb {
						kb[i] = byte('a' + g.R.Intn(26))
					}
					k = protoreflect.ValueOfString(string(kb)).MapKey()
				}
				if fd.MapValue().Message() != nil {
					sub := mp.NewValue()
					if depth < g.MaxDepth && (force || g.R.Intn(3) > 0) {
						if force {
							g.chase = 2
						}
						g.Fill(sub.Message(), depth+1)
						if force {
							g.chase = 0
						}
					}
					mp.Set(k, sub)
				} else {
					mp.Set(k, g.Scalar(fd.MapValue()))
				}
			}
		case fd.IsList():
			l := m.Mutable(fd).List()
			nn := g.R.Intn(g.MaxLen + 1)
			if force && nn == 0 {
				nn = 2
			}
			long := false
			if fd.Message() == nil && g.LongLists > 0 && g.R.Intn(100) < g.LongLists {
				// element counts around the 1-byte / 2-byte length-prefix boundaries of packed runs
				nn = []int{15, 16, 17, 31, 32, 33, 127, 128, 129}[g.R.Intn(9)]
				long = true
			}
			for n := nn; n > 0 && (g.left > 0 || force || long); n-- {
				g.left--
				if fd.Message() != nil {
					sub := l.NewElement()
					if depth < g.MaxDepth && (force || g.R.Intn(3) > 0) {
						if force {
							g.chase = 2
						}
						g.Fill(sub.Message(), depth+1)
						if force {
							g.chase = 0
						}
					}
					l.Append(sub)
				} else {
					l.Append(g.Scalar(fd))
				}
			}
		case fd.Message() != nil:
			if depth >= g.MaxDepth {
				continue
			}
			sub := m.NewField(fd)
			if force || follow || g.R.Intn(4) > 0 {
				if force {
					g.chase = 2
				}
				g.Fill(sub.Message(), depth+1)
				if force {
					g.chase = 0
				}
			}
			m.Set(fd, sub)
		default:
			m.Set(fd, g.Scalar(fd))
		}
	}
	if g.Unknown && g.R.Intn(100) < 40 {
		var u []byte
		for n := 1 + g.R.Intn(3); n > 0; n-- {
			u = append(u, g.UnknownRecord(md, 0)...)
		}
		m.SetUnknown(u)
	}
}

// Dynamic draws a random dynamicpb message of type md.
func (g *Gen) Dynamic(md protoreflect.MessageDescriptor) *dynamicpb.Message {
	m := dynamicpb.NewMessage(md)
	g.Fill(m, 0)
	return m
}

func f32bits(f float32) uint32 { return math.Float32bits(f) }
func f64bits(f float64) uint64 { return math.Float64bits(f) }

// EncodeRandom returns the reference deterministic encoding of a random message of type md.
func (g *Gen) EncodeRandom(md protoreflect.MessageDescriptor, depth int) []byte {
	m := dynamicpb.NewMessage(md)
	if g.left < 10 {
		g.left = 10
	}
	g.Fill(m, depth)
	b, err := proto.MarshalOptions{Deterministic: true}.Marshal(m)
	if err != nil {
		panic(err)
	}
	return b
}

// Mutate returns a copy of d that differs from it in exactly one place (a scalar leaf, a list
// length, a map value, a oneof choice or the presence of a sub-message), never through NaNs.
func (g *Gen) Mutate(d *dynamicpb.Message) *dynamicpb.Message {
	c := proto.Clone(d).(*dynamicpb.Message)
	for try := 0; try < 20; try++ {
		if g.mutateIn(c, 0) {
			return c
		}
	}
	// nothing populated: populate one field
	md := c.Descriptor()
	if md.Fields().Len() > 0 {
		fd := md.Fields().Get(g.R.Intn(md.Fields().Len()))
		g.Force = map[protoreflect.FieldNumber]bool{fd.Number(): true}
		g.Fill(c, 0)
		g.Force = nil
	}
	return c
}

func (g *Gen) differentScalar(fd protoreflect.FieldDescriptor, old protoreflect.Value) (protoreflect.Value, bool) {
	for i := 0; i < 30; i++ {
		nv := g.Scalar(fd)
		if fd.Kind() == protoreflect.FloatKind || fd.Kind() == protoreflect.DoubleKind {
			if nv.Float() != nv.Float() || old.Float() != old.Float() { // NaN
				continue
			}
			if nv.Float() != old.Float() || math.Signbit(nv.Float()) != math.Signbit(old.Float()) {
				return nv, true
			}
			continue
		}
		if fd.Kind() == protoreflect.BytesKind {
			if string(nv.Bytes()) != string(old.Bytes()) {
				return nv, true
			}
			continue
		}
		if !nv.Equal(old) {
			return nv, true
		}
	}
	return old, false
}

func (g *Gen) mutateIn(m protoreflect.Message, depth int) bool {
	var fds []protoreflect.FieldDescriptor
	m.Range(func(fd protoreflect.FieldDescriptor, _ protoreflect.Value) bool { fds = append(fds, fd); return true })
	if len(fds) == 0 {
		return false
	}
	fd := fds[g.R.Intn(len(fds))]
	v := m.Get(fd)
	switch {
	case fd.IsMap():
		var keys []protoreflect.MapKey
		v.Map().Range(func(k protoreflect.MapKey, _ protoreflect.Value) bool { keys = append(keys, k); return true })
		k := keys[g.R.Intn(len(keys))]
		mp := m.Mutable(fd).Map()
		if fd.MapValue().Message() != nil {
			if depth < 3 && g.R.Intn(2) == 0 && g.mutateIn(mp.Get(k).Message(), depth+1) {
				return true
			}
			mp.Clear(k)
			if mp.Len() == 0 {
				mp.Set(k, mp.NewValue())
				return g.mutateIn(mp.Get(k).Message(), depth+1) || true
			}
			return true
		}
		nv, ok := g.differentScalar(fd.MapValue(), mp.Get(k))
		if ok {
			mp.Set(k, nv)
		}
		return ok
	case fd.IsList():
		l := m.Mutable(fd).List()
		i := g.R.Intn(l.Len())
		if fd.Message() != nil {
			if depth < 3 && g.R.Intn(2) == 0 && g.mutateIn(l.Get(i).Message(), depth+1) {
				return true
			}
			l.Append(l.NewElement())
			return true
		}
		if g.R.Intn(3) == 0 {
			l.Append(l.Get(i))
			return true
		}
		nv, ok := g.differentScalar(fd, l.Get(i))
		if ok {
			l.Set(i, nv)
		}
		return ok
	case fd.Message() != nil:
		if depth < 3 && g.R.Intn(3) > 0 && g.mutateIn(m.Mutable(fd).Message(), depth+1) {
			return true
		}
		if od := fd.ContainingOneof(); od != nil && od.Fields().Len() > 1 {
			for k := 0; k < od.Fields().Len(); k++ {
				if o := od.Fields().Get(k); o.Number() != fd.Number() {
					m.Set(o, m.NewField(o))
					return true
				}
			}
		}
		m.Clear(fd)
		return true
	default:
		if od := fd.ContainingOneof(); od != nil && od.Fields().Len() > 1 && g.R.Intn(2) == 0 {
			for k := 0; k < od.Fields().Len(); k++ {
				if o := od.Fields().Get(k); o.Number() != fd.Number() {
					m.Set(o, m.NewField(o))
					return true
				}
			}
		}
		nv, ok := g.differentScalar(fd, v)
		if ok {
			m.Set(fd, nv)
		}
		return ok
	}
}

// reaches reports whether a message of type `to` can occur inside a message of type md
// (through at most `hops` levels of message-valued fields).
func (g *Gen) reaches(md protoreflect.MessageDescriptor, to protoreflect.FullName, hops int) bool {
	if md.FullName() == to {
		return true
	}
	if hops == 0 {
		return false
	}
	for i := 0; i < md.Fields().Len(); i++ {
		fd := md.Fields().Get(i)
		next := fd.Message()
		if fd.IsMap() {
			next = fd.MapValue().Message()
		}
		if next != nil && !next.IsMapEntry() && g.reaches(next, to, hops-1) {
			return true
		}
	}
	return false
}
