package val

import (
	"google.golang.org/protobuf/encoding/protowire"
	"google.golang.org/protobuf/reflect/protoreflect"
	"math"
)

// A rec is one top-level record of a message encoding.
type rec struct {
	num protowire.Number
	typ protowire.Type
	raw []byte // whole record
	val []byte // payload for BytesType
}

func parseRecs(b []byte) ([]rec, bool) {
	var out []rec
	for len(b) > 0 {
		num, typ, n := protowire.ConsumeTag(b)
		if n < 0 {
			return nil, false
		}
		m := protowire.ConsumeFieldValue(num, typ, b[n:])
		if m < 0 {
			return nil, false
		}
		r := rec{num: num, typ: typ, raw: append([]byte(nil), b[:n+m]...)}
		if typ == protowire.BytesType {
			v, _ := protowire.ConsumeBytes(b[n:])
			r.val = append([]byte(nil), v...)
		}
		out = append(out, r)
		b = b[n+m:]
	}
	return out, true
}

// padVarint appends v as a varint of exactly n bytes if n is larger than the minimal size
// (non-minimal encoding), n <= 10.
func padVarint(b []byte, v uint64, n int) []byte {
	min := protowire.SizeVarint(v)
	if n <= min || n > 10 {
		return protowire.AppendVarint(b, v)
	}
	for i := 0; i < n-1; i++ {
		b = append(b, byte(v&0x7f)|0x80)
		v >>= 7
	}
	return append(b, byte(v&0x7f))
}

func (g *Gen) tag(b []byte, num protowire.Number, typ protowire.Type) []byte {
	v := protowire.EncodeTag(num, typ)
	if g.R.Intn(100) < 8 {
		return padVarint(b, v, protowire.SizeVarint(v)+1+g.R.Intn(2))
	}
	return protowire.AppendVarint(b, v)
}

// widen returns another varint value that a conforming decoder must read as the same field
// value: 32-bit kinds keep only the low 32 bits of the varint (the bits above are arbitrary: a
// peer that declared the field 64 bits wide, a sign-extended negative), a bool is any non-zero.
func (g *Gen) widen(k protoreflect.Kind, v uint64) uint64 {
	switch k {
	case protoreflect.Int32Kind, protoreflect.Uint32Kind, protoreflect.Sint32Kind, protoreflect.EnumKind:
		hi := g.R.Uint64() << 32
		switch g.R.Intn(4) {
		case 0:
			hi = 1 << 32
		case 1:
			hi = uint64(math.MaxUint32) << 32
		}
		return (v & math.MaxUint32) | hi
	case protoreflect.BoolKind:
		if v != 0 {
			return []uint64{2, 128, 1 << 32, 1 << 63, math.MaxUint64, 256}[g.R.Intn(6)]
		}
	}
	return v
}

// entryUnknown is a record of a number that is neither key nor value, of any wire type, its tag
// often padded.
func (g *Gen) entryUnknown() []byte {
	num := protowire.Number(3 + g.R.Intn(40))
	typ := []protowire.Type{protowire.VarintType, protowire.Fixed32Type, protowire.Fixed64Type, protowire.BytesType, protowire.StartGroupType}[g.R.Intn(5)]
	var u []byte
	tv := protowire.EncodeTag(num, typ)
	if g.R.Intn(100) < 35 {
		u = padVarint(u, tv, protowire.SizeVarint(tv)+1+g.R.Intn(3))
	} else {
		u = protowire.AppendVarint(u, tv)
	}
	switch typ {
	case protowire.VarintType:
		u = protowire.AppendVarint(u, g.u64())
	case protowire.Fixed32Type:
		u = protowire.AppendFixed32(u, uint32(g.R.Uint64()))
	case protowire.Fixed64Type:
		u = protowire.AppendFixed64(u, g.R.Uint64())
	case protowire.BytesType:
		u = protowire.AppendBytes(u, make([]byte, g.R.Intn(4)))
	case protowire.StartGroupType:
		if g.R.Intn(2) == 0 {
			u = protowire.AppendTag(u, 1, protowire.VarintType)
			u = protowire.AppendVarint(u, g.u64())
		}
		u = protowire.AppendVarint(u, protowire.EncodeTag(num, protowire.EndGroupType))
	}
	return u
}

func (g *Gen) bytesRec(num protowire.Number, payload []byte) rec {
	var b []byte
	b = g.tag(b, num, protowire.BytesType)
	if g.R.Intn(100) < 8 {
		b = padVarint(b, uint64(len(payload)), protowire.SizeVarint(uint64(len(payload)))+1)
	} else {
		b = protowire.AppendVarint(b, uint64(len(payload)))
	}
	b = append(b, payload...)
	return rec{num: num, typ: protowire.BytesType, raw: b, val: payload}
}

func isPackable(fd protoreflect.FieldDescriptor) bool {
	if !fd.IsList() {
		return false
	}
	switch fd.Kind() {
	case protoreflect.StringKind, protoreflect.BytesKind, protoreflect.MessageKind, protoreflect.GroupKind:
		return false
	}
	return true
}

func elemWireType(k protoreflect.Kind) protowire.Type {
	switch k {
	case protoreflect.Fixed32Kind, protoreflect.Sfixed32Kind, protoreflect.FloatKind:
		return protowire.Fixed32Type
	case protoreflect.Fixed64Kind, protoreflect.Sfixed64Kind, protoreflect.DoubleKind:
		return protowire.Fixed64Type
	case protoreflect.StringKind, protoreflect.BytesKind, protoreflect.MessageKind:
		return protowire.BytesType
	}
	return protowire.VarintType
}

// splitPacked returns the element encodings of a packed run.
func splitPacked(k protoreflect.Kind, b []byte) [][]byte {
	var out [][]byte
	for len(b) > 0 {
		var n int
		switch elemWireType(k) {
		case protowire.VarintType:
			_, n = protowire.ConsumeVarint(b)
		case protowire.Fixed32Type:
			n = 4
		case protowire.Fixed64Type:
			n = 8
		}
		if n <= 0 || n > len(b) {
			return nil
		}
		out = append(out, b[:n])
		b = b[n:]
	}
	return out
}

func concat(bs [][]byte) []byte {
	var out []byte
	for _, b := range bs {
		out = append(out, b...)
	}
	return out
}

// scalarBytes encodes a random scalar of fd's element kind as a record value (no tag).
func (g *Gen) scalarBytes(fd protoreflect.FieldDescriptor) []byte {
	v := g.Scalar(fd)
	var b []byte
	w := func(x uint64) uint64 {
		if g.R.Intn(5) == 0 {
			return g.widen(fd.Kind(), x)
		}
		return x
	}
	switch fd.Kind() {
	case protoreflect.BoolKind:
		x := uint64(0)
		if v.Bool() {
			x = 1
		}
		return protowire.AppendVarint(b, w(x))
	case protoreflect.Int32Kind, protoreflect.Int64Kind:
		return protowire.AppendVarint(b, w(uint64(v.Int())))
	case protoreflect.EnumKind:
		return protowire.AppendVarint(b, w(uint64(int64(v.Enum()))))
	case protoreflect.Sint32Kind, protoreflect.Sint64Kind:
		return protowire.AppendVarint(b, w(protowire.EncodeZigZag(v.Int())))
	case protoreflect.Uint32Kind, protoreflect.Uint64Kind:
		return protowire.AppendVarint(b, w(v.Uint()))
	case protoreflect.Sfixed32Kind:
		return protowire.AppendFixed32(b, uint32(v.Int()))
	case protoreflect.Fixed32Kind:
		return protowire.AppendFixed32(b, uint32(v.Uint()))
	case protoreflect.FloatKind:
		return protowire.AppendFixed32(b, f32bits(float32(v.Float())))
	case protoreflect.Sfixed64Kind:
		return protowire.AppendFixed64(b, uint64(v.Int()))
	case protoreflect.Fixed64Kind:
		return protowire.AppendFixed64(b, v.Uint())
	case protoreflect.DoubleKind:
		return protowire.AppendFixed64(b, f64bits(v.Float()))
	case protoreflect.StringKind:
		return protowire.AppendBytes(b, []byte(v.String()))
	case protoreflect.BytesKind:
		return protowire.AppendBytes(b, v.Bytes())
	}
	panic("scalarBytes")
}

// xformEntry rewrites a map entry payload: reorder, drop, duplicate key/value, add unknown inner.
func (g *Gen) xformEntry(fd protoreflect.FieldDescriptor, payload []byte, depth int) []byte {
	rs, ok := parseRecs(payload)
	if !ok {
		return payload
	}
	var key, val []rec
	for _, r := range rs {
		if r.num == 1 {
			key = append(key, r)
		} else if r.num == 2 {
			val = append(val, r)
		}
	}
	valIsMsg := fd.MapValue().Message() != nil
	if valIsMsg && len(val) == 1 && depth < 3 && g.R.Intn(2) == 0 {
		val[0] = g.bytesRec(2, g.Xform(fd.MapValue().Message(), val[0].val, depth+1))
	}
	out := [][]byte{}
	add := func(rs []rec) {
		for _, r := range rs {
			out = append(out, r.raw)
		}
	}
	switch g.R.Intn(8) {
	case 0: // value before key
		add(val)
		add(key)
	case 1: // key only
		add(key)
	case 2: // value only
		add(val)
	case 3: // duplicated scalar key: last wins
		var b []byte
		b = protowire.AppendTag(b, 1, elemWireType(fd.MapKey().Kind()))
		b = append(b, g.scalarBytes(fd.MapKey())...)
		out = append(out, b)
		add(key)
		add(val)
	case 4: // duplicated scalar value: last wins (never for message values, see DESIGN 3.1)
		if !valIsMsg {
			var b []byte
			b = protowire.AppendTag(b, 2, elemWireType(fd.MapValue().Kind()))
			b = append(b, g.scalarBytes(fd.MapValue())...)
			add(key)
			out = append(out, b)
			add(val)
		} else {
			add(key)
			add(val)
		}
	case 5: // unknown inner record (skipped)
		add(key)
		out = append(out, g.entryUnknown())
		add(val)
	case 6: // empty entry
	default:
		add(key)
		add(val)
	}
	return concat(out)
}

// Xform rewrites a valid encoding b of a message of type md into another well-typed stream:
// records reordered, duplicated, packed runs split / unpacked, scalars packed, non-minimal
// varints, singular sub-messages split in two, partial map entries, unknown records injected.
func (g *Gen) Xform(md protoreflect.MessageDescriptor, b []byte, depth int) []byte {
	rs, ok := parseRecs(b)
	if !ok {
		return b
	}
	var out []rec
	for _, r := range rs {
		fd := md.Fields().ByNumber(r.num)
		if fd == nil {
			out = append(out, r)
			continue
		}
		if !fd.IsList() && !fd.IsMap() && fd.Message() == nil && g.R.Intn(100) < 20 {
			// an explicitly encoded DEFAULT value of the same singular field in front (non-canonical
			// but valid: the later occurrence wins) -- empty string / bytes, zero number
			var x []byte
			x = g.tag(x, r.num, elemWireType(fd.Kind()))
			switch elemWireType(fd.Kind()) {
			case protowire.VarintType, protowire.BytesType:
				x = append(x, 0)
			case protowire.Fixed32Type:
				x = append(x, 0, 0, 0, 0)
			case protowire.Fixed64Type:
				x = append(x, 0, 0, 0, 0, 0, 0, 0, 0)
			}
			out = append(out, rec{num: r.num, typ: elemWireType(fd.Kind()), raw: x})
		}
		switch {
		case fd.IsMap() && r.typ == protowire.BytesType:
			if g.R.Intn(100) < 60 {
				out = append(out, g.bytesRec(r.num, g.xformEntry(fd, r.val, depth)))
			} else {
				out = append(out, r)
			}
		case fd.Message() != nil && r.typ == protowire.BytesType:
			payload := r.val
			if depth < 3 && g.R.Intn(100) < 60 {
				payload = g.Xform(fd.Message(), payload, depth+1)
			}
			sub, ok := parseRecs(payload)
			if ok && len(sub) >= 2 && !fd.IsList() && g.R.Intn(100) < 40 {
				// split a singular (or oneof member) sub-message into two records: must merge
				k := 1 + g.R.Intn(len(sub)-1)
				var p1, p2 []byte
				for i, s := range sub {
					if i < k {
						p1 = append(p1, s.raw...)
					} else {
						p2 = append(p2, s.raw...)
					}
				}
				out = append(out, g.bytesRec(r.num, p1), g.bytesRec(r.num, p2))
			} else {
				out = append(out, g.bytesRec(r.num, payload))
			}
		case isPackable(fd) && r.typ == protowire.BytesType:
			els := splitPacked(fd.Kind(), r.val)
			if elemWireType(fd.Kind()) == protowire.VarintType && els != nil && g.R.Intn(100) < 25 {
				// the same run with some elements as padded (non-minimal) varints
				var run []byte
				for _, e := range els {
					v, _ := protowire.ConsumeVarint(e)
					switch g.R.Intn(3) {
					case 0:
						run = padVarint(run, v, protowire.SizeVarint(v)+1+g.R.Intn(2))
					case 1:
						run = protowire.AppendVarint(run, g.widen(fd.Kind(), v))
					default:
						run = append(run, e...)
					}
				}
				out = append(out, g.bytesRec(r.num, run))
				continue
			}
			switch c := g.R.Intn(4); {
			case els == nil || c == 0:
				out = append(out, r)
			case c == 1 && len(els) >= 2: // split the run
				k := 1 + g.R.Intn(len(els)-1)
				out = append(out, g.bytesRec(r.num, concat(els[:k])), g.bytesRec(r.num, concat(els[k:])))
			case c == 2: // unpack
				for _, e := range els {
					var x []byte
					x = g.tag(x, r.num, elemWireType(fd.Kind()))
					if elemWireType(fd.Kind()) == protowire.VarintType && g.R.Intn(4) == 0 {
						v, _ := protowire.ConsumeVarint(e)
						x = protowire.AppendVarint(x, g.widen(fd.Kind(), v))
					} else {
						x = append(x, e...)
					}
					out = append(out, rec{num: r.num, typ: elemWireType(fd.Kind()), raw: x})
				}
			default: // an empty run in front
				out = append(out, g.bytesRec(r.num, nil), r)
			}
		case isPackable(fd) && r.typ != protowire.BytesType:
			if g.R.Intn(2) == 0 { // pack a single element
				_, _, n := protowire.ConsumeTag(r.raw)
				out = append(out, g.bytesRec(r.num, r.raw[n:]))
			} else {
				out = append(out, r)
			}
		case r.typ == protowire.VarintType:
			_, _, n := protowire.ConsumeTag(r.raw)
			v, _ := protowire.ConsumeVarint(r.raw[n:])
			var x []byte
			x = g.tag(x, r.num, r.typ)
			switch c := g.R.Intn(100); {
			case c < 25:
				x = padVarint(x, v, protowire.SizeVarint(v)+1+g.R.Intn(3))
			case c < 50:
				x = protowire.AppendVarint(x, g.widen(fd.Kind(), v))
			default:
				x = protowire.AppendVarint(x, v)
			}
			out = append(out, rec{num: r.num, typ: r.typ, raw: x})
		default:
			out = append(out, r)
		}
	}
	// structural edits at this level
	for k := g.R.Intn(4); k > 0 && len(out) > 0; k-- {
		switch g.R.Intn(5) {
		case 0:
			i, j := g.R.Intn(len(out)), g.R.Intn(len(out))
			out[i], out[j] = out[j], out[i]
		case 1:
			i := g.R.Intn(len(out))
			j := g.R.Intn(len(out) + 1)
			dup := out[i]
			out = append(out[:j], append([]rec{dup}, out[j:]...)...)
		case 2:
			j := g.R.Intn(len(out) + 1)
			u := rec{raw: g.UnknownRecord(md, 0)}
			out = append(out[:j], append([]rec{u}, out[j:]...)...)
		case 3:
			// a fresh record for a random scalar / oneof field (last wins / oneof replacement)
			if md.Fields().Len() == 0 {
				continue
			}
			fd := md.Fields().Get(g.R.Intn(md.Fields().Len()))
			if fd.Message() == nil && !fd.IsMap() {
				var x []byte
				x = g.tag(x, fd.Number(), elemWireType(fd.Kind()))
				x = append(x, g.scalarBytes(fd)...)
				j := g.R.Intn(len(out) + 1)
				out = append(out[:j], append([]rec{{num: fd.Number(), raw: x}}, out[j:]...)...)
			} else if fd.Message() != nil && !fd.IsMap() && depth < 3 {
				// an extra (possibly empty) occurrence of a message field
				var payload []byte
				if g.R.Intn(2) == 0 {
					payload = g.EncodeRandom(fd.Message(), depth+1)
				}
				j := g.R.Intn(len(out) + 1)
				out = append(out[:j], append([]rec{g.bytesRec(fd.Number(), payload)}, out[j:]...)...)
			}
		default:
			// rotate
			out = append(out[1:], out[0])
		}
	}
	var res []byte
	for _, r := range out {
		res = append(res, r.raw...)
	}
	return res
}

// InjectUnknown inserts unknown records of every wire type at random positions of b and,
// recursively, inside nested messages (singular, list element, map value, oneof member).
func (g *Gen) InjectUnknown(md protoreflect.MessageDescriptor, b []byte, depth int) []byte {
	rs, ok := parseRecs(b)
	if !ok {
		return b
	}
	var out [][]byte
	for _, r := range rs {
		fd := md.Fields().ByNumber(r.num)
		if fd != nil && fd.IsMap() && r.typ == protowire.BytesType && g.R.Intn(100) < 30 {
			// a record that is neither key nor value INSIDE the entry: it belongs to the synthetic
			// entry message, every decoder drops it -- it must not surface in the parent's unknown set
			u := g.entryUnknown()
			pos := []int{0, len(r.val)}[g.R.Intn(2)]
			entry := append(append(append([]byte(nil), r.val[:pos]...), u...), r.val[pos:]...)
			out = append(out, g.bytesRec(r.num, entry).raw)
			continue
		}
		if fd != nil && r.typ == protowire.BytesType && depth < 3 && g.R.Intn(100) < 70 {
			switch {
			case fd.IsMap() && fd.MapValue().Message() != nil:
				es, ok := parseRecs(r.val)
				if ok {
					var entry []byte
					for _, e := range es {
						if e.num == 2 && e.typ == protowire.BytesType {
							entry = append(entry, g.bytesRec(2, g.InjectUnknown(fd.MapValue().Message(), e.val, depth+1)).raw...)
						} else {
							entry = append(entry, e.raw...)
						}
					}
					out = append(out, g.bytesRec(r.num, entry).raw)
					continue
				}
			case !fd.IsMap() && fd.Message() != nil:
				out = append(out, g.bytesRec(r.num, g.InjectUnknown(fd.Message(), r.val, depth+1)).raw)
				continue
			}
		}
		out = append(out, r.raw)
	}
	for k := 1 + g.R.Intn(3); k > 0; k-- {
		j := g.R.Intn(len(out) + 1)
		u := g.UnknownRecord(md, 0)
		out = append(out[:j], append([][]byte{u}, out[j:]...)...)
	}
	return concat(out)
}
