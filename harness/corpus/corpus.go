// Package corpus defines the schema corpus (as data) from which plugin requests are built.
// It is the Go-side carrier of the schema universe described by spec/Schema.tla: every schema
// produced here is also dumped as JSON and checked against Schema.tla's WellFormed predicate,
// and the random schemas are produced by TLC walks of Schema.tla (see FromTLC).
package corpus

import (
	"fmt"
	"sort"
	"strings"

	cosmos_proto "github.com/cosmos/cosmos-proto"
	"google.golang.org/protobuf/proto"
	"google.golang.org/protobuf/types/descriptorpb"
)

const ModPath = "github.com/cosmos/cosmos-proto"
const GenPath = ModPath + "/zzverif/gen"

// Scalar kinds in descriptor order.
var ScalarKinds = []string{"double", "float", "int64", "uint64", "int32", "fixed64", "fixed32", "bool",
	"string", "bytes", "uint32", "sfixed32", "sfixed64", "sint32", "sint64"}

// MapKeyKinds are the kinds allowed as map keys.
var MapKeyKinds = []string{"int64", "uint64", "int32", "fixed64", "fixed32", "bool", "string",
	"uint32", "sfixed32", "sfixed64", "sint32", "sint64"}

var kindType = map[string]descriptorpb.FieldDescriptorProto_Type{
	"double": descriptorpb.FieldDescriptorProto_TYPE_DOUBLE, "float": descriptorpb.FieldDescriptorProto_TYPE_FLOAT,
	"int64": descriptorpb.FieldDescriptorProto_TYPE_INT64, "uint64": descriptorpb.FieldDescriptorProto_TYPE_UINT64,
	"int32": descriptorpb.FieldDescriptorProto_TYPE_INT32, "fixed64": descriptorpb.FieldDescriptorProto_TYPE_FIXED64,
	"fixed32": descriptorpb.FieldDescriptorProto_TYPE_FIXED32, "bool": descriptorpb.FieldDescriptorProto_TYPE_BOOL,
	"string": descriptorpb.FieldDescriptorProto_TYPE_STRING, "bytes": descriptorpb.FieldDescriptorProto_TYPE_BYTES,
	"uint32": descriptorpb.FieldDescriptorProto_TYPE_UINT32, "sfixed32": descriptorpb.FieldDescriptorProto_TYPE_SFIXED32,
	"sfixed64": descriptorpb.FieldDescriptorProto_TYPE_SFIXED64, "sint32": descriptorpb.FieldDescriptorProto_TYPE_SINT32,
	"sint64": descriptorpb.FieldDescriptorProto_TYPE_SINT64, "enum": descriptorpb.FieldDescriptorProto_TYPE_ENUM,
	"message": descriptorpb.FieldDescriptorProto_TYPE_MESSAGE,
}

// F is a field. Card: "one", "rep", "map", "oneof".
type F struct {
	Name   string `json:"name"`
	Num    int32  `json:"num"`
	Kind   string `json:"kind"`
	Card   string `json:"card"`
	Unpack bool   `json:"unpack"` // [packed=false] for repeated numerics
	Oneof  string `json:"oneof"`
	Type   string `json:"type"` // fully-qualified (leading dot) message or enum type
	KK     string `json:"kk"`   // map key kind
	VK     string `json:"vk"`   // map value kind
	VType  string `json:"vtype"`
	// cosmos_proto custom options (C19: custom options survive into the registered descriptor)
	Scalar  string `json:"scalar"`
	Accepts string `json:"accepts"`
	// explicit [json_name = ...] ("" = the default lowerCamelCase form)
	JSON string `json:"json,omitempty"`
}

type EV struct {
	Name string `json:"name"`
	Num  int32  `json:"num"`
}
type E struct {
	AllowAlias bool   `json:"allow_alias"` // option allow_alias = true (several names for one number)
	Name       string `json:"name"`
	Values     []EV   `json:"values"`
}
type M struct {
	// EntriesFirst: the synthetic map-entry messages precede the explicitly nested ones in
	// nested_type (a map field declared before a nested message), instead of following them
	EntriesFirst bool     `json:"entries_first"`
	Implements   []string `json:"implements"`
	Name         string   `json:"name"`
	Fields       []F      `json:"fields"`
	Oneofs       []string `json:"oneofs"` // declaration order
	Nested       []M      `json:"nested"`
	Enums        []E      `json:"enums"`
}

// X is a custom option (extension of a google.protobuf.*Options message) declared by a file.
type X struct {
	Name     string `json:"name"`
	Num      int32  `json:"num"`
	Kind     string `json:"kind"`
	Extendee string `json:"extendee"` // e.g. .google.protobuf.FieldOptions
}

// Svc is a service; RPC input and output are fully-qualified (leading dot) message names.
type RPC struct {
	Name string `json:"name"`
	In   string `json:"in"`
	Out  string `json:"out"`
	CS   bool   `json:"cs"` // client streaming
	SS   bool   `json:"ss"` // server streaming
}
type Svc struct {
	Name string `json:"name"`
	RPCs []RPC  `json:"rpcs"`
}

type File struct {
	Public []string `json:"public"` // the Deps imported with "import public"
	Svcs   []Svc    `json:"svcs"`
	Exts   []X      `json:"exts"`
	Name   string   `json:"name"`   // e.g. verif/s0/s0.proto
	Pkg    string   `json:"pkg"`    // proto package, e.g. verif.s0
	GoPkg  string   `json:"gopkg"`  // last path element under GenPath
	Syntax string   `json:"syntax"` // proto3 / proto2
	Deps   []string `json:"deps"`
	Msgs   []M      `json:"msgs"`
	Enums  []E      `json:"enums"`
	// Group names a unit that is generated+compiled together; a failure of one group does
	// not take the others down.
	Group string `json:"group"`
	// Tags: free-form labels ("model", "matrix", "names", "random", "probe:<finding>")
	Tags []string `json:"tags"`
}

// Canon replaces nil slices by empty ones so that the JSON form always carries every key as an
// array (TLC's JSON reader has no null).
func (f *File) Canon() *File {
	if f.Deps == nil {
		f.Deps = []string{}
	}
	if f.Syntax == "" {
		f.Syntax = "proto3"
	}
	if f.Enums == nil {
		f.Enums = []E{}
	}
	if f.Tags == nil {
		f.Tags = []string{}
	}
	if f.Exts == nil {
		f.Exts = []X{}
	}
	if f.Public == nil {
		f.Public = []string{}
	}
	if f.Svcs == nil {
		f.Svcs = []Svc{}
	}
	var fix func(ms []M)
	fix = func(ms []M) {
		for i := range ms {
			if ms[i].Oneofs == nil {
				ms[i].Oneofs = []string{}
			}
			if ms[i].Nested == nil {
				ms[i].Nested = []M{}
			}
			if ms[i].Enums == nil {
				ms[i].Enums = []E{}
			}
			if ms[i].Fields == nil {
				ms[i].Fields = []F{}
			}
			if ms[i].Implements == nil {
				ms[i].Implements = []string{}
			}
			fix(ms[i].Nested)
		}
	}
	if f.Msgs == nil {
		f.Msgs = []M{}
	}
	fix(f.Msgs)
	return f
}

// KnownTypes lists every type name (leading dot) the corpus files may reference.
func KnownTypes(files []*File) []string {
	out := []string{".google.protobuf.Any", ".google.protobuf.Timestamp", ".google.protobuf.Duration", ".google.protobuf.FieldMask"}
	for _, f := range files {
		var walk func(prefix string, ms []M)
		walk = func(prefix string, ms []M) {
			for _, m := range ms {
				out = append(out, prefix+"."+m.Name)
				for _, e := range m.Enums {
					out = append(out, prefix+"."+m.Name+"."+e.Name)
				}
				walk(prefix+"."+m.Name, m.Nested)
			}
		}
		walk("."+f.Pkg, f.Msgs)
		for _, e := range f.Enums {
			out = append(out, "."+f.Pkg+"."+e.Name)
		}
	}
	return out
}

func (f *File) GoImportPath() string { return GenPath + "/" + f.GoPkg }

func camel(s string) string {
	// protoc's ToCamelCase for map entry names: capitalise first letter and letters after '_'
	var b strings.Builder
	up := true
	for _, c := range s {
		if c == '_' {
			up = true
			continue
		}
		if up && c >= 'a' && c <= 'z' {
			c = c - 'a' + 'A'
		}
		up = false
		b.WriteRune(c)
	}
	return b.String()
}

// jsonName mirrors protoc's ToJsonName.
func jsonName(s string) string {
	var b strings.Builder
	up := false
	for _, c := range s {
		if c == '_' {
			up = true
			continue
		}
		if up && c >= 'a' && c <= 'z' {
			c = c - 'a' + 'A'
		}
		up = false
		b.WriteRune(c)
	}
	return b.String()
}

func (e *E) toProto() *descriptorpb.EnumDescriptorProto {
	if e.AllowAlias {
		p := e.toProtoPlain()
		p.Options = &descriptorpb.EnumOptions{AllowAlias: proto.Bool(true)}
		return p
	}
	return e.toProtoPlain()
}

func (e *E) toProtoPlain() *descriptorpb.EnumDescriptorProto {
	p := &descriptorpb.EnumDescriptorProto{Name: proto.String(e.Name)}
	for _, v := range e.Values {
		p.Value = append(p.Value, &descriptorpb.EnumValueDescriptorProto{Name: proto.String(v.Name), Number: proto.Int32(v.Num)})
	}
	return p
}

func (m *M) toProto(scope string) *descriptorpb.DescriptorProto {
	p := &descriptorpb.DescriptorProto{Name: proto.String(m.Name)}
	full := scope + "." + m.Name
	oneofIdx := map[string]int32{}
	for i, o := range m.Oneofs {
		oneofIdx[o] = int32(i)
		p.OneofDecl = append(p.OneofDecl, &descriptorpb.OneofDescriptorProto{Name: proto.String(o)})
	}
	if !m.EntriesFirst {
		for i := range m.Nested {
			p.NestedType = append(p.NestedType, m.Nested[i].toProto(full))
		}
	}
	for i := range m.Enums {
		p.EnumType = append(p.EnumType, m.Enums[i].toProto())
	}
	defer func() {
		if m.EntriesFirst {
			for i := range m.Nested {
				p.NestedType = append(p.NestedType, m.Nested[i].toProto(full))
			}
		}
	}()
	for _, f := range groupOneofs(m.Fields) {
		fp := &descriptorpb.FieldDescriptorProto{
			Name:     proto.String(f.Name),
			Number:   proto.Int32(f.Num),
			JsonName: proto.String(jsonName(f.Name)),
			Label:    descriptorpb.FieldDescriptorProto_LABEL_OPTIONAL.Enum(),
		}
		if f.JSON != "" {
			fp.JsonName = proto.String(f.JSON)
		}
		switch f.Card {
		case "map":
			entry := camel(f.Name) + "Entry"
			kf := &descriptorpb.FieldDescriptorProto{Name: proto.String("key"), Number: proto.Int32(1), JsonName: proto.String("key"),
				Label: descriptorpb.FieldDescriptorProto_LABEL_OPTIONAL.Enum(), Type: kindType[f.KK].Enum()}
			vf := &descriptorpb.FieldDescriptorProto{Name: proto.String("value"), Number: proto.Int32(2), JsonName: proto.String("value"),
				Label: descriptorpb.FieldDescriptorProto_LABEL_OPTIONAL.Enum(), Type: kindType[f.VK].Enum()}
			if f.VType != "" {
				vf.TypeName = proto.String(f.VType)
			}
			p.NestedType = append(p.NestedType, &descriptorpb.DescriptorProto{
				Name: proto.String(entry), Field: []*descriptorpb.FieldDescriptorProto{kf, vf},
				Options: &descriptorpb.MessageOptions{MapEntry: proto.Bool(true)},
			})
			fp.Label = descriptorpb.FieldDescriptorProto_LABEL_REPEATED.Enum()
			fp.Type = descriptorpb.FieldDescriptorProto_TYPE_MESSAGE.Enum()
			fp.TypeName = proto.String(full + "." + entry)
		default:
			fp.Type = kindType[f.Kind].Enum()
			if f.Type != "" {
				fp.TypeName = proto.String(f.Type)
			}
			if f.Card == "rep" {
				fp.Label = descriptorpb.FieldDescriptorProto_LABEL_REPEATED.Enum()
				if f.Unpack {
					fp.Options = &descriptorpb.FieldOptions{Packed: proto.Bool(false)}
				}
			}
			if f.Card == "oneof" {
				idx, ok := oneofIdx[f.Oneof]
				if !ok {
					panic("corpus: unknown oneof " + f.Oneof + " in " + full)
				}
				fp.OneofIndex = proto.Int32(idx)
			}
		}
		if f.Scalar != "" || f.Accepts != "" {
			if fp.Options == nil {
				fp.Options = &descriptorpb.FieldOptions{}
			}
			if f.Scalar != "" {
				proto.SetExtension(fp.Options, cosmos_proto.E_Scalar, f.Scalar)
			}
			if f.Accepts != "" {
				proto.SetExtension(fp.Options, cosmos_proto.E_AcceptsInterface, f.Accepts)
			}
		}
		p.Field = append(p.Field, fp)
	}
	if len(m.Implements) > 0 {
		p.Options = &descriptorpb.MessageOptions{}
		proto.SetExtension(p.Options, cosmos_proto.E_ImplementsInterface, m.Implements)
	}
	return p
}

// groupOneofs reorders fields so that the members of each oneof are declared consecutively
// (as protoc guarantees), keeping first-appearance order otherwise.
func groupOneofs(fs []F) []F {
	var out []F
	done := map[string]bool{}
	for _, f := range fs {
		if f.Card != "oneof" {
			out = append(out, f)
			continue
		}
		if done[f.Oneof] {
			continue
		}
		done[f.Oneof] = true
		for _, g := range fs {
			if g.Card == "oneof" && g.Oneof == f.Oneof {
				out = append(out, g)
			}
		}
	}
	return out
}

// ToProto converts the file into a FileDescriptorProto, the way protoc would emit it
// (json_name populated, no source info).
func (f *File) ToProto() *descriptorpb.FileDescriptorProto {
	p := &descriptorpb.FileDescriptorProto{
		Name:       proto.String(f.Name),
		Package:    proto.String(f.Pkg),
		Dependency: append([]string(nil), f.Deps...),
		Options:    &descriptorpb.FileOptions{GoPackage: proto.String(f.GoImportPath())},
	}
	if f.Syntax != "proto2" {
		p.Syntax = proto.String("proto3")
	}
	for i := range f.Msgs {
		p.MessageType = append(p.MessageType, f.Msgs[i].toProto("."+f.Pkg))
	}
	for i := range f.Enums {
		p.EnumType = append(p.EnumType, f.Enums[i].toProto())
	}
	for i, d := range f.Deps {
		for _, pd := range f.Public {
			if pd == d {
				p.PublicDependency = append(p.PublicDependency, int32(i))
			}
		}
	}
	for _, sv := range f.Svcs {
		sd := &descriptorpb.ServiceDescriptorProto{Name: proto.String(sv.Name)}
		for _, r := range sv.RPCs {
			md := &descriptorpb.MethodDescriptorProto{Name: proto.String(r.Name), InputType: proto.String(r.In), OutputType: proto.String(r.Out)}
			if r.CS {
				md.ClientStreaming = proto.Bool(true)
			}
			if r.SS {
				md.ServerStreaming = proto.Bool(true)
			}
			sd.Method = append(sd.Method, md)
		}
		p.Service = append(p.Service, sd)
	}
	for _, x := range f.Exts {
		p.Extension = append(p.Extension, &descriptorpb.FieldDescriptorProto{
			Name: proto.String(x.Name), Number: proto.Int32(x.Num), JsonName: proto.String(jsonName(x.Name)),
			Label: descriptorpb.FieldDescriptorProto_LABEL_OPTIONAL.Enum(), Type: kindType[x.Kind].Enum(), Extendee: proto.String(x.Extendee),
		})
	}
	return p
}

// ---------------------------------------------------------------------------------------------
// helpers for writing schemas

func one(name string, num int32, kind string, typ ...string) F {
	f := F{Name: name, Num: num, Kind: kind, Card: "one"}
	if len(typ) > 0 {
		f.Type = typ[0]
	}
	return f
}
func rep(name string, num int32, kind string, typ ...string) F {
	f := one(name, num, kind, typ...)
	f.Card = "rep"
	return f
}
func unp(name string, num int32, kind string, typ ...string) F {
	f := rep(name, num, kind, typ...)
	f.Unpack = true
	return f
}
func oo(oneof, name string, num int32, kind string, typ ...string) F {
	f := one(name, num, kind, typ...)
	f.Card = "oneof"
	f.Oneof = oneof
	return f
}
func mp(name string, num int32, kk, vk string, vtyp ...string) F {
	f := F{Name: name, Num: num, Kind: "message", Card: "map", KK: kk, VK: vk}
	if len(vtyp) > 0 {
		f.VType = vtyp[0]
	}
	return f
}

func isNumeric(k string) bool {
	switch k {
	case "string", "bytes", "message":
		return false
	}
	return true
}

// S0 is the small all-shapes model schema on which TLC enumerates exhaustively.
func S0() *File {
	pk := ".verif.s0"
	return &File{
		Name: "verif/s0/s0.proto", Pkg: "verif.s0", GoPkg: "s0", Group: "s0", Tags: []string{"model"},
		Enums: []E{{Name: "Color", Values: []EV{{"COLOR_ZERO", 0}, {"COLOR_RED", 1}, {"COLOR_NEG", -1}, {"COLOR_BIG", 2147483647}}}},
		Msgs: []M{
			{Name: "N", Fields: []F{
				one("x", 1, "string"),
				one("y", 2, "int64"),
				one("r", 3, "message", pk+".N"),
				rep("p", 4, "int32"),
				mp("m", 5, "string", "int32"),
			}},
			{Name: "M", Oneofs: []string{"o", "q"}, Fields: []F{
				one("i", 1, "int32"),
				one("d", 2, "double"),
				one("s", 3, "string"),
				one("b", 4, "bytes"),
				one("e", 5, "enum", pk+".Color"),
				one("n", 6, "message", pk+".N"),
				rep("ri", 7, "int32"),
				rep("rn", 8, "message", pk+".N"),
				mp("msi", 9, "string", "int32"),
				mp("min", 10, "int32", "message", pk+".N"),
				oo("o", "oi", 11, "int32"),
				oo("o", "os", 12, "string"),
				oo("o", "on", 13, "message", pk+".N"),
				one("z", 14, "sint64"),
				rep("rs", 15, "string"),
				one("t", 16, "bool"),
				one("f", 17, "fixed32"),
				oo("q", "qb", 19, "bytes"),
				oo("q", "qd", 18, "double"), // declared out of number order on purpose
				unp("ru", 20, "uint64"),
				one("fl", 21, "float"),
				mp("mbb", 22, "bool", "bytes"),
			}},
		},
	}
}

// Matrix: every kind in every shape; every map key kind x rotating value kinds; every wire type
// at every tag width; several interleaved oneofs with members out of numeric order.
func Matrix(includeSintOneof bool) []*File {
	pk := ".verif.mx"
	en := pk + ".En"
	sub := pk + ".Sub"
	all := M{Name: "All", Oneofs: []string{"oa", "ob", "oc"}}
	n := int32(1)
	kinds := append(append([]string{}, ScalarKinds...), "enum", "message")
	typ := func(k string) []string {
		switch k {
		case "enum":
			return []string{en}
		case "message":
			return []string{sub}
		}
		return nil
	}
	for _, k := range kinds {
		all.Fields = append(all.Fields, one("s_"+k, n, k, typ(k)...))
		n++
	}
	n = 31
	for _, k := range kinds {
		all.Fields = append(all.Fields, rep("r_"+k, n, k, typ(k)...))
		n++
	}
	n = 61
	for _, k := range kinds {
		if isNumeric(k) {
			all.Fields = append(all.Fields, unp("u_"+k, n, k, typ(k)...))
		}
		n++
	}
	// three oneofs, members interleaved in number space and declared out of order
	n = 200
	for i, k := range kinds {
		if (k == "sint32" || k == "sint64") && !includeSintOneof {
			continue
		}
		o := []string{"oa", "ob", "oc"}[i%3]
		num := n + int32((i*7)%len(kinds)) // permuted numbers
		all.Fields = append(all.Fields, oo(o, "o_"+k, num, k, typ(k)...))
	}
	// a second message member in the same oneof, so that "same message member twice" and
	// "different message member" both exist
	all.Fields = append(all.Fields, oo("oa", "o_message2", 230, "message", sub))

	subm := M{Name: "Sub", Fields: []F{
		one("a", 1, "int32"), one("b", 2, "string"), one("c", 3, "message", sub),
		rep("d", 4, "sint32"), mp("e", 5, "int32", "message", sub), one("f", 6, "bytes"),
	}, Oneofs: []string{"k"}}
	subm.Fields = append(subm.Fields, oo("k", "ka", 7, "bool"), oo("k", "kb", 8, "message", sub))

	mx := &File{Name: "verif/mx/mx.proto", Pkg: "verif.mx", GoPkg: "mx", Group: "mx", Tags: []string{"matrix"},
		Enums: []E{{Name: "En", Values: []EV{{"EN_A", 0}, {"EN_B", 4}, {"EN_C", 5}, {"EN_N", -7}}}},
		Msgs:  []M{subm, all},
	}

	// maps: every key kind x a rotating selection of value kinds, plus every value kind at least once
	mm := M{Name: "Maps"}
	n = 1
	for i, kk := range MapKeyKinds {
		for j := 0; j < 3; j++ {
			vk := kinds[(i*3+j*5)%len(kinds)]
			f := mp(fmt.Sprintf("m_%s_%s_%d", kk, vk, n), n, kk, vk)
			if vk == "enum" {
				f.VType = ".verif.mxmap.En2"
			} else if vk == "message" {
				f.VType = ".verif.mxmap.V"
			}
			mm.Fields = append(mm.Fields, f)
			n++
		}
	}
	for _, vk := range kinds {
		f := mp(fmt.Sprintf("v_%s_%d", vk, n), n, "string", vk)
		if vk == "enum" {
			f.VType = ".verif.mxmap.En2"
		} else if vk == "message" {
			f.VType = ".verif.mxmap.V"
		}
		mm.Fields = append(mm.Fields, f)
		n++
	}
	mxmap := &File{Name: "verif/mxmap/mxmap.proto", Pkg: "verif.mxmap", GoPkg: "mxmap", Group: "mxmap", Tags: []string{"matrix"},
		Enums: []E{{Name: "En2", Values: []EV{{"E2_Z", 0}, {"E2_ONE", 1}, {"E2_NEG", -1}}}},
		Msgs:  []M{{Name: "V", Fields: []F{one("a", 1, "int32"), mp("inner", 2, "int32", "string"), one("v", 3, "message", ".verif.mxmap.V")}}, mm},
	}

	// tag widths: for each wire class one field at numbers needing 1..5 tag bytes
	tw := M{Name: "Tags", Oneofs: []string{"wide"}}
	nums := []int32{1, 15, 16, 2047, 2048, 262143, 262144, 33554431, 33554432, 536870911}
	tkinds := []string{"uint64", "fixed64", "string", "fixed32", "message", "sint32"}
	for wi, num := range nums {
		k := tkinds[wi%len(tkinds)]
		f := one(fmt.Sprintf("t%d", num), num, k)
		if k == "message" {
			f.Type = ".verif.mxtag.Tags"
		}
		tw.Fields = append(tw.Fields, f)
	}
	base := []int32{20, 3000, 300000, 40000000, 536870000}
	for bi, b := range base {
		tw.Fields = append(tw.Fields,
			rep(fmt.Sprintf("rp%d", b), b, "int32"),
			unp(fmt.Sprintf("ru%d", b+1), b+1, "fixed32"),
			mp(fmt.Sprintf("mp%d", b+2), b+2, "uint32", "string"),
			rep(fmt.Sprintf("rm%d", b+3), b+3, "message", ".verif.mxtag.Tags"),
			oo("wide", fmt.Sprintf("ow%d", b+4), b+4, []string{"string", "uint32", "double", "message", "fixed32"}[bi], map[bool][]string{true: {".verif.mxtag.Tags"}, false: nil}[bi == 3]...),
			rep(fmt.Sprintf("rs%d", b+5), b+5, "bytes"),
			one(fmt.Sprintf("sd%d", b+6), b+6, "double"),
		)
	}
	mxtag := &File{Name: "verif/mxtag/mxtag.proto", Pkg: "verif.mxtag", GoPkg: "mxtag", Group: "mxtag", Tags: []string{"matrix"},
		Msgs: []M{tw}}
	return []*File{mx, mxmap, mxtag}
}

// ReservedNames are the protoreflect.Message method names the generator must avoid.
var ReservedNames = []string{"Descriptor", "Type", "New", "Interface", "Range", "Has", "Clear", "Get", "Set",
	"Mutable", "NewField", "WhichOneof", "GetUnknown", "SetUnknown", "IsValid", "ProtoMethods"}

func snake(s string) string {
	var b strings.Builder
	for i, c := range s {
		if c >= 'A' && c <= 'Z' {
			if i > 0 {
				b.WriteByte('_')
			}
			c = c - 'A' + 'a'
		}
		b.WriteRune(c)
	}
	return b.String()
}

// Names: field names colliding with reserved method names and with identifiers used inside
// generated function bodies.
func Names() []*File {
	m := M{Name: "Collide"}
	n := int32(1)
	for i, r := range ReservedNames {
		k := ScalarKinds[i%len(ScalarKinds)]
		m.Fields = append(m.Fields, one(snake(r), n, k))
		n++
	}
	locals := []string{"x", "n", "l", "i", "dAtA", "options", "size", "input", "err", "value", "fd", "v", "b",
		"wire", "fieldNum", "wireType", "iNdEx", "preIndex", "postIndex", "skippy", "mapkey", "mapvalue",
		"unknownFields", "sizeCache", "state", "m", "k", "f", "descriptor", "shift", "msglen", "stringLen",
		"string", "int32", "bool", "len", "append", "make", "proto", "fmt", "io", "math", "sort", "runtime",
		"protoreflect", "protoiface", "protoimpl", "binary", "reflect", "sync"}
	lm := M{Name: "Locals", Oneofs: []string{"sum"}}
	ln := int32(1)
	for i, name := range locals {
		switch i % 5 {
		case 0:
			lm.Fields = append(lm.Fields, one(name, ln, "string"))
		case 1:
			lm.Fields = append(lm.Fields, rep(name, ln, "int64"))
		case 2:
			lm.Fields = append(lm.Fields, mp(name, ln, "string", "bytes"))
		case 3:
			lm.Fields = append(lm.Fields, one(name, ln, "message", ".verif.nm.Locals"))
		case 4:
			lm.Fields = append(lm.Fields, oo("sum", name, ln, "uint32"))
		}
		ln++
	}
	// repeated / map / message / oneof-member fields with reserved names
	shapes := M{Name: "CollideShapes", Oneofs: []string{"choice"}, Fields: []F{
		rep("get", 1, "string"), mp("set", 2, "string", "int32"), one("range", 3, "message", ".verif.nm.Collide"),
		oo("choice", "has", 4, "int32"), oo("choice", "clear", 5, "message", ".verif.nm.Collide"),
		rep("mutable", 6, "message", ".verif.nm.Collide"), one("new_field", 7, "bytes"), mp("which_oneof", 8, "int64", "message", ".verif.nm.Collide"),
	}}
	// nested messages with equal short names, nested enums
	nest := M{Name: "Outer", Fields: []F{one("a", 1, "message", ".verif.nm.Outer.Inner"), one("b", 2, "message", ".verif.nm.Outer.Mid.Inner"), one("e", 3, "enum", ".verif.nm.Outer.Kind")},
		Enums: []E{{Name: "Kind", Values: []EV{{"KIND_UNSPECIFIED", 0}, {"KIND_A", 7}}}},
		Nested: []M{
			{Name: "Inner", Fields: []F{one("v", 1, "int32")}},
			{Name: "Mid", Fields: []F{one("i", 1, "message", ".verif.nm.Outer.Mid.Inner")}, Nested: []M{{Name: "Inner", Fields: []F{one("w", 1, "string"), mp("mm", 2, "string", "message", ".verif.nm.Outer.Inner")}}}},
		}}
	// a field-less "namespace" message whose nested messages (two levels) use reserved names
	ns := M{Name: "Namespace", Nested: []M{
		{Name: "Item", Fields: []F{one("get", 1, "string"), one("descriptor", 2, "int32"), rep("range", 3, "uint32"), one("type", 4, "message", ".verif.nm.Namespace.Item")},
			Oneofs: []string{"has"}},
		{Name: "Deeper", Nested: []M{{Name: "Leaf", Fields: []F{one("set", 1, "bytes"), mp("clear", 2, "string", "int64"), one("new", 3, "bool")}}}},
	}}
	ns.Nested[0].Fields = append(ns.Nested[0].Fields, oo("has", "mutable", 5, "sint32"), oo("has", "interface", 6, "string"))
	nm := &File{Name: "verif/nm/nm.proto", Pkg: "verif.nm", GoPkg: "nm", Group: "nm", Tags: []string{"names"},
		Msgs: []M{m, lm, shapes, nest, ns,
			// names whose leading characters all occur in the package name "verif.nm" (prefix
			// stripping must not be character-set stripping), one of them lower case
			// a map field declared BEFORE a nested message: its entry type comes first in nested_type
			{Name: "MapFirst", EntriesFirst: true, Fields: []F{mp("m", 1, "string", "int32"), one("a", 2, "message", ".verif.nm.MapFirst.After"), mp("am", 3, "int32", "message", ".verif.nm.MapFirst.After")},
				Nested: []M{{Name: "After", Fields: []F{one("v", 1, "int32"), rep("w", 2, "string")}}}},
			{Name: "Params", Fields: []F{one("a", 1, "int32")}},
			{Name: "nParams", Fields: []F{one("b", 1, "string"), one("p", 2, "message", ".verif.nm.Params")}},
			{Name: "mini", Fields: []F{one("v", 1, "int32"), rep("r", 2, "message", ".verif.nm.nParams")}},
		}}
	return []*File{nm}
}

// OneofNames: oneofs (not fields) named like reserved methods. Kept in its own group because at
// the pinned commit the emitted code does not compile (DESIGN section 10, #8).
func OneofNames() []*File {
	var out []*File
	m := M{Name: "OneofCollide"}
	n := int32(1)
	for _, r := range []string{"type", "get", "range", "has", "descriptor"} {
		m.Oneofs = append(m.Oneofs, r)
		m.Fields = append(m.Fields, oo(r, r+"_a", n, "int32"), oo(r, r+"_b", n+1, "string"))
		n += 2
	}
	out = append(out, &File{Name: "verif/nmoo/nmoo.proto", Pkg: "verif.nmoo", GoPkg: "nmoo", Group: "nmoo", Tags: []string{"names", "probe:oneof-reserved-name"},
		Msgs: []M{m}})
	return out
}

// SintOneof: a oneof with sint32/sint64 members, own group (DESIGN section 10, #7).
func SintOneof() []*File {
	m := M{Name: "SintOneof", Oneofs: []string{"c"}, Fields: []F{
		one("a", 1, "int32"), oo("c", "s32", 2, "sint32"), oo("c", "s64", 3, "sint64"), oo("c", "str", 4, "string"), one("z", 5, "sint32"),
	}}
	return []*File{{Name: "verif/sio/sio.proto", Pkg: "verif.sio", GoPkg: "sio", Group: "sio", Tags: []string{"matrix", "probe:sint-oneof"}, Msgs: []M{m}}}
}

// Cross: two Go packages importing each other's types one way, well-known types, recursion
// through another package, a proto2 file and an unrequested file in the same request.
func Cross() []*File {
	// a file that declares only enums (no message): it still has to be generated
	xbe := &File{Name: "verif/xb/xbe.proto", Pkg: "verif.xb", GoPkg: "xb", Group: "x", Tags: []string{"cross"},
		// (an alias enum with a negative number: what another file's getter default, Values[0] of the
		// SHARED enum object, must not depend on is whether this file is generated alongside)
		Enums: []E{{Name: "Mood", AllowAlias: true, Values: []EV{{"MOOD_UNSPECIFIED", 0}, {"MOOD_OK", 1}, {"MOOD_BAD", -1}, {"MOOD_FINE", 1}}}}}
	xb := &File{Name: "verif/xb/xb.proto", Pkg: "verif.xb", GoPkg: "xb", Group: "x", Tags: []string{"cross"}, Deps: []string{"verif/xb/xbe.proto"},
		Enums: []E{{Name: "Side", Values: []EV{{"SIDE_UNKNOWN", 0}, {"SIDE_LEFT", 1}, {"SIDE_RIGHT", 2}}}},
		Msgs: []M{
			{Name: "Leaf", Fields: []F{one("id", 1, "uint64"), one("name", 2, "string"), one("side", 3, "enum", ".verif.xb.Side"), mp("attrs", 4, "string", "string"), one("mood", 5, "enum", ".verif.xb.Mood")}},
			{Name: "Tree", Fields: []F{one("leaf", 1, "message", ".verif.xb.Leaf"), rep("kids", 2, "message", ".verif.xb.Tree"), mp("named", 3, "string", "message", ".verif.xb.Tree")}},
			// linear recursion: reaches any nesting depth without fan-out (rapidproto's nesting limit)
			{Name: "Chain", Fields: []F{one("next", 1, "message", ".verif.xb.Chain"), rep("nums", 2, "int32"), rep("tags", 3, "string"), rep("sides", 4, "enum", ".verif.xb.Side"), one("w", 5, "fixed64")}},
		}}
	xa := &File{Name: "verif/xa/xa.proto", Pkg: "verif.xa", GoPkg: "xa", Group: "x", Tags: []string{"cross"},
		Deps: []string{"verif/xb/xb.proto", "google/protobuf/any.proto", "google/protobuf/timestamp.proto", "google/protobuf/duration.proto", "google/protobuf/field_mask.proto", "verif/xa/xa2.proto"},
		Msgs: []M{
			{Name: "Holder", Oneofs: []string{"pick"}, Fields: []F{
				one("tree", 1, "message", ".verif.xb.Tree"),
				rep("leaves", 2, "message", ".verif.xb.Leaf"),
				one("side", 3, "enum", ".verif.xb.Side"),
				rep("sides", 4, "enum", ".verif.xb.Side"),
				mp("by_side", 5, "int32", "enum", ".verif.xb.Side"),
				one("any", 6, "message", ".google.protobuf.Any"),
				one("ts", 7, "message", ".google.protobuf.Timestamp"),
				one("dur", 8, "message", ".google.protobuf.Duration"),
				rep("anys", 9, "message", ".google.protobuf.Any"),
				mp("stamps", 10, "string", "message", ".google.protobuf.Timestamp"),
				oo("pick", "p_leaf", 11, "message", ".verif.xb.Leaf"),
				oo("pick", "p_ts", 12, "message", ".google.protobuf.Timestamp"),
				oo("pick", "p_side", 13, "enum", ".verif.xb.Side"),
				one("mask", 14, "message", ".google.protobuf.FieldMask"),
				one("same_pkg", 15, "message", ".verif.xa.Second"),
				one("self", 16, "message", ".verif.xa.Holder"),
				// local types with the same Go names as imported ones used above (Leaf, Side)
				one("local_leaf", 17, "message", ".verif.xa.Leaf"),
				one("local_side", 18, "enum", ".verif.xa.Side"),
				rep("local_sides", 19, "enum", ".verif.xa.Side"),
				mp("leaf_by_name", 20, "string", "message", ".verif.xb.Leaf"), // a map whose value type lives in another proto package
			}},
			{Name: "Leaf", Fields: []F{one("note", 1, "string"), one("weight", 2, "sint64")}},
			{Name: "Times", Fields: []F{rep("ds", 1, "message", ".google.protobuf.Duration"), rep("tss", 2, "message", ".google.protobuf.Timestamp"),
				mp("md", 3, "string", "message", ".google.protobuf.Duration"), one("d", 4, "message", ".google.protobuf.Duration"), one("t", 5, "message", ".google.protobuf.Timestamp")}},
		},
		Enums: []E{{Name: "Side", Values: []EV{{"SIDE_NONE", 0}, {"SIDE_UP", 5}, {"SIDE_DOWN", 9}, {"SIDE_FAR", -3}}},
			{Name: "Level", AllowAlias: true, Values: []EV{{"LEVEL_ZERO", 0}, {"LEVEL_LOW", 1}, {"LEVEL_HIGH", 2}, {"LEVEL_MIN", 1}, {"LEVEL_NONE", 0}}}},
		Public: []string{"verif/xa/xa2.proto"},
		Svcs: []Svc{{Name: "Keeper", RPCs: []RPC{
			{Name: "Hold", In: ".verif.xa.Holder", Out: ".verif.xa.Leaf"},
			{Name: "Time", In: ".verif.xa.Times", Out: ".verif.xb.Leaf"},
			{Name: "Watch", In: ".verif.xa.Second", Out: ".verif.xa.Box", SS: true},
		}}, {Name: "Other", RPCs: []RPC{{Name: "Swap", In: ".verif.xb.Tree", Out: ".verif.xa.Holder", CS: true, SS: true}}}}}
	xa2 := &File{Name: "verif/xa/xa2.proto", Pkg: "verif.xa", GoPkg: "xa", Group: "x", Tags: []string{"cross"},
		Deps: []string{"verif/xb/xb.proto", "google/protobuf/any.proto"},
		Msgs: []M{
			{Name: "Second", Fields: []F{one("leaf", 1, "message", ".verif.xb.Leaf"), one("note", 2, "string")}},
			// recursion THROUGH google.protobuf.Any (invisible in the descriptors) and several Anys alive at once
			{Name: "Box", Fields: []F{one("inner", 1, "message", ".google.protobuf.Any"), one("n", 2, "int32"), rep("items", 3, "message", ".google.protobuf.Any")}},
		}}
	addr := one("addr", 1, "string")
	addr.Scalar = "cosmos.AddressString"
	acct := one("acct", 2, "message", ".google.protobuf.Any")
	acct.Accepts = "verif.opt.Account"
	amt := rep("amounts", 3, "string")
	amt.Scalar = "cosmos.Int"
	// explicit json_name options: identical to the snake_case field name, a free-form one, and one
	// that differs from the default only in case -- the registered descriptor keeps each verbatim
	keepSnake := one("account_id", 4, "uint64")
	keepSnake.JSON = "account_id"
	custom := one("display_name", 5, "string")
	custom.JSON = "@label"
	upper := one("chain_id", 6, "string")
	upper.JSON = "ChainId"
	opt := &File{Name: "verif/opt/opt.proto", Pkg: "verif.opt", GoPkg: "opt", Group: "opt", Tags: []string{"options"},
		Deps: []string{"cosmos_proto/cosmos.proto", "google/protobuf/any.proto", "google/protobuf/descriptor.proto"},
		Exts: ExtSet("opt"),
		Msgs: []M{{Name: "WithOptions", Implements: []string{"verif.opt.Account", "verif.opt.Other"}, Fields: []F{addr, acct, amt, keepSnake, custom, upper}}}}
	// a file that declares only a service (its messages live in xa.proto)
	xasvc := &File{Name: "verif/xa/xasvc.proto", Pkg: "verif.xa", GoPkg: "xa", Group: "x", Tags: []string{"cross"}, Deps: []string{"verif/xa/xa.proto"},
		Svcs: []Svc{{Name: "Solo", RPCs: []RPC{{Name: "Ping", In: ".verif.xa.Leaf", Out: ".verif.xa.Leaf"}}}}}
	// two Go packages with the same package NAME ("types") under different import paths
	ta := &File{Name: "verif/ta/t.proto", Pkg: "verif.ta", GoPkg: "ta/types", Group: "tt", Tags: []string{"cross"},
		Msgs: []M{{Name: "Coin", Fields: []F{one("denom", 1, "string"), one("amount", 2, "uint64")}}}}
	tb := &File{Name: "verif/tb/t.proto", Pkg: "verif.tb", GoPkg: "tb/types", Group: "tt", Tags: []string{"cross"}, Deps: []string{"verif/ta/t.proto"},
		Msgs: []M{{Name: "Wallet", Fields: []F{rep("coins", 1, "message", ".verif.ta.Coin"), mp("by_denom", 2, "string", "message", ".verif.ta.Coin")}}}}
	return []*File{xbe, xb, xa2, xa, xasvc, opt, ta, tb}
}

// ExtSet declares custom options on seven different options messages.
func ExtSet(prefix string) []X {
	var out []X
	// (FieldOptions and MessageOptions occur twice, interleaved with other extendees)
	for i, e := range []string{"FileOptions", "MessageOptions", "FieldOptions", "EnumOptions", "FieldOptions", "EnumValueOptions", "MessageOptions", "OneofOptions", "ServiceOptions"} {
		out = append(out, X{Name: prefix + "_" + strings.ToLower(e) + fmt.Sprint(i), Num: int32(51000 + i), Kind: []string{"string", "int32", "bool", "bytes"}[i%4], Extendee: ".google.protobuf." + e})
	}
	return out
}

// PluginUniverse is the file universe of spec/Plugin.tla: A (proto3), B (proto3, imports A, other
// Go package), C (proto3, same Go package as A), D (proto2), E (proto3, unrelated).
func PluginUniverse() map[string]*File {
	cross := Cross()
	a, b := cross[1], cross[3] // xb, xa
	// (imports TWO files of its own Go package: two init-ordering calls in the generated file)
	c := &File{Name: "verif/xb/xb2.proto", Pkg: "verif.xb", GoPkg: "xb", Group: "x", Deps: []string{"verif/xb/xb.proto", "verif/xb/xbe.proto"},
		Msgs: []M{{Name: "Branch", Fields: []F{one("leaf", 1, "message", ".verif.xb.Leaf"), one("mood", 5, "enum", ".verif.xb.Mood"), rep("tags", 2, "string"), rep("nums", 3, "sint32"), rep("ws", 4, "double")}}}}
	d := &File{Name: "verif/p2/p2.proto", Pkg: "verif.p2", GoPkg: "p2", Group: "p2", Syntax: "proto2",
		Msgs: []M{{Name: "Old", Fields: []F{one("a", 1, "int32"), one("b", 2, "string")}}}}
	e := &File{Name: "verif/ex/ex.proto", Pkg: "verif.ex", GoPkg: "ex", Group: "ex",
		Deps: []string{"google/protobuf/descriptor.proto"},
		Msgs: []M{
			{Name: "Lone", Oneofs: []string{"z"}, Fields: []F{one("a", 1, "sint64"), mp("m", 2, "string", "double"), oo("z", "zz", 3, "bool"), rep("rs", 4, "fixed32"), rep("ru", 5, "uint64")}},
			// same short (Go) name as verif.xb.Leaf, with field names that must be renamed
			{Name: "Leaf", Fields: []F{one("type", 1, "string"), one("descriptor", 2, "int32"), rep("get", 3, "bytes")}},
			{Name: "Tree", Fields: []F{one("range", 1, "message", ".verif.ex.Leaf")}},
		},
		Exts: ExtSet("ex")}
	// F: named by an ABSOLUTE path (unusual but a valid request): nothing in the output may be made
	// relative to where the plugin happens to run
	f := &File{Name: "/verifabs/fz/fz.proto", Pkg: "verif.fz", GoPkg: "fz", Group: "fz",
		Msgs: []M{{Name: "Far", Fields: []F{one("a", 1, "int32"), rep("b", 2, "string")}}}}
	// G and H: two more files of A's Go package that both import E (another Go package); G uses
	// it, H does not (an unused import is still linked). G's descriptor is larger than 8 KiB.
	var big []F
	for i := 1; i <= 233; i++ {
		big = append(big, one(fmt.Sprintf("column_with_a_rather_long_name_%03d", i), int32(i), []string{"int64", "string", "bytes", "double"}[i%4]))
	}
	g := &File{Name: "verif/xb/xb3.proto", Pkg: "verif.xb", GoPkg: "xb", Group: "x", Deps: []string{"verif/ex/ex.proto"},
		Msgs: []M{{Name: "Uses", Fields: []F{one("l", 1, "message", ".verif.ex.Lone")}}, {Name: "BigRow", Fields: big}}}
	h := &File{Name: "verif/xb/xb4.proto", Pkg: "verif.xb", GoPkg: "xb", Group: "x", Deps: []string{"verif/ex/ex.proto"},
		Msgs: []M{{Name: "UsesNot", Fields: []F{one("a", 1, "int32")}}}}
	// I: a service-only file whose rpc types come from two Go packages with the same base name
	// and are used nowhere else in the file (the order in which such types are first mentioned
	// decides which package gets the plain import alias)
	p1 := &File{Name: "verif/bank/v1beta1/bank.proto", Pkg: "verif.bank.v1beta1", GoPkg: "bank/v1beta1", Group: "svc",
		Msgs: []M{{Name: "SendRequest", Fields: []F{one("amount", 1, "uint64")}}, {Name: "SendResponse", Fields: []F{one("ok", 1, "bool")}}}}
	p2 := &File{Name: "verif/staking/v1beta1/staking.proto", Pkg: "verif.staking.v1beta1", GoPkg: "staking/v1beta1", Group: "svc",
		Msgs: []M{{Name: "BondRequest", Fields: []F{one("amount", 1, "uint64")}}, {Name: "BondResponse", Fields: []F{one("ok", 1, "bool")}}}}
	isvc := &File{Name: "verif/svc/svc.proto", Pkg: "verif.svc", GoPkg: "svc", Group: "svc",
		Deps: []string{"verif/bank/v1beta1/bank.proto", "verif/staking/v1beta1/staking.proto"},
		Svcs: []Svc{{Name: "Router", RPCs: []RPC{
			{Name: "Send", In: ".verif.bank.v1beta1.SendRequest", Out: ".verif.staking.v1beta1.BondResponse"},
			{Name: "Bond", In: ".verif.staking.v1beta1.BondRequest", Out: ".verif.bank.v1beta1.SendResponse"}}}}}
	return map[string]*File{"A": a, "B": b, "C": c, "D": d, "E": e, "F": f, "G": g, "H": h, "I": isvc, "p1": p1, "p2": p2, "xa2": cross[2], "X": cross[0]}
}

// AllStatic returns the static corpus in dependency order.
func AllStatic(includeProbes bool) []*File {
	var out []*File
	out = append(out, S0())
	out = append(out, Matrix(false)...)
	out = append(out, Names()...)
	out = append(out, Cross()...)
	if includeProbes {
		out = append(out, SintOneof()...)
		out = append(out, OneofNames()...)
	}
	return out
}

// Groups returns group names in first-appearance order.
func Groups(files []*File) []string {
	seen := map[string]bool{}
	var out []string
	for _, f := range files {
		if !seen[f.Group] {
			seen[f.Group] = true
			out = append(out, f.Group)
		}
	}
	return out
}

func SortedKeys[V any](m map[string]V) []string {
	out := make([]string, 0, len(m))
	for k := range m {
		out = append(out, k)
	}
	sort.Strings(out)
	return out
}
