----------------------------- MODULE MC_Reflect -----------------------------
(***************************************************************************)
(* All histories of mutating protoreflect operations, up to MaxLen, on one *)
(* root message type of a schema derived from the real descriptors.  The   *)
(* operation alphabet (Ops) is computed from the schema; read operations   *)
(* (RdOps) do not change the state, so instead of being edges their        *)
(* expected results in the target state are attached to every exported     *)
(* edge.  Invariants (every reachable state):                              *)
(*   NormalInv      at most one member per oneof, no empty containers      *)
(*   HasIffRange    Has(f) <=> f is visited by Range                       *)
(*   ReadsPure      read operations leave the state unchanged              *)
(*   ClearThenNotHas, SetThenGet, OneofExclusive as per-transition asserts *)
(***************************************************************************)
EXTENDS Reflect, CodecJson, Json, IOUtils

S      == JsonDeserialize(IOEnv.VERIF_SCHEMA)
T      == IOEnv.VERIF_TYPE
MaxLen == atoi(IOEnv.VERIF_MAXLEN)
Export == IOEnv.VERIF_EXPORT = "1"

Pool(kind) ==
    CASE kind \in {"int32", "sint32", "sfixed32x"} -> << <<1, 0, 0, 0, 0>>, <<127, 127, 127, 127, 15>> >>
      [] kind = "enum" -> << <<1, 0, 0, 0, 0>>, <<127, 127, 127, 127, 15>> >>
      [] kind = "uint32" -> << <<0, 1, 0, 0, 0>>, <<127, 127, 127, 127, 15>> >>
      [] kind \in {"int64", "sint64"} -> << <<127, 127, 127, 127, 127, 127, 127, 127, 127, 0>>, <<0, 0, 0, 0, 0, 0, 0, 0, 0, 1>> >>
      [] kind = "uint64" -> << <<1, 0, 0, 0, 0, 0, 0, 0, 0, 0>>, <<127, 127, 127, 127, 127, 127, 127, 127, 127, 1>> >>
      [] kind = "bool" -> << <<1>>, <<1>> >>
      [] kind \in Fixed32Kinds -> << <<1, 0, 0, 0>>, <<0, 0, 0, 128>> >>
      [] kind \in Fixed64Kinds -> << <<0, 0, 0, 0, 0, 0, 240, 63>>, <<0, 0, 0, 0, 0, 0, 0, 128>> >>
      [] kind = "string" -> << <<97>>, <<195, 169>> >>
      [] kind = "bytes" -> << <<0>>, <<255, 128>> >>
      [] OTHER -> << <<>>, <<>> >>

W(o, k, v) == [o EXCEPT ![k] = v]

\* a syntactically valid unknown record for message type M (a number M does not declare)
UnkBytes(M) ==
    LET nums == {S[M].nums[i] : i \in 1..Len(S[M].nums)}
    IN RecVarint(CHOOSE n \in 1990..2040 : n \notin nums, <<1, 0, 0, 0, 0, 0, 0, 0, 0, 0>>)

UnkBytes2(M) ==
    LET nums == {S[M].nums[i] : i \in 1..Len(S[M].nums)}
    IN RecVarint(CHOOSE n \in 1990..2040 : n \notin nums, <<7, 0, 0, 0, 0, 0, 0, 0, 0, 0>>)

\* mutating operations on field fd of the message at path p (of type M)
RECURSIVE WrOps(_, _, _)
RECURSIVE FieldWr(_, _, _, _)
FieldWr(M, p, fd, depth) ==
    LET b == MkOp("", p, fd.num)
        x1 == Pool(fd.kind)[1]
        x2 == Pool(fd.kind)[2]
    IN CASE fd.card \in {"one", "oneof"} /\ fd.kind # "message" ->
              << W(W(b, "op", "Set"), "x", x1), W(W(b, "op", "Set"), "x", x2), W(W(b, "op", "Set"), "x", ZeroOf(fd.kind)),
                 W(b, "op", "Clear"), W(b, "op", "Mutable") >>
         [] fd.card \in {"one", "oneof"} ->
              << W(b, "op", "Mutable"), W(b, "op", "SetNew"), W(b, "op", "Clear"), W(b, "op", "SetInvalid") >>
              \o (IF depth > 0 THEN WrOps(fd.msg, Append(p, StepF(fd.num)), depth - 1) ELSE <<>>)
         [] fd.card = "rep" /\ fd.kind # "message" ->
              << W(W(b, "op", "LAppend"), "x", x1), W(W(b, "op", "LAppend"), "x", x2),
                 W(W(W(b, "op", "LAppend"), "x", x1), "via", "get"),
                 W(W(W(b, "op", "LSet"), "x", x2), "i", 0), W(W(W(b, "op", "LSet"), "x", x1), "i", 1),
                 W(W(b, "op", "LTruncate"), "i", 0), W(W(b, "op", "LTruncate"), "i", 1),
                 W(W(W(b, "op", "LTruncate"), "i", 1), "via", "get"),
                 W(W(b, "op", "LRetained"), "x", x2), W(b, "op", "ViewClear"), W(b, "op", "SetInvalid"),
                 W(b, "op", "Clear"), W(b, "op", "Mutable"), W(b, "op", "SetNew") >>
         [] fd.card = "rep" ->
              << W(b, "op", "LAppendMutable"), W(b, "op", "LAppendNew"), W(W(b, "op", "LAppendMutable"), "via", "get"),
                 W(W(b, "op", "LTruncate"), "i", 1), W(W(b, "op", "LTruncate"), "i", 0), W(b, "op", "LRetained"), W(b, "op", "Clear"),
                 W(b, "op", "ViewClear"), W(b, "op", "SetInvalid"), W(W(b, "op", "LElemKept"), "u", UnkBytes(fd.msg)) >>
              \o (IF depth > 0 THEN WrOps(fd.msg, Append(p, StepI(fd.num, 0)), depth - 1) ELSE <<>>)
         [] fd.card = "map" /\ fd.vk # "message" ->
              LET k1 == Pool(fd.kk)[1]
                  k2 == Pool(fd.kk)[2]
                  v1 == Pool(fd.vk)[1]
                  v2 == Pool(fd.vk)[2]
              IN << W(W(W(b, "op", "MSet"), "k", k1), "x", v1), W(W(W(b, "op", "MSet"), "k", k2), "x", v2),
                    W(W(W(b, "op", "MSet"), "k", k1), "x", ZeroOf(fd.vk)),
                    W(W(W(W(b, "op", "MSet"), "k", k1), "x", v1), "via", "get"),
                    W(W(b, "op", "MClear"), "k", k1), W(W(b, "op", "MClear"), "k", k2),
                    W(W(W(b, "op", "MRetained"), "k", k2), "x", v1), W(W(W(b, "op", "MSetFill"), "k", k1), "x", v2), W(b, "op", "Clear"), W(b, "op", "SetNew"),
                    W(b, "op", "ViewClear"), W(b, "op", "SetInvalid") >>
         [] fd.card = "map" ->
              LET k1 == Pool(fd.kk)[1]
                  k2 == Pool(fd.kk)[2]
              IN << W(W(b, "op", "MMutable"), "k", k1), W(W(b, "op", "MSetNew"), "k", k2), W(W(b, "op", "MClear"), "k", k1),
                    W(W(W(b, "op", "MMutable"), "k", k1), "via", "get"), W(W(b, "op", "MRetained"), "k", k2), W(W(b, "op", "MSetFill"), "k", k2), W(b, "op", "Clear"),
                    W(b, "op", "ViewClear"), W(b, "op", "SetInvalid") >>
                 \o (IF depth > 0 THEN WrOps(fd.vmsg, Append(p, StepK(fd.num, k1)), depth - 1) ELSE <<>>)

WrOps(M, p, depth) ==
    LET fs == FieldsOf(S, M)
    IN ConcatAll([i \in 1..Len(fs) |-> FieldWr(M, p, fs[i], depth)])
       \o << W(MkOp("SetUnknown", p, 0), "u", UnkBytes(M)), W(MkOp("SetUnknown", p, 0), "u", <<>>),
             W(MkOp("SetUnknownHold", p, 0), "u", UnkBytes2(M)), W(MkOp("UnknownHandover", p, 0), "u", UnkBytes2(M)) >>

\* read operations on the message at path p
RECURSIVE RdOpsAt(_, _, _)
FieldRd(M, p, fd, depth) ==
    LET b == MkOp("", p, fd.num)
    IN << W(b, "op", "Has"), W(b, "op", "Get"), W(b, "op", "Getter"), W(b, "op", "NewField") >>
       \o (CASE fd.card = "rep" ->
                 << W(b, "op", "LLen"), W(W(b, "op", "LLen"), "via", "get"), W(W(b, "op", "LGet"), "i", 0), W(W(b, "op", "LGet"), "i", 1),
                    W(W(b, "op", "LIsValid"), "via", "get"), W(b, "op", "LIsValid"), W(b, "op", "LNewElement") >>
                 \o (IF fd.kind = "message" /\ depth > 0 THEN RdOpsAt(fd.msg, Append(p, StepI(fd.num, 0)), depth - 1) ELSE <<>>)
             [] fd.card = "map" ->
                 << W(b, "op", "MLen"), W(W(b, "op", "MLen"), "via", "get"), W(W(b, "op", "MHas"), "k", Pool(fd.kk)[1]),
                    W(W(b, "op", "MGet"), "k", Pool(fd.kk)[1]), W(W(b, "op", "MGet"), "k", Pool(fd.kk)[2]),
                    W(W(b, "op", "MRange"), "via", "get"), W(W(b, "op", "MRangeFirst"), "via", "get"),
                    W(W(b, "op", "MIsValid"), "via", "get"), W(b, "op", "MNewValue") >>
                 \o (IF fd.vk = "message" /\ depth > 0 THEN RdOpsAt(fd.vmsg, Append(p, StepK(fd.num, Pool(fd.kk)[1])), depth - 1) ELSE <<>>)
             [] fd.kind = "message" ->
                 (IF depth > 0 THEN RdOpsAt(fd.msg, Append(p, StepF(fd.num)), depth - 1) ELSE <<>>)
             [] OTHER -> <<>>)

RdOpsAt(M, p, depth) ==
    LET fs == FieldsOf(S, M)
    IN ConcatAll([i \in 1..Len(fs) |-> FieldRd(M, p, fs[i], depth)])
       \o [o \in 1..S[M].oneofs |-> W(MkOp("Which", p, 0), "oo", o)]
       \o << MkOp("Range", p, 0), MkOp("RangeFirst", p, 0), MkOp("GetUnknown", p, 0), MkOp("IsValid", p, 0) >>

Depth == atoi(IOEnv.VERIF_DEPTH)
Ops   == WrOps(T, <<>>, Depth) \o << MkOp("Reset", <<>>, 0) >>
RdOps == RdOpsAt(T, <<>>, Depth)

VARIABLES val, path
vars == <<val, path>>

\* results of all read operations in state v ("NOPATH" where the path does not exist)
Reads(v) == [j \in 1..Len(RdOps) |-> Apply(S, T, v, RdOps[j]).ret]

StepDiag(op, r) ==
    LET at == AtPath(S, T, val, op.p)
        at2 == AtPath(S, T, r.st, op.p)
        fd == IF at.ok THEN FieldOf(S, at.T, op.f) ELSE [num |-> 0]
    IN IF ~Normal(S, T, r.st) THEN "not-normal"
       ELSE IF op.op = "Clear" /\ at2.ok /\ HasF(at2.v, fd) /\ fd.card # "oneof" THEN "clear-then-has"
       ELSE IF op.op = "Clear" /\ fd.card = "oneof" /\ at.ok /\ ~HasF(at.v, fd) /\ r.st # val THEN "clear-other-oneof-member-changed-state"
       ELSE IF op.op = "Set" /\ r.ret.kind = "ok" /\ fd.card = "oneof" /\ at2.ok
               /\ (~HasF(at2.v, fd) \/ \E g \in OneofMembers(S, at.T, fd.oo) : g.num # fd.num /\ HasF(at2.v, g)) THEN "oneof-not-exclusive"
       ELSE IF IsPanic(r.ret) /\ r.st # val THEN "panic-changed-state"
       ELSE "ok"

Next ==
    \* once per distinct state: the expected results of every read operation in this state
    /\ (Export => PrintT("STATE " \o ToJson([p |-> path, reads |-> Reads(val)])))
    /\ Len(path) < MaxLen
    /\ \E i \in 1..Len(Ops) :
          LET r == Apply(S, T, val, Ops[i])
          IN /\ r.enabled
             /\ Assert(StepDiag(Ops[i], r) = "ok", <<"step assertion", StepDiag(Ops[i], r), path, i>>)
             /\ val' = r.st
             /\ path' = Append(path, i)
             /\ (Export => PrintT("EDGE " \o ToJson([p |-> path, i |-> i, ret |-> r.ret, to |-> ToJ(S, T, r.st)])))

\* C09: expected answers of every operation on an INVALID (nil / read-only empty) message of
\* each type of the schema: reads answer as the empty message, writes panic
\* (reads obtain list/map views through Get; Clear is left out: the two reference
\*  implementations disagree on whether Clear of an invalid message panics)
NilRd(M) == LET r == RdOpsAt(M, <<>>, 0) IN [j \in 1..Len(r) |-> W(r[j], "via", "get")]
NilOps(M) == NilRd(M) \o SelectSeq(WrOps(M, <<>>, 0), LAMBDA o : o.op # "Clear")
NilLine(M) == [t |-> M, ops |-> NilOps(M), rets |-> [j \in 1..Len(NilOps(M)) |-> ApplyNil(S, M, NilOps(M)[j])]]

Init == /\ val = EmptyMsg
        /\ path = <<>>
        /\ (Export => PrintT("OPS " \o ToJson(Ops)))
        /\ (Export => PrintT("RDOPS " \o ToJson(RdOps)))
        /\ (Export => \A M \in DOMAIN S : PrintT("NIL " \o ToJson(NilLine(M))))

Spec == Init /\ [][Next]_vars
View == val

NormalInv == Normal(S, T, val)
HasIffRange ==
    \A j \in 1..Len(FieldsOf(S, T)) :
        LET fd == FieldsOf(S, T)[j]
            rng == Apply(S, T, val, MkOp("Range", <<>>, 0)).ret.v
        IN Apply(S, T, val, MkOp("Has", <<>>, fd.num)).ret.v <=> \E n \in 1..Len(rng) : rng[n] = fd.num
ReadsPure == \A j \in 1..Len(RdOps) : Apply(S, T, val, RdOps[j]).st = val
\* the wire codec and reflection agree: whatever reflection built round-trips
RoundTrip == LET d == DecInto(S, T, EncMsg(S, T, val), EmptyMsg, DefaultOpts) IN d.ok /\ d.val = val
=============================================================================
