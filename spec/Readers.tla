------------------------------- MODULE Readers ------------------------------
(***************************************************************************)
(* Concurrent readers of one shared message (C11).  Each of N goroutines   *)
(* runs one read-only operation; an operation is a sequence of atomic      *)
(* memory reads, one per field of the message, between Begin and End.      *)
(* Shared state: the field contents (never written by a read operation),   *)
(* a size cache (written only in the CACHING variant, which models a       *)
(* marshaller that memoises sizes in the message), and the lazily          *)
(* initialised message-info pointer of embedded standard-library messages  *)
(* (atomic load; if nil, atomic store of the one possible value).          *)
(*                                                                         *)
(* The readers may also share a VIEW OBJECT taken from the message once    *)
(* (`v := m.Get(fd).Map()`): goroutine V ranges over it.  A view is a      *)
(* pointer to the map plus nothing else; in the VIEWCACHE variant it also  *)
(* keeps the keys of its last Range (collected when their number differs   *)
(* from the map's), which makes the first Range on a view a write: the     *)
(* collection is several plain stores (truncate, then one append per key)  *)
(* that another reader of the same view can interleave with.               *)
(*                                                                         *)
(*   NoSharedWrite      no read operation writes non-atomic shared state   *)
(*   ResultsSequential  every finished operation returns what it would     *)
(*                      return when run alone                              *)
(*   ViewRangeExact     a finished Range over the shared view visited      *)
(*                      every key of the map exactly once                  *)
(* TLC explores every interleaving of the per-field steps.  CACHING = TRUE *)
(* must violate NoSharedWrite, VIEWCACHE = TRUE must violate NoSharedWrite *)
(* and ViewRangeExact (non-vacuity, `verif selftest`).                     *)
(***************************************************************************)
EXTENDS Naturals, Sequences, FiniteSets, TLC, IOUtils

CACHING == IF "VERIF_CACHING" \in DOMAIN IOEnv THEN IOEnv.VERIF_CACHING = "1" ELSE FALSE
VIEWCACHE == IF "VERIF_VIEWCACHE" \in DOMAIN IOEnv THEN IOEnv.VERIF_VIEWCACHE = "1" ELSE FALSE
N == 3
Fields == <<3, 5, 7>>            \* the shared message: per-field contributions
OpsOf == <<"size", "marshal", "range">>   \* operation of goroutine p
\* two more goroutines share one map view and range over it
Viewers == {4, 5}
MapKeys == <<11, 12>>            \* the keys of the map behind the view, in the order a Range meets them

VARIABLES pc, acc, cache, writes, mi, ended,
          vkeys,     \* VIEWCACHE: the keys kept inside the shared view object
          vpc,       \* per viewer: "start" | "collect" | "iterate" | "done"
          vi,        \* per viewer: position in the collection / iteration
          visited    \* per viewer: the keys its callback was called with
vars == <<pc, acc, cache, writes, mi, ended, vkeys, vpc, vi, visited>>

RECURSIVE SumTo(_)
SumTo(k) == IF k = 0 THEN 0 ELSE Fields[k] + SumTo(k - 1)
SeqResult == SumTo(Len(Fields))

Init == /\ pc = [p \in 1..N |-> 0]
        /\ acc = [p \in 1..N |-> 0]
        /\ cache = 0
        /\ writes = 0
        /\ mi = "nil"
        /\ ended = [p \in 1..N |-> FALSE]
        /\ vkeys = <<>>
        /\ vpc = [v \in Viewers |-> "start"]
        /\ vi = [v \in Viewers |-> 0]
        /\ visited = [v \in Viewers |-> <<>>]

\* one atomic read of the next field; the first step also touches the embedded message's
\* lazily initialised info pointer (atomic load, atomic store if still nil)
Step(p) ==
    /\ pc[p] < Len(Fields)
    /\ pc' = [pc EXCEPT ![p] = @ + 1]
    /\ acc' = [acc EXCEPT ![p] = @ + Fields[pc[p] + 1]]
    /\ mi' = IF pc[p] = 0 /\ mi = "nil" THEN "set" ELSE mi
    /\ UNCHANGED <<cache, writes, ended, vkeys, vpc, vi, visited>>

End(p) ==
    /\ pc[p] = Len(Fields) /\ ~ended[p]
    /\ ended' = [ended EXCEPT ![p] = TRUE]
    /\ IF CACHING /\ OpsOf[p] = "size"
       THEN cache' = acc[p] /\ writes' = writes + 1       \* a plain (non-atomic) store into the message
       ELSE UNCHANGED <<cache, writes>>
    /\ UNCHANGED <<pc, acc, mi, vkeys, vpc, vi, visited>>

\* ---- Range over the shared view ----
\* without the cache a Range iterates the map itself: one callback per key
\* with it: compare lengths; if they differ, truncate the kept keys (a store) and go collecting
VStart(v) ==
    /\ vpc[v] = "start"
    /\ IF VIEWCACHE /\ Len(vkeys) # Len(MapKeys)
       THEN /\ vkeys' = <<>> /\ writes' = writes + 1
            /\ vpc' = [vpc EXCEPT ![v] = "collect"]
       ELSE /\ UNCHANGED <<vkeys, writes>>
            /\ vpc' = [vpc EXCEPT ![v] = "iterate"]
    /\ vi' = [vi EXCEPT ![v] = 0]
    /\ UNCHANGED <<pc, acc, cache, mi, ended, visited>>

\* one append per key of the map (a plain store into the view)
VCollect(v) ==
    /\ vpc[v] = "collect"
    /\ IF vi[v] < Len(MapKeys)
       THEN /\ vkeys' = Append(vkeys, MapKeys[vi[v] + 1]) /\ writes' = writes + 1
            /\ vi' = [vi EXCEPT ![v] = @ + 1]
            /\ UNCHANGED vpc
       ELSE /\ vpc' = [vpc EXCEPT ![v] = "iterate"]
            /\ vi' = [vi EXCEPT ![v] = 0]
            /\ UNCHANGED <<vkeys, writes>>
    /\ UNCHANGED <<pc, acc, cache, mi, ended, visited>>

\* the keys iterated: the kept ones (as they are NOW) in the variant, the map's otherwise
IterKeys == IF VIEWCACHE THEN vkeys ELSE MapKeys
VIterate(v) ==
    /\ vpc[v] = "iterate"
    /\ IF vi[v] < Len(IterKeys)
       THEN /\ visited' = [visited EXCEPT ![v] = Append(@, IterKeys[vi[v] + 1])]
            /\ vi' = [vi EXCEPT ![v] = @ + 1]
            /\ UNCHANGED vpc
       ELSE /\ vpc' = [vpc EXCEPT ![v] = "done"]
            /\ UNCHANGED <<visited, vi>>
    /\ UNCHANGED <<pc, acc, cache, writes, mi, ended, vkeys>>

Next == \/ \E p \in 1..N : Step(p) \/ End(p)
        \/ \E v \in Viewers : VStart(v) \/ VCollect(v) \/ VIterate(v)
Spec == Init /\ [][Next]_vars

NoSharedWrite == writes = 0
ResultsSequential == \A p \in 1..N : ended[p] => acc[p] = SeqResult
InfoInitOnce == mi \in {"nil", "set"}
ViewRangeExact == \A v \in Viewers : vpc[v] = "done" => visited[v] = MapKeys
=============================================================================
