------------------------------- MODULE Readers ------------------------------
(***************************************************************************)
(* Concurrent readers of one shared message (C11).  Each of N goroutines   *)
(* runs one read-only operation; an operation is a sequence of atomic      *)
(* memory reads, one per field of the message, between Begin and End.      *)
(* Shared state: the field contents (never written by a read operation),   *)
(* a size cache (written only in the CACHING variant, which models a       *)
(* marshaller that memoises sizes in the message), and the lazily          *)
(* initialised message-info pointer of embedded standard-library messages  *)
(* (atomic load; if nil, atomic store of the one possible value).          *)
(*                                                                         *)
(*   NoSharedWrite      no read operation writes non-atomic shared state   *)
(*   ResultsSequential  every finished operation returns what it would     *)
(*                      return when run alone                              *)
(* TLC explores every interleaving of the per-field steps.  CACHING = TRUE *)
(* must violate NoSharedWrite (non-vacuity, `verif selftest`).             *)
(***************************************************************************)
EXTENDS Naturals, Sequences, FiniteSets, TLC, IOUtils

CACHING == IF "VERIF_CACHING" \in DOMAIN IOEnv THEN IOEnv.VERIF_CACHING = "1" ELSE FALSE
N == 3
Fields == <<3, 5, 7>>            \* the shared message: per-field contributions
OpsOf == <<"size", "marshal", "range">>   \* operation of goroutine p

VARIABLES pc, acc, cache, writes, mi, ended
vars == <<pc, acc, cache, writes, mi, ended>>

RECURSIVE SumTo(_)
SumTo(k) == IF k = 0 THEN 0 ELSE Fields[k] + SumTo(k - 1)
SeqResult == SumTo(Len(Fields))

Init == /\ pc = [p \in 1..N |-> 0]
        /\ acc = [p \in 1..N |-> 0]
        /\ cache = 0
        /\ writes = 0
        /\ mi = "nil"
        /\ ended = [p \in 1..N |-> FALSE]

\* one atomic read of the next field; the first step also touches the embedded message's
\* lazily initialised info pointer (atomic load, atomic store if still nil)
Step(p) ==
    /\ pc[p] < Len(Fields)
    /\ pc' = [pc EXCEPT ![p] = @ + 1]
    /\ acc' = [acc EXCEPT ![p] = @ + Fields[pc[p] + 1]]
    /\ mi' = IF pc[p] = 0 /\ mi = "nil" THEN "set" ELSE mi
    /\ UNCHANGED <<cache, writes, ended>>

End(p) ==
    /\ pc[p] = Len(Fields) /\ ~ended[p]
    /\ ended' = [ended EXCEPT ![p] = TRUE]
    /\ IF CACHING /\ OpsOf[p] = "size"
       THEN cache' = acc[p] /\ writes' = writes + 1       \* a plain (non-atomic) store into the message
       ELSE UNCHANGED <<cache, writes>>
    /\ UNCHANGED <<pc, acc, mi>>

Next == \E p \in 1..N : Step(p) \/ End(p)
Spec == Init /\ [][Next]_vars

NoSharedWrite == writes = 0
ResultsSequential == \A p \in 1..N : ended[p] => acc[p] = SeqResult
InfoInitOnce == mi \in {"nil", "set"}
=============================================================================
