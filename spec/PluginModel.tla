-------------------------------- MODULE PluginModel --------------------------
(***************************************************************************)
(* One run of protoc-gen-go-pulsar as a function from request to response  *)
(* (C12 outcome classes, C13 determinism / hermeticity).                   *)
(*                                                                         *)
(* Request: parameter string (features=, paths=, M mappings, unknown       *)
(* flags), the ordered list files_to_generate over a fixed universe of     *)
(* files (A proto3; B proto3 importing A, other Go package; C proto3 in    *)
(* A's Go package; D proto2; E proto3 unrelated; F proto3 named by an      *)
(* absolute path; G, H proto3 in A's Go package, both importing E, H       *)
(* without using it, G with a descriptor above 8 KiB; X proto3 in A's Go   *)
(* package declaring only an alias enum that A and C use; I proto3 with    *)
(* only a service whose rpc types live in two imported Go packages of the  *)
(* same base name).                                                        *)
(* Inside the generator two Go maps are ranged (the feature map and the    *)
(* message index); their iteration order is the nondeterministic variable  *)
(* `iter`.  Response: fatal (process exits non-zero: request-level error), *)
(* error (CodeGeneratorResponse.error), or a set of (file name, content    *)
(* key).  The content key abstracts the bytes: it names everything the     *)
(* content is allowed to depend on.                                        *)
(***************************************************************************)
EXTENDS Naturals, Sequences, FiniteSets, TLC, Json, IOUtils

Files == {"A", "B", "C", "D", "E", "F", "G", "H", "I", "X"}
Proto3 == {"A", "B", "C", "E", "F", "G", "H", "I", "X"}
FeatureParams == {"absent", "all", "fast+protoc", "protoc+fast", "fast", "protoc", "unknown", "fast+unknown", "unknown+fast", "empty",
                  "all+unknown", "unknown+all", "fast+fast", "all+fast", "Fast"}
PathsParams == {"absent", "import", "source_relative", "bogus"}
MParams == {"none", "mapA"}           \* M<file A>=<other import path>
FlagParams == {"none", "unknownflag", "pool"}   \* pool=<object>: accepted, without effect on the output

\* the feature names a parameter asks for ("?" stands for a name that is not registered)
Asked(fp) == CASE fp \in {"absent", "all"} -> {"fast", "protoc"}
               [] fp \in {"fast+protoc", "protoc+fast"} -> {"fast", "protoc"}
               [] fp = "fast" -> {"fast"}
               [] fp = "protoc" -> {"protoc"}
               [] fp = "unknown" -> {"?"}
               [] fp \in {"fast+unknown", "unknown+fast"} -> {"fast", "?"}
               [] fp \in {"all+unknown", "unknown+all"} -> {"fast", "protoc", "?"}   \* an unknown name is an error wherever it stands
               [] fp = "fast+fast" -> {"fast"}
               [] fp = "all+fast" -> {"fast", "protoc"}
               [] fp = "Fast" -> {"?"}                    \* names are case-sensitive
               [] fp = "empty" -> {"?"}        \* features= splits into the single empty name

\* findFeatures ranges a Go map in order `iter` and then SORTS by name: the result must not
\* depend on iter.  Sorted == FALSE is the non-vacuity variant (selftest).
Sorted == IF "VERIF_SORTED" \in DOMAIN IOEnv THEN IOEnv.VERIF_SORTED # "0" ELSE TRUE
FeatureOrder(fp, iter) ==
    LET fs == Asked(fp)
    IN IF "?" \in fs THEN <<>>
       ELSE IF fs = {"fast", "protoc"} THEN (IF Sorted \/ iter = 1 THEN <<"fast", "protoc">> ELSE <<"protoc", "fast">>)
       ELSE IF fs = {"fast"} THEN <<"fast">> ELSE IF fs = {"protoc"} THEN <<"protoc">> ELSE <<>>

\* does the plugin emit a file for f under these features?  (the protoc feature alone reports
\* "nothing generated", so the file is skipped -- modelled as the code behaves)
Emits(fp) == "fast" \in Asked(fp)

Outcome(fp, pp, mp, flag, gen, iter) ==
    IF flag = "unknownflag" \/ pp = "bogus" THEN [kind |-> "fatal", files |-> {}]
    ELSE IF "?" \in Asked(fp) THEN [kind |-> "error", files |-> {}]
    ELSE [kind |-> "ok",
          files |-> IF ~Emits(fp) THEN {}
                    ELSE { [file |-> f,
                            \* the content key: what the bytes may depend on
                            key |-> <<f, FeatureOrder(fp, iter), IF mp = "mapA" /\ f \in {"A", "B", "C"} THEN "mapA" ELSE "none">>,
                            \* the output name depends on paths= and on the mapping of the file itself
                            name |-> <<f, IF pp = "source_relative" THEN "srcrel" ELSE "import",
                                       IF mp = "mapA" /\ f = "A" /\ pp # "source_relative" THEN "mapped" ELSE "declared">>]
                           : f \in {g \in Proto3 : \E i \in 1..Len(gen) : gen[i] = g} }]
=============================================================================
