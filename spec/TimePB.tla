-------------------------------- MODULE TimePB ------------------------------
(***************************************************************************)
(* support/timepb: Add(Timestamp, Duration) and Compare, at a scale TLC    *)
(* can enumerate exhaustively.  NS nanoseconds per second, "int64"         *)
(* seconds in SMIN..SMAX with wrap-around, valid Timestamp seconds in      *)
(* TMIN..TMAX and valid Duration seconds in -DMAX..DMAX.  The nanos field  *)
(* is scaled by 10^9 / NS when a case is replayed, which preserves every   *)
(* carry / borrow decision exactly.                                        *)
(*                                                                         *)
(* AddSpec is the required result (exact instant arithmetic, normalised);  *)
(* AddImpl is the algorithm of the code: component-wise add with int64     *)
(* wrap, ONE carry/borrow step, overflow detection by comparing with the   *)
(* input.  BorrowRule = "negative" is the required behaviour; "pinned"     *)
(* models the pinned revision, which only borrowed at nanos <= -NS and so  *)
(* returned negative nanos (kept as a named deviation for attribution).    *)
(***************************************************************************)
EXTENDS Integers, Sequences, TLC, Json, IOUtils

NS   == 4
SMIN == -32
SMAX == 31
TMIN == -6
TMAX == 6
DMAX == 9

BorrowRule == IF "VERIF_BORROW" \in DOMAIN IOEnv THEN IOEnv.VERIF_BORROW ELSE "negative"

Wrap(x) == ((x - SMIN) % (SMAX - SMIN + 1)) + SMIN

ValidTs(s, n) == s \in TMIN..TMAX /\ n \in 0..(NS - 1)
ValidDur(s, n) == /\ s \in (-DMAX)..DMAX /\ n \in (1 - NS)..(NS - 1)
                  /\ (s > 0 => n >= 0) /\ (s < 0 => n <= 0)

Inst(s, n) == s * NS + n

Compare(s1, n1, s2, n2) ==
    IF s1 = s2 /\ n1 = n2 THEN 0
    ELSE IF s1 < s2 \/ (s1 = s2 /\ n1 < n2) THEN -1 ELSE 1

\* floor division / modulo on integers (TLA+ \div and % already floor for positive divisors)
AddSpec(ts, tn, ds, dn) ==
    LET total == Inst(ts, tn) + Inst(ds, dn)
        s == total \div NS
        n == total % NS
    IN [s |-> s, n |-> n, panic |-> s < SMIN \/ s > SMAX]

Borrow(n0) == IF BorrowRule = "pinned" THEN n0 <= -NS ELSE n0 < 0

AddImpl(ts, tn, ds, dn) ==
    IF ds = 0 /\ dn = 0 THEN [s |-> ts, n |-> tn, panic |-> FALSE]
    ELSE LET s0 == Wrap(ts + ds)
             n0 == tn + dn
             s1 == IF n0 >= NS THEN Wrap(s0 + 1) ELSE IF Borrow(n0) THEN Wrap(s0 - 1) ELSE s0
             n1 == IF n0 >= NS THEN n0 - NS ELSE IF Borrow(n0) THEN n0 + NS ELSE n0
             neg == ds < 0 \/ (ds = 0 /\ dn < 0)
             cmp == Compare(ts, tn, s1, n1)
         IN [s |-> s1, n |-> n1, panic |-> IF neg THEN cmp < 0 ELSE cmp > 0]

VARIABLES ts, tn, ds, dn
vars == <<ts, tn, ds, dn>>

\* all int64 seconds, valid nanos ranges (overflow behaviour included)
Init == /\ ts \in SMIN..SMAX /\ tn \in 0..(NS - 1)
        /\ ds \in SMIN..SMAX /\ dn \in (1 - NS)..(NS - 1)
        /\ (ds > 0 => dn >= 0) /\ (ds < 0 => dn <= 0)
Next == UNCHANGED vars
Spec == Init /\ [][Next]_vars

\* for valid inputs: exact, normalised, no panic
ExactOnValid ==
    (ValidTs(ts, tn) /\ ValidDur(ds, dn)) =>
        LET r == AddImpl(ts, tn, ds, dn) w == AddSpec(ts, tn, ds, dn)
        IN ~r.panic /\ r.s = w.s /\ r.n = w.n /\ r.n \in 0..(NS - 1)
\* for arbitrary seconds: not representable => panic; representable => exact
OverflowPanics ==
    LET r == AddImpl(ts, tn, ds, dn) w == AddSpec(ts, tn, ds, dn)
    IN IF w.panic THEN r.panic ELSE (~r.panic /\ r.s = w.s /\ r.n = w.n)
\* Compare is chronological on normalised timestamps
CompareChrono ==
    \A s2 \in {ts, ds, TMIN, TMAX} : \A n2 \in 0..(NS - 1) :
        LET c == Compare(ts, tn, s2, n2) d == Inst(ts, tn) - Inst(s2, n2)
        IN (c = 0 <=> d = 0) /\ (c < 0 <=> d < 0) /\ (c > 0 <=> d > 0) /\ Compare(s2, n2, ts, tn) = -c

ExportInv == (IOEnv.VERIF_EXPORT = "1" /\ ts \in (TMIN - 1)..(TMAX + 1) /\ ds \in (-DMAX)..DMAX) =>
    PrintT("CASE " \o ToJson([ts |-> ts, tn |-> tn, ds |-> ds, dn |-> dn, want |-> AddSpec(ts, tn, ds, dn),
                              valid |-> ValidTs(ts, tn) /\ ValidDur(ds, dn)]))
=============================================================================
