-------------------------------- MODULE Wire --------------------------------
(***************************************************************************)
(* The protobuf wire format at record level: tags, the five wire types,    *)
(* a total record parser, and the Skip machine of runtime.Skip.            *)
(* Bytes are integers 0..255; byte strings are sequences.                  *)
(***************************************************************************)
EXTENDS Digits

WtVarint == 0
WtFixed64 == 1
WtBytes == 2
WtStartGroup == 3
WtEndGroup == 4
WtFixed32 == 5

\* tag bytes for (field number, wire type); num*8 may exceed 2^31, so the low digit is built by hand
TagBytes(num, wt) ==
    LET first == (num % 16) * 8 + wt
        rest  == num \div 16
    IN IF rest = 0 THEN <<first>> ELSE <<first + 128>> \o NatVarint(rest)

TagSize(num, wt) == Len(TagBytes(num, wt))

LenPrefixed(payload) == NatVarint(Len(payload)) \o payload

(***************************************************************************)
(* Reading.  All readers are total: they return ok = FALSE with an error   *)
(* class instead of failing.                                               *)
(***************************************************************************)
\* length in bytes of the varint starting at b[i]; 0 if truncated or longer than 10 bytes
VarLenAt(b, i) ==
    LET S == {k \in 1..10 : i + k - 1 <= Len(b) /\ b[i + k - 1] < 128}
    IN IF S = {} THEN 0 ELSE MinOf(S)

\* is the (at most 10 byte) varint truncated (as opposed to over-long)?
VarTruncated(b, i) == \A k \in 1..10 : i + k - 1 <= Len(b) => b[i + k - 1] >= 128
VarIsTruncated(b, i) == VarLenAt(b, i) = 0 /\ Len(b) - i + 1 < 10

VarDigitsAt(b, i, k) == [j \in 1..10 |-> IF j <= k THEN b[i + j - 1] % 128 ELSE 0]

SubBytes(b, i, n) == [j \in 1..n |-> b[i + j - 1]]

\* A parsed record:
\*   [ok, num, wt, val, s, e]   s/e: first index / index after the record in the enclosing buffer
\*   val: 10 digits (varint), 8 bytes, payload bytes (wt 2), group body incl. end tag (wt 3), 4 bytes
\* or [ok |-> FALSE, err |-> class]
Err(c) == [ok |-> FALSE, err |-> c]

RECURSIVE ParseAt(_, _, _)
\* index after the end-group tag matching group `num` when scanning from i, or 0
RECURSIVE GroupEnd(_, _, _, _)

ParseAt(b, i, depth) ==
    LET tl == VarLenAt(b, i)
    IN IF tl = 0 THEN Err(IF VarIsTruncated(b, i) THEN "eof" ELSE "overflow")
       ELSE LET td  == VarDigitsAt(b, i, tl)
                wt  == td[1] % 8
                \* field number = tag >> 3 ; must fit 29 bits for a valid tag
                hi  == DigitsToNat(Tail(td))
                num == IF hi < 0 \/ hi >= 33554432 THEN -1 ELSE (td[1] \div 8) + 16 * hi
                p   == i + tl
            IN IF tl = 10 /\ b[i + 9] > 1 THEN Err("overflow")
               ELSE IF num = -1 THEN Err("bigtag")
               ELSE IF num = 0 THEN Err("tag0")
               ELSE CASE wt = 0 ->
                         LET vl == VarLenAt(b, p)
                         IN IF vl = 0 THEN Err(IF VarIsTruncated(b, p) THEN "eof" ELSE "overflow")
                            ELSE IF vl = 10 /\ b[p + 9] > 1 THEN Err("overflow")
                            ELSE [ok |-> TRUE, num |-> num, wt |-> 0, val |-> VarDigitsAt(b, p, vl), s |-> i, e |-> p + vl]
                 [] wt = 1 -> IF p + 8 - 1 > Len(b) THEN Err("eof")
                              ELSE [ok |-> TRUE, num |-> num, wt |-> 1, val |-> SubBytes(b, p, 8), s |-> i, e |-> p + 8]
                 [] wt = 5 -> IF p + 4 - 1 > Len(b) THEN Err("eof")
                              ELSE [ok |-> TRUE, num |-> num, wt |-> 5, val |-> SubBytes(b, p, 4), s |-> i, e |-> p + 4]
                 [] wt = 2 ->
                         LET ll == VarLenAt(b, p)
                         IN IF ll = 0 THEN Err(IF VarIsTruncated(b, p) THEN "eof" ELSE "overflow")
                            ELSE LET n == DigitsToNat(VarDigitsAt(b, p, ll))
                                 IN IF n < 0 THEN Err("length")
                                    ELSE IF p + ll + n - 1 > Len(b) THEN Err("eof")
                                    ELSE [ok |-> TRUE, num |-> num, wt |-> 2, val |-> SubBytes(b, p + ll, n), s |-> i, e |-> p + ll + n]
                 [] wt = 3 ->
                         IF depth = 0 THEN Err("depth")
                         ELSE LET ge == GroupEnd(b, p, num, depth - 1)
                              IN IF ge = 0 THEN Err("group")
                                 ELSE [ok |-> TRUE, num |-> num, wt |-> 3, val |-> SubBytes(b, p, ge - p), s |-> i, e |-> ge]
                 [] wt = 4 -> [ok |-> TRUE, num |-> num, wt |-> 4, val |-> <<>>, s |-> i, e |-> p]
                 [] OTHER -> Err("wiretype")

GroupEnd(b, i, num, depth) ==
    IF i > Len(b) THEN 0
    ELSE LET r == ParseAt(b, i, depth)
         IN IF ~r.ok THEN 0
            ELSE IF r.wt = 4 THEN (IF r.num = num THEN r.e ELSE 0)
            ELSE GroupEnd(b, r.e, num, depth)

MaxGroupDepth == 8

\* the raw bytes of a parsed record
RawOf(b, r) == SubBytes(b, r.s, r.e - r.s)

\* all records of a buffer, or <<Err>> as last element
RECURSIVE ParseAll(_, _)
ParseAll(b, i) ==
    IF i > Len(b) THEN <<>>
    ELSE LET r == ParseAt(b, i, MaxGroupDepth)
         IN IF ~r.ok THEN <<r>>
            ELSE IF r.wt = 4 THEN <<Err("endgroup")>>
            ELSE <<r>> \o ParseAll(b, r.e)

WellFormedBytes(b) == \A k \in 1..Len(ParseAll(b, 1)) : ParseAll(b, 1)[k].ok

(***************************************************************************)
(* Record construction (the encoder side).                                 *)
(***************************************************************************)
RecVarint(num, d)    == TagBytes(num, 0) \o Varint(d)
RecFixed64(num, b8)  == TagBytes(num, 1) \o b8
RecFixed32(num, b4)  == TagBytes(num, 5) \o b4
RecBytes(num, p)     == TagBytes(num, 2) \o LenPrefixed(p)
RecGroup(num, body)  == TagBytes(num, 3) \o body \o TagBytes(num, 4)

(***************************************************************************)
(* The record skipper, runtime.Skip.                                        *)
(*                                                                         *)
(* Whatever Skip accepts is stored VERBATIM as unknown fields, and          *)
(* protobuf-go re-parses unknown fields later (proto.Equal, protojson, the *)
(* reflection-based marshaller) assuming valid wire data; it panics on     *)
(* anything else.  The specification is therefore STRICT: Skip accepts     *)
(* exactly the buffers that start with a well-formed record of the total   *)
(* parser ParseAt (= protowire.ConsumeField) and returns its length.       *)
(*                                                                         *)
(* LaxSkipStep / LaxSkip below is the machine the code implemented before  *)
(* "fix: runtime.Skip accepts only valid wire data" -- one loop iteration  *)
(* per step, state (idx, depth), with these deviations from the total      *)
(* parser:                                                                 *)
(*  - group numbers are not matched (depth counting only);                 *)
(*  - fixed-width payloads are not bound-checked (idx may pass the end);    *)
(*  - varints are scanned, not decoded (no 10th-byte range check), tags    *)
(*    are not validated (number 0, numbers > 2^29-1).                      *)
(* It is kept as a NAMED DEVIATION: MC_Parse shows (VERIF_LAX = "1") that  *)
(* the lax machine violates SkipSound, i.e. that the invariant is not      *)
(* vacuous and that the accepted-but-invalid unknown bytes found in the    *)
(* code are behaviours of that machine.                                    *)
(***************************************************************************)
LaxSkipStep(b, idx, depth) ==
    \* returns [done, err, idx, depth]
    LET i  == idx + 1
        tl == VarLenAt(b, i)
    IN IF tl = 0 THEN [done |-> TRUE, err |-> IF VarIsTruncated(b, i) THEN "eof" ELSE "overflow", idx |-> 0, depth |-> depth]
       ELSE LET wt == b[i] % 8
                p  == i + tl
            IN CASE wt = 0 ->
                      LET vl == VarLenAt(b, p)
                      IN IF vl = 0 THEN [done |-> TRUE, err |-> IF VarIsTruncated(b, p) THEN "eof" ELSE "overflow", idx |-> 0, depth |-> depth]
                         ELSE [done |-> depth = 0, err |-> "", idx |-> p + vl - 1, depth |-> depth]
                 [] wt = 1 -> [done |-> depth = 0, err |-> "", idx |-> p + 8 - 1, depth |-> depth]
                 [] wt = 5 -> [done |-> depth = 0, err |-> "", idx |-> p + 4 - 1, depth |-> depth]
                 [] wt = 2 ->
                      LET ll == VarLenAt(b, p)
                      IN IF ll = 0 THEN [done |-> TRUE, err |-> IF VarIsTruncated(b, p) THEN "eof" ELSE "overflow", idx |-> 0, depth |-> depth]
                         ELSE LET n == DigitsToNat(VarDigitsAt(b, p, ll))
                              IN IF n < 0 THEN [done |-> TRUE, err |-> "length", idx |-> 0, depth |-> depth]
                                 ELSE [done |-> depth = 0, err |-> "", idx |-> p + ll + n - 1, depth |-> depth]
                 [] wt = 3 -> [done |-> FALSE, err |-> "", idx |-> p - 1, depth |-> depth + 1]
                 [] wt = 4 -> IF depth = 0 THEN [done |-> TRUE, err |-> "endgroup", idx |-> 0, depth |-> depth]
                              ELSE [done |-> depth - 1 = 0, err |-> "", idx |-> p - 1, depth |-> depth - 1]
                 [] OTHER -> [done |-> TRUE, err |-> "wiretype", idx |-> 0, depth |-> depth]

\* run the machine to completion: result [err, n]
RECURSIVE LaxSkipRun(_, _, _)
LaxSkipRun(b, idx, depth) ==
    IF idx >= Len(b) THEN [err |-> "eof", n |-> 0]
    ELSE LET s == LaxSkipStep(b, idx, depth)
         IN IF s.err # "" THEN [err |-> s.err, n |-> 0]
            ELSE IF s.done THEN [err |-> "", n |-> s.idx]
            ELSE LaxSkipRun(b, s.idx, s.depth)

LaxSkip(b) == LaxSkipRun(b, 0, 0)

\* the strict skipper: the first record of the total parser, or its error class
StrictSkip(b) ==
    IF b = <<>> THEN [err |-> "eof", n |-> 0]
    ELSE LET r == ParseAt(b, 1, MaxGroupDepth)
         IN IF ~r.ok THEN [err |-> r.err, n |-> 0]
            ELSE IF r.wt = 4 THEN [err |-> "endgroup", n |-> 0]
            ELSE [err |-> "", n |-> r.e - 1]

=============================================================================
