SPECIFICATION Spec
VIEW View
INVARIANT NormalInv
INVARIANT HasIffRange
INVARIANT ReadsPure
INVARIANT RoundTrip
CHECK_DEADLOCK FALSE
