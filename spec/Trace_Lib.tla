------------------------------ MODULE Trace_Lib -----------------------------
(***************************************************************************)
(* Trace validation of LIBRARY-DRIVEN reflection histories (C10,           *)
(* direction B).  The generic protobuf-go algorithms (proto.Equal, Clone,  *)
(* Merge, Reset, CheckInitialized, protojson / prototext Marshal and       *)
(* Unmarshal) are run on a recording proxy around a generated message      *)
(* (side "impl") and around its dynamicpb twin (side "ref").  Every        *)
(* protoreflect call the library makes is one event; it must be a step of  *)
(* Reflect!Apply on the addressed root with the recorded result and the    *)
(* recorded next state.  Two refinement layers are checked at once:        *)
(*                                                                         *)
(*  micro: each call = one Reflect step (same vocabulary as MC_Reflect),   *)
(*  macro: the composition of the steps of one library call = the          *)
(*         value-level meaning of that call in module Codec:               *)
(*           Merge       root' = MergeV(root, other)                       *)
(*           Equal &c.   root' = root  (and root = other => Equal)         *)
(*           Clone       root' = root  /\ the new detached root = root     *)
(*           Reset       root' = EmptyMsg                                  *)
(*           Unmarshal   root' = what the reference parses from the same   *)
(*                       document (JSON / text grammars are not modelled). *)
(*                                                                         *)
(* Detached messages (Message.New, NewField, List.NewElement,              *)
(* Map.NewValue of message kind) are further ROOTS of that side; SetVal /  *)
(* LAppendVal / MSetVal move the value of a detached root into the tree    *)
(* (the recorder re-addresses the proxy, so the handle is consumed).       *)
(* Each side is validated on its own (the two libraries' call orders       *)
(* differ: dynamicpb ranges in random order); a mismatch on side "ref" is  *)
(* a modelling error, never a verdict on the code.                         *)
(***************************************************************************)
EXTENDS Reflect, CodecJson, Json, IOUtils

S     == JsonDeserialize(IOEnv.VERIF_SCHEMA)
Trace == ndJsonDeserialize(IOEnv.VERIF_TRACE)

VARIABLES l, typ, roots, pre
vars == <<l, typ, roots, pre>>

Sides == {"impl", "ref"}
RootOf(T, v) == [T |-> T, v |-> v]

Rng(s) == {s[i] : i \in 1..Len(s)}
RetEq(obs, want) ==
    /\ obs.kind = want.kind
    /\ IF want.kind = "keys" THEN Rng(obs.v) = Rng(want.v) /\ Len(obs.v) = Len(want.v)
       ELSE IF want.kind \in {"ok", "panic", "invalid", "nopath"} THEN TRUE
       ELSE obs.v = want.v

\* nil variant (Go-level nil pointers planted where the value holds empty messages): a view of
\* such an element is the invalid read-only empty message, so its validity flag is not compared
RetEqV(obs, want, nv) ==
    IF nv /\ want.kind = "view" THEN obs.kind = "view" /\ obs.v.len = want.v.len ELSE RetEq(obs, want)

IsEv(name) == l <= Len(Trace) /\ Trace[l].ev = name

New == /\ IsEv("new")
       /\ typ' = Trace[l].t
       /\ roots' = [s \in Sides |-> <<RootOf(Trace[l].t, EmptyMsg)>>]
       /\ pre' = [s \in Sides |-> EmptyMsg]
       /\ l' = l + 1

\* the side's root is (re)built outside the recording; detached roots are forgotten
Load == /\ IsEv("load")
        /\ roots' = [roots EXCEPT ![Trace[l].side] = <<RootOf(typ, FromJ(S, typ, Trace[l].v))>>]
        /\ UNCHANGED <<typ, pre>>
        /\ l' = l + 1

Call == /\ IsEv("call")
        /\ pre' = [pre EXCEPT ![Trace[l].side] = roots[Trace[l].side][1].v]
        /\ UNCHANGED <<typ, roots>>
        /\ l' = l + 1

Adopt == /\ IsEv("adopt")
         /\ LET e == Trace[l] RS == roots[e.side] IN
            roots' = [roots EXCEPT ![e.side] = [RS EXCEPT ![e.r + 1].v = FromJ(S, RS[e.r + 1].T, e.st)]]
         /\ UNCHANGED <<typ, pre>>
         /\ l' = l + 1

\* the type of the detached message an operation creates ("" if none)
Creates(T, op) ==
    IF op.op = "New" THEN T
    ELSE IF op.f = 0 THEN ""
    ELSE LET fd == FieldOf(S, T, op.f)
         IN CASE op.op = "NewField" /\ fd.card \in {"one", "oneof"} /\ fd.kind = "message" -> fd.msg
              [] op.op = "LNewElement" /\ fd.card = "rep" /\ fd.kind = "message" -> fd.msg
              [] op.op = "MNewValue" /\ fd.card = "map" /\ fd.vk = "message" -> fd.vmsg
              [] OTHER -> ""

\* attaching the value hv of a detached root
Attach(T, v, op, hv) ==
    LET fd == FieldOf(S, T, op.f)
    IN CASE op.op = "SetVal" /\ fd.card \in {"one", "oneof"} /\ fd.kind = "message" ->
               R(SetF(DropOthers(S, T, v, fd), fd, hv), OK)
         [] op.op = "LAppendVal" /\ fd.card = "rep" /\ fd.kind = "message" /\ ~ReadOnly(v, fd, op) ->
               R(SetF(v, fd, Append(ListOf(v, fd), hv)), OK)
         [] op.op = "MSetVal" /\ fd.card = "map" /\ fd.vk = "message" /\ ~ReadOnly(v, fd, op) ->
               LET m == MapOf(v, fd) IN R(SetF(v, fd, (op.k :> hv) @@ [kk \in (DOMAIN m) \ {op.k} |-> m[kk]]), OK)
         [] OTHER -> R(v, PANIC)

\* one recorded call on root value rv of type T, given the side's roots RS
Step(T, rv, op, RS) ==
    IF op.nil THEN [st |-> rv, ret |-> ApplyNil(S, op.nt, op), enabled |-> TRUE, T |-> op.nt]
    ELSE IF op.op = "Reset" THEN [st |-> EmptyMsg, ret |-> OK, enabled |-> op.p = <<>>, T |-> T]
    ELSE LET at == AtPath(S, T, rv, op.p)
         IN IF ~at.ok THEN [st |-> rv, ret |-> NOPATH, enabled |-> FALSE, T |-> T]
            ELSE LET r == IF op.op = "New" THEN R(at.v, ViewOf(TRUE, 0))
                          ELSE IF op.op \in {"SetVal", "LAppendVal", "MSetVal"}
                               THEN (IF op.h + 1 \in 1..Len(RS) THEN Attach(at.T, at.v, op, RS[op.h + 1].v) ELSE R(at.v, PANIC))
                          ELSE ApplyAt(S, at.T, at.v, op)
                 IN [st |-> IF r.v = at.v THEN rv ELSE PutPath(S, T, rv, op.p, r.v), ret |-> r.ret, enabled |-> TRUE, T |-> at.T]

ReadLike(op) == IsRead(op) \/ op.op = "New" \/ op.nil

Op == /\ IsEv("op")
      /\ LET e == Trace[l]
             RS == roots[e.side]
             idx == e.r + 1
             T == RS[idx].T
             rv == RS[idx].v
             r == Step(T, rv, e.op, RS)
             obs == IF ReadLike(e.op) THEN rv ELSE FromJ(S, T, e.st)
             ct == IF r.enabled THEN Creates(r.T, e.op) ELSE ""
             good == r.enabled /\ RetEqV(e.ret, r.ret, e.nv) /\ obs = r.st /\ (ct # "" => e.new = Len(RS))
             RS1 == [RS EXCEPT ![idx].v = obs]
         IN /\ roots' = [roots EXCEPT ![e.side] = IF ct # "" THEN Append(RS1, RootOf(ct, EmptyMsg)) ELSE RS1]
            /\ (IF good THEN TRUE
                ELSE PrintT("VERDICT " \o ToJson([l |-> l, c |-> e.case, side |-> e.side, op |-> e.op.op, call |-> "",
                         what |-> IF ~r.enabled THEN "path" ELSE IF ~RetEqV(e.ret, r.ret, e.nv) THEN "ret"
                                  ELSE IF obs # r.st THEN "state" ELSE "handle",
                         want |-> r.ret])))
      /\ UNCHANGED <<typ, pre>>
      /\ l' = l + 1

Done == /\ IsEv("done")
        /\ LET e == Trace[l]
               RS == roots[e.side]
               cur == RS[1].v
               p == pre[e.side]
               obs == FromJ(S, typ, e.st)
               other == FromJ(S, typ, e.other)
               want == CASE e.kind = "merge" -> MergeV(S, typ, p, other)
                         [] e.kind = "same" -> p
                         [] e.kind = "clone" -> p
                         [] e.kind = "parse" -> FromJ(S, typ, e.want)
                         [] OTHER -> cur
               good == /\ e.ok
                       /\ cur = want           \* the composition of the recorded steps
                       /\ obs = want           \* the message as observed at the end of the call
                       /\ (e.haseq => ((p = other) => e.eq))
                       /\ (e.kind = "clone" => (e.h + 1 \in 1..Len(RS) /\ RS[e.h + 1].v = p))
           IN /\ roots' = [roots EXCEPT ![e.side] = [RS EXCEPT ![1].v = obs]]
              /\ (IF good THEN TRUE
                  ELSE PrintT("VERDICT " \o ToJson([l |-> l, c |-> e.case, side |-> e.side, op |-> "done", call |-> e.call,
                           what |-> IF ~e.ok THEN "result" ELSE IF cur # want THEN "steps" ELSE IF obs # want THEN "state"
                                    ELSE IF e.kind = "clone" /\ ~(e.h + 1 \in 1..Len(RS) /\ RS[e.h + 1].v = p) THEN "clone" ELSE "equal",
                           want |-> 0])))
        /\ UNCHANGED <<typ, pre>>
        /\ l' = l + 1

Init == l = 1 /\ typ = "" /\ roots = [s \in Sides |-> <<RootOf("", EmptyMsg)>>] /\ pre = [s \in Sides |-> EmptyMsg]
Next == New \/ Load \/ Call \/ Adopt \/ Op \/ Done
Spec == Init /\ [][Next]_vars
AllConsumed == TLCGet("stats").diameter = Len(Trace) + 1 /\ PrintT("TRACE-DONE " \o ToString(Len(Trace)))
=============================================================================
