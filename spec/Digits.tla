------------------------------- MODULE Digits -------------------------------
(***************************************************************************)
(* Fixed-width machine words as little-endian base-128 digit tuples.       *)
(*                                                                         *)
(* TLC integers are 32-bit, the properties are about 64-bit scalars and    *)
(* 10-byte varints, so no 64-bit quantity is ever an integer here.  A      *)
(* 64-bit word is 10 digits (top digit in 0..1), a 32-bit word is 5 digits *)
(* (top digit in 0..15).  Base 128 is the natural base for varints: the    *)
(* varint of a word is its significant digits with continuation bits.      *)
(* Fixed-width little-endian byte tuples (base 256) are used for           *)
(* fixed32/fixed64/float/double and are never interpreted numerically.     *)
(***************************************************************************)
EXTENDS Integers, Sequences, FiniteSets

Zeros(n) == [i \in 1..n |-> 0]

Pad(d, n) == [i \in 1..n |-> IF i <= Len(d) THEN d[i] ELSE 0]

IsZero(d) == \A i \in 1..Len(d) : d[i] = 0

MaxOf(S) == CHOOSE x \in S : \A y \in S : y <= x
MinOf(S) == CHOOSE x \in S : \A y \in S : x <= y

\* number of significant digits, at least 1
SigLen(d) == LET nz == {i \in 1..Len(d) : d[i] # 0} IN IF nz = {} THEN 1 ELSE MaxOf(nz)

\* minimal varint encoding of a word
Varint(d) == LET n == SigLen(d) IN [i \in 1..n |-> IF i < n THEN d[i] + 128 ELSE d[i]]

\* size of the minimal varint (what runtime.Sov computes)
Sov(d) == SigLen(d)

\* varint of a small natural number (lengths, tags) -- n < 2^31
RECURSIVE NatVarint(_)
NatVarint(n) == IF n < 128 THEN <<n>> ELSE <<128 + (n % 128)>> \o NatVarint(n \div 128)

RECURSIVE NatDigits(_, _)
NatDigits(n, w) == IF w = 0 THEN <<>> ELSE <<n % 128>> \o NatDigits(n \div 128, w - 1)

\* value of a digit tuple as a natural, only defined (result >= 0) when it fits in 31 bits;
\* returns -1 otherwise
DigitsToNat(d) ==
    LET dd == Pad(d, 10)
    IN IF (\E i \in 6..10 : dd[i] # 0) \/ dd[5] >= 8 THEN -1
       ELSE dd[1] + 128 * dd[2] + 16384 * dd[3] + 2097152 * dd[4] + 268435456 * dd[5]

(***************************************************************************)
(* 32 <-> 64 bit conversions.  TopMod is 16 for 32-bit words (4 bits in    *)
(* digit 5) and 2 for 64-bit words (1 bit in digit 10).                    *)
(***************************************************************************)
IsNeg32(d) == d[5] >= 8
IsNeg64(d) == d[10] >= 1

SignExtend32(d) == IF IsNeg32(d)
                   THEN <<d[1], d[2], d[3], d[4], d[5] + 112, 127, 127, 127, 127, 1>>
                   ELSE Pad(d, 10)
ZeroExtend32(d) == Pad(d, 10)
Trunc32(d) == LET dd == Pad(d, 10) IN <<dd[1], dd[2], dd[3], dd[4], dd[5] % 16>>
Norm64(d) == LET dd == Pad(d, 10) IN [i \in 1..10 |-> IF i = 10 THEN dd[i] % 2 ELSE dd[i]]

Shl1(d, n, topmod) ==
    [i \in 1..n |-> LET c == IF i = 1 THEN 0 ELSE d[i-1] \div 64
                        v == ((d[i] * 2) % 128) + c
                    IN IF i = n THEN v % topmod ELSE v]
Shr1(d, n) == [i \in 1..n |-> (d[i] \div 2) + (IF i < n THEN (d[i+1] % 2) * 64 ELSE 0)]
Not(d, n, topmod) == [i \in 1..n |-> IF i = n THEN topmod - 1 - d[i] ELSE 127 - d[i]]

ZigZag32(d) == LET s == Shl1(d, 5, 16) IN IF IsNeg32(d) THEN Not(s, 5, 16) ELSE s
ZigZag64(d) == LET s == Shl1(d, 10, 2) IN IF IsNeg64(d) THEN Not(s, 10, 2) ELSE s
UnZigZag32(d) == LET s == Shr1(d, 5) IN IF d[1] % 2 = 1 THEN Not(s, 5, 16) ELSE s
UnZigZag64(d) == LET s == Shr1(d, 10) IN IF d[1] % 2 = 1 THEN Not(s, 10, 2) ELSE s

(***************************************************************************)
(* Orders (for deterministic map-key sorting).                             *)
(***************************************************************************)
\* unsigned order on equal-length tuples, most significant element last
LessU(a, b) == \E i \in 1..Len(a) : a[i] < b[i] /\ \A j \in (i+1)..Len(a) : a[j] = b[j]
\* signed order: negative words first
LessS(a, b, neg(_)) == IF neg(a) # neg(b) THEN neg(a) ELSE LessU(a, b)
\* lexicographic order on byte strings
LessLex(a, b) == \/ (Len(a) < Len(b) /\ \A i \in 1..Len(a) : a[i] = b[i])
                 \/ \E i \in 1..MinOf({Len(a), Len(b)}) :
                       a[i] < b[i] /\ \A j \in 1..(i-1) : a[j] = b[j]

IsNegBytes(a) == a[Len(a)] >= 128

(***************************************************************************)
(* Generic adder with carry on base-B digit tuples (used by TimePB).       *)
(***************************************************************************)
RECURSIVE AddC(_, _, _, _)
AddC(a, b, base, c) ==
    IF a = <<>> THEN <<c>>
    ELSE LET s == a[1] + b[1] + c
         IN <<s % base>> \o AddC(Tail(a), Tail(b), base, s \div base)

RECURSIVE ValOf(_, _)
ValOf(d, base) == IF d = <<>> THEN 0 ELSE d[1] + base * ValOf(Tail(d), base)

=============================================================================
