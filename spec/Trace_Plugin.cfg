SPECIFICATION TSpec
POSTCONDITION AllConsumed
CHECK_DEADLOCK FALSE
