---------------------------- MODULE Trace_Varint ----------------------------
(***************************************************************************)
(* Trace validation of recorded calls of runtime.Sov / Soz / EncodeVarint  *)
(* (sampled from the Go-side sweep) against module Digits, so that the     *)
(* Go oracle of the sweep (protowire) stays tied to the specification.     *)
(***************************************************************************)
EXTENDS Digits, TLC, Json, IOUtils
Trace == ndJsonDeserialize(IOEnv.VERIF_TRACE)
VARIABLE l
Step ==
    /\ l <= Len(Trace)
    /\ LET e == Trace[l]
           v == Varint(e.d)
           ok == /\ e.panic = ""
                 /\ e.sov = Len(v)
                 /\ e.soz = Len(Varint(ZigZag64(e.d)))
                 /\ e.base = e.off - Len(v)
                 /\ \A i \in 1..Len(e.frame) :
                        e.frame[i] = IF i > e.base /\ i <= e.off THEN v[i - e.base] ELSE 170
       IN IF ok THEN TRUE ELSE PrintT("VERDICT " \o ToJson([l |-> l, d |-> e.d]))
    /\ l' = l + 1
Init == l = 1
Spec == Init /\ [][Step]_l
AllConsumed == TLCGet("stats").diameter = Len(Trace) + 1 /\ PrintT("TRACE-DONE " \o ToString(Len(Trace)))
=============================================================================
