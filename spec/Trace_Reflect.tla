---------------------------- MODULE Trace_Reflect ---------------------------
(***************************************************************************)
(* Trace validation of long random operation histories (C08, direction B): *)
(* every recorded protoreflect call on a pulsar message, and the same call *)
(* on its dynamicpb twin, must be a step of Reflect!Apply: same returned   *)
(* value / panic and same resulting state.  The observed state is adopted  *)
(* after a mismatch so that the rest of the history is still checked.      *)
(***************************************************************************)
EXTENDS Reflect, CodecJson, Json, IOUtils

S     == JsonDeserialize(IOEnv.VERIF_SCHEMA)
Trace == ndJsonDeserialize(IOEnv.VERIF_TRACE)

VARIABLES l, typ, val, rval
vars == <<l, typ, val, rval>>

Rng(s) == {s[i] : i \in 1..Len(s)}
\* results agree (map key lists as sets: Map.Range order is unspecified)
RetEq(obs, want) ==
    /\ obs.kind = want.kind
    /\ IF want.kind = "keys" THEN Rng(obs.v) = Rng(want.v) /\ Len(obs.v) = Len(want.v)
       ELSE IF want.kind \in {"ok", "panic", "invalid", "nopath"} THEN TRUE
       ELSE obs.v = want.v

New == /\ l <= Len(Trace) /\ Trace[l].ev = "new"
       /\ typ' = Trace[l].t /\ val' = EmptyMsg /\ rval' = EmptyMsg /\ l' = l + 1

Op == /\ l <= Len(Trace) /\ Trace[l].ev = "op"
      /\ LET e == Trace[l]
             r  == Apply(S, typ, val, e.op)
             rr == Apply(S, typ, rval, e.op)
             st == FromJ(S, typ, e.st)
             rst == FromJ(S, typ, e.ref_st)
             impl == r.enabled /\ RetEq(e.ret, r.ret) /\ st = r.st /\ e.fast_eq
             ref  == rr.enabled /\ RetEq(e.ref_ret, rr.ret) /\ rst = rr.st
         IN /\ val' = st
            /\ rval' = rst
            /\ (IF impl /\ ref THEN TRUE
                ELSE PrintT("VERDICT " \o ToJson([l |-> l, c |-> e.case, op |-> e.op.op, impl |-> impl, ref |-> ref,
                         what |-> IF ~r.enabled THEN "path" ELSE IF ~RetEq(e.ret, r.ret) THEN "ret"
                                  ELSE IF st # r.st THEN "state" ELSE IF ~e.fast_eq THEN "fast" ELSE "ref"])))
      /\ UNCHANGED typ
      /\ l' = l + 1

Init == l = 1 /\ typ = "" /\ val = EmptyMsg /\ rval = EmptyMsg
Next == New \/ Op
Spec == Init /\ [][Next]_vars
AllConsumed == TLCGet("stats").diameter = Len(Trace) + 1 /\ PrintT("TRACE-DONE " \o ToString(Len(Trace)))
=============================================================================
