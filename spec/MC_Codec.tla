------------------------------ MODULE MC_Codec ------------------------------
(***************************************************************************)
(* Exhaustive model of the codec on one root message type T of a schema S  *)
(* that is derived at run time from the real descriptors (possibly a       *)
(* sub-schema: a field filter on the root type).                           *)
(*                                                                         *)
(* The system is the DECODER MACHINE: the state is the abstract value of   *)
(* the message under construction, one action consumes one record taken    *)
(* from a record alphabet computed from the schema (Alpha).  Every         *)
(* reachable state is a message value; the encoder-side properties are     *)
(* invariants over these values, the decoder-side properties are checked   *)
(* on every transition:                                                    *)
(*   RoundTrip, SizeIsLen, BackFillRefinesEnc, NormalInv, EncWellFormed    *)
(*   UnknownVerbatim   -- unknown records are kept byte for byte, in order *)
(*   StepIsMerge       -- decoding one more record = MergeV with the       *)
(*                        decode of that record alone (for records that    *)
(*                        carry no explicit default scalar)                *)
(*   DiscardStep       -- under DiscardUnknown the known part is unchanged *)
(*                                                                         *)
(* With VERIF_EXPORT = "1" every generated transition is printed as JSON   *)
(* (path of the source state, record index, expected target state) for     *)
(* replay in the real code: one implementation test per transition.        *)
(***************************************************************************)
EXTENDS CodecJson, Json, IOUtils

S      == JsonDeserialize(IOEnv.VERIF_SCHEMA)
T      == IOEnv.VERIF_TYPE
MaxLen == atoi(IOEnv.VERIF_MAXLEN)
Export == IOEnv.VERIF_EXPORT = "1"

(***************************************************************************)
(* Value pools: two non-default boundary values per kind, plus the default *)
(***************************************************************************)
Pool(kind) ==
    CASE kind \in {"int32", "sint32", "enum"} -> << <<1, 0, 0, 0, 0>>, <<127, 127, 127, 127, 15>> >>        \* 1, -1
      [] kind = "uint32" -> << <<0, 1, 0, 0, 0>>, <<127, 127, 127, 127, 15>> >>                                \* 128, max
      [] kind \in {"int64", "sint64"} -> << <<127, 127, 127, 127, 127, 127, 127, 127, 127, 0>>, <<0, 0, 0, 0, 0, 0, 0, 0, 0, 1>> >> \* max, min
      [] kind = "uint64" -> << <<1, 0, 0, 0, 0, 0, 0, 0, 0, 0>>, <<127, 127, 127, 127, 127, 127, 127, 127, 127, 1>> >>
      [] kind = "bool" -> << <<1>>, <<1>> >>
      [] kind \in Fixed32Kinds -> << <<1, 0, 0, 0>>, <<0, 0, 0, 128>> >>     \* 1 / denormal, sign bit only (-0.0 as float)
      [] kind \in Fixed64Kinds -> << <<0, 0, 0, 0, 0, 0, 240, 63>>, <<0, 0, 0, 0, 0, 0, 0, 128>> >>  \* 1.0, -0.0
      [] kind = "string" -> << <<97>>, <<195, 169, 0>> >>
      [] kind = "bytes" -> << <<0>>, <<255, 128>> >>
      [] OTHER -> << <<>>, <<>> >>

\* a non-minimal (padded by one byte) varint of a word
PaddedVarint(d) ==
    LET v == Varint(d)
    IN IF Len(v) >= 10 THEN v
       ELSE [i \in 1..(Len(v) + 1) |-> IF i <= Len(v) THEN (IF i = Len(v) THEN v[i] + 128 ELSE v[i]) ELSE 0]

ScalarRec(num, kind, x) == TagBytes(num, WireOf(kind)) \o EncScalar(kind, x)

\* a few small values of message type M (depth-bounded), as encodings
RECURSIVE SubPayloads(_, _)
SubPayloads(M, depth) ==
    LET fs == FieldsOf(S, M)
        scal == SelectSeq(fs, LAMBDA fd : fd.card = "one" /\ fd.kind # "message")
        msgs == SelectSeq(fs, LAMBDA fd : fd.card = "one" /\ fd.kind = "message")
        reps == SelectSeq(fs, LAMBDA fd : fd.card = "rep" /\ fd.kind # "message")
        a == IF scal = <<>> THEN <<>> ELSE << ScalarRec(scal[1].num, scal[1].kind, Pool(scal[1].kind)[1]) >>
        b == IF Len(scal) < 2 THEN <<>> ELSE << ScalarRec(scal[2].num, scal[2].kind, Pool(scal[2].kind)[2]) >>
        c == IF reps = <<>> THEN <<>> ELSE << ScalarRec(reps[1].num, reps[1].kind, Pool(reps[1].kind)[1]) >>
        d == IF msgs = <<>> \/ depth = 0 THEN <<>>
             ELSE << RecBytes(msgs[1].num, SubPayloads(msgs[1].msg, depth - 1)[2]) >>
        u == << RecVarint(77, <<5, 0, 0, 0, 0, 0, 0, 0, 0, 0>>) >>
        maps == SelectSeq(fs, LAMBDA fd : fd.card = "map" /\ fd.vk # "message")
        \* two entries of a nested map in one payload (map iteration order matters below the top level)
        e == IF maps = <<>> THEN <<>>
             ELSE LET fd == maps[1]
                      ent(k, x) == RecBytes(fd.num, TagBytes(1, WireOf(fd.kk)) \o EncScalar(fd.kk, k)
                                                    \o TagBytes(2, WireOf(fd.vk)) \o EncScalar(fd.vk, x))
                  IN << ent(Pool(fd.kk)[2], Pool(fd.vk)[1]) \o ent(Pool(fd.kk)[1], Pool(fd.vk)[2]) >>
    IN << <<>> >> \o a \o b \o c \o d \o u \o e

EntryRecs(fd) ==
    LET k1 == TagBytes(1, WireOf(fd.kk)) \o EncScalar(fd.kk, Pool(fd.kk)[1])
        k2 == TagBytes(1, WireOf(fd.kk)) \o EncScalar(fd.kk, Pool(fd.kk)[2])
        vs == IF fd.vk = "message"
              THEN LET sp == SubPayloads(fd.vmsg, 1) IN << TagBytes(2, 2) \o LenPrefixed(sp[1]), TagBytes(2, 2) \o LenPrefixed(sp[2]) >>
              ELSE << TagBytes(2, WireOf(fd.vk)) \o EncScalar(fd.vk, Pool(fd.vk)[1]),
                      TagBytes(2, WireOf(fd.vk)) \o EncScalar(fd.vk, Pool(fd.vk)[2]) >>
        unk == RecVarint(5, <<9, 0, 0, 0, 0, 0, 0, 0, 0, 0>>)
    IN << RecBytes(fd.num, k1 \o vs[1]),            \* full entry
          RecBytes(fd.num, k2 \o vs[2]),
          RecBytes(fd.num, k1),                     \* key only
          RecBytes(fd.num, vs[1]),                  \* value only
          RecBytes(fd.num, vs[2] \o k1),            \* value before key
          RecBytes(fd.num, k2 \o k1 \o vs[1]),      \* duplicated key: last wins
          RecBytes(fd.num, k1 \o unk \o vs[2]),     \* unknown inner record
          RecBytes(fd.num, <<>>) >>                 \* empty entry
       \o (IF fd.vk = "message" THEN <<>>
           ELSE << RecBytes(fd.num, k1 \o vs[1] \o vs[2]) >>)   \* duplicated scalar value: last wins

FieldRecs(fd) ==
    CASE fd.card \in {"one", "oneof"} /\ fd.kind # "message" ->
            << ScalarRec(fd.num, fd.kind, Pool(fd.kind)[1]),
               ScalarRec(fd.num, fd.kind, Pool(fd.kind)[2]),
               ScalarRec(fd.num, fd.kind, ZeroOf(fd.kind)) >>        \* explicit default
            \o (IF fd.kind \in VarintKinds
                THEN << TagBytes(fd.num, 0) \o PaddedVarint(VarintWord(fd.kind, Pool(fd.kind)[1])) >>
                ELSE <<>>)
      [] fd.card \in {"one", "oneof"} ->
            LET sp == SubPayloads(fd.msg, 1) IN [i \in 1..Len(sp) |-> RecBytes(fd.num, sp[i])]
      [] fd.card = "rep" /\ fd.kind = "message" ->
            LET sp == SubPayloads(fd.msg, 1) IN [i \in 1..2 |-> RecBytes(fd.num, sp[i])]
      [] fd.card = "rep" /\ fd.kind \in NumericKinds ->
            << ScalarRec(fd.num, fd.kind, Pool(fd.kind)[1]),                                                 \* unpacked element
               ScalarRec(fd.num, fd.kind, ZeroOf(fd.kind)),
               RecBytes(fd.num, EncScalar(fd.kind, Pool(fd.kind)[2]) \o EncScalar(fd.kind, Pool(fd.kind)[1])), \* packed run
               RecBytes(fd.num, <<>>) >>                                                                      \* empty run
      [] fd.card = "rep" ->
            << ScalarRec(fd.num, fd.kind, Pool(fd.kind)[1]), ScalarRec(fd.num, fd.kind, <<>>) >>
      [] fd.card = "map" -> EntryRecs(fd)

\* numbers unknown to the real type (S[T].nums lists all its declared numbers, also those a
\* sub-schema filter removed), one adjacent to a declared number, one needing a 2-byte tag
RealNums == {S[T].nums[i] : i \in 1..Len(S[T].nums)}
UnknownNum == IF RealNums = {} THEN 1
              ELSE CHOOSE n \in 2..2000 : n \notin RealNums /\ (n - 1) \in RealNums
UnknownBig == CHOOSE n \in 2047..2060 : n \notin RealNums

UnknownRecs ==
    << RecVarint(UnknownNum, <<127, 127, 1, 0, 0, 0, 0, 0, 0, 0>>),
       RecFixed64(UnknownBig, <<1, 2, 3, 4, 5, 6, 7, 8>>),
       RecBytes(UnknownNum, <<8, 1>>),
       RecGroup(UnknownBig, RecVarint(1, <<1, 0, 0, 0, 0, 0, 0, 0, 0, 0>>) \o RecGroup(3, <<>>)),
       RecFixed32(UnknownNum, <<9, 9, 9, 9>>) >>

Alpha == ConcatAll([i \in 1..Len(FieldsOf(S, T)) |-> FieldRecs(FieldsOf(S, T)[i])]) \o UnknownRecs

(***************************************************************************)
(* The machine                                                             *)
(***************************************************************************)
VARIABLES val, path
vars == <<val, path>>

Opts(discard) == [discard |-> discard, depth |-> 100, dev |-> {}]

\* does the record (bytes) carry an explicit default for a singular scalar (at top level or below)?
\* such records make "decode of a concatenation" differ from proto.Merge (DESIGN 3.1)
HasExplicitDefault(b) ==
    LET d == DecInto(S, T, b, EmptyMsg, Opts(FALSE))
    IN d.ok /\ EncMsg(S, T, d.val) = <<>> /\ b # <<>>

StepDiag(i) ==
    LET b  == Alpha[i]
        d  == DecInto(S, T, b, val, Opts(FALSE))
        d1 == DecInto(S, T, b, EmptyMsg, Opts(FALSE))
        dd == DecInto(S, T, b, val, Opts(TRUE))
    IN IF ~(d.ok /\ d1.ok /\ dd.ok) THEN "decode-error"
       \* UnknownVerbatim: the unknown set grows by exactly the raw record or not at all
       ELSE IF ~(d.val.u = val.u \/ d.val.u = val.u \o b) THEN "unknown-verbatim"
       ELSE IF d.val.u = val.u \o b /\ d.val.f # val.f THEN "unknown-and-known"
       \* DiscardStep: no unknown record of this step survives at any depth, nothing else changes
       ELSE IF ~(Strip(S, T, dd.val) = Strip(S, T, d.val) /\ dd.val.u = val.u) THEN "discard"
       ELSE IF Strip(S, T, val) = val /\ dd.val # Strip(S, T, d.val) THEN "discard-clean"
       \* StepIsMerge
       ELSE IF ~HasExplicitDefault(b) /\ d.val # MergeV(S, T, val, d1.val) THEN "step-is-merge"
       ELSE "ok"

StepOK(i) == StepDiag(i) = "ok"

Next ==
    /\ Len(path) < MaxLen
    /\ \E i \in 1..Len(Alpha) :
          LET d == DecInto(S, T, Alpha[i], val, Opts(FALSE))
          IN /\ Assert(StepOK(i), <<"StepOK violated", StepDiag(i), path, i, Alpha[i]>>)
             /\ val' = d.val
             /\ path' = Append(path, i)
             /\ (Export => PrintT("EDGE " \o ToJson([p |-> path, i |-> i, to |-> ToJ(S, T, d.val),
                                                      enc |-> EncMsg(S, T, d.val), size |-> SizeMsg(S, T, d.val),
                                                      dto |-> ToJ(S, T, Strip(S, T, d.val))])))

Init == /\ val = EmptyMsg
        /\ path = <<>>
        /\ (Export => PrintT("ALPHA " \o ToJson(Alpha)))

Spec == Init /\ [][Next]_vars

View == val

RoundTrip ==
    LET d == DecInto(S, T, EncMsg(S, T, val), EmptyMsg, Opts(FALSE)) IN d.ok /\ d.val = val
SizeIsLen == SizeMsg(S, T, val) = Len(EncMsg(S, T, val))
BackFillRefinesEnc == BackFill(S, T, val) = EncMsg(S, T, val)
NormalInv == Normal(S, T, val)
EncWellFormed == WellFormedBytes(EncMsg(S, T, val))
\* C05: with the Deterministic flag the bytes do not depend on the map iteration order, at any
\* depth.  VERIF_FWD = "0" selects the non-vacuity variant in which nested marshals drop the
\* flag; DetIsPure must then FAIL (checked by `verif selftest`).
Fwd == IOEnv.VERIF_FWD # "0"
DetIsPure == EncMsgO(S, T, val, [det |-> TRUE, ord |-> "asc", fwd |-> Fwd])
             = EncMsgO(S, T, val, [det |-> TRUE, ord |-> "desc", fwd |-> Fwd])
\* non-deterministic encodings in either order are still encodings of the same value
NonDetValid == LET b == EncMsgO(S, T, val, [det |-> FALSE, ord |-> "desc", fwd |-> TRUE])
                   d == DecInto(S, T, b, EmptyMsg, Opts(FALSE))
               IN d.ok /\ d.val = val /\ Len(b) = SizeMsg(S, T, val)
\* re-encoding emits the unknown bytes unchanged after the known fields
UnknownLast == LET e == EncMsg(S, T, val) IN SubSeq(e, Len(e) - Len(val.u) + 1, Len(e)) = val.u
=============================================================================
