SPECIFICATION Spec
INVARIANT PackUnpack
INVARIANT NeverPanics
INVARIANT ExportInv
CHECK_DEADLOCK FALSE
