SPECIFICATION Spec
INVARIANT NoSharedWrite
INVARIANT ResultsSequential
INVARIANT InfoInitOnce
INVARIANT ViewRangeExact
CHECK_DEADLOCK FALSE
