SPECIFICATION Spec
INVARIANT NoSharedWrite
INVARIANT ResultsSequential
INVARIANT InfoInitOnce
CHECK_DEADLOCK FALSE
