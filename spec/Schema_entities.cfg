SPECIFICATION Spec
INVARIANT EntitiesOK
CHECK_DEADLOCK FALSE
