--------------------------- MODULE Trace_RapidGen ---------------------------
(***************************************************************************)
(* Outputs of rapidproto.MessageGenerator, recorded with the facts the     *)
(* specification speaks about, validated against RapidGen!NodeOK: the      *)
(* generator terminated, the reference marshaller accepted the message,    *)
(* it round-tripped, and every node obeys the output rules for the option  *)
(* set in force (within the nesting limit).                                *)
(***************************************************************************)
EXTENDS Naturals, Sequences, FiniteSets, TLC, IOUtils, Json
Trace == ndJsonDeserialize(IOEnv.VERIF_TRACE)
Limit == 10
NodeOK(n, o) ==
    /\ n.enumBad = 0 /\ n.badUtf8 = 0 /\ n.tsBad = 0 /\ n.durBad = 0 /\ n.anyBad = 0 /\ n.maskBad = 0
    /\ (o.mapped => n.unmapped = 0)
    /\ ((o.noempty /\ n.depth < Limit) => n.emptyLists = 0)
    /\ ((o.noempty /\ n.depth <= Limit) => n.emptyScalarLists = 0)
    /\ ((o.nonil /\ n.depth < Limit) => n.nilMsgs = 0)
Why(n, o) ==
    IF n.enumBad # 0 THEN "enum-undeclared" ELSE IF n.badUtf8 # 0 THEN "utf8" ELSE IF n.tsBad # 0 THEN "timestamp"
    ELSE IF n.durBad # 0 THEN "duration" ELSE IF n.anyBad # 0 THEN "any" ELSE IF n.maskBad # 0 THEN "fieldmask"
    ELSE IF o.mapped /\ n.unmapped # 0 THEN "mapper" ELSE IF o.noempty /\ (n.emptyLists # 0 \/ n.emptyScalarLists # 0) THEN "emptylist" ELSE "nilmessage"
VARIABLE l
Step ==
    /\ l <= Len(Trace)
    /\ LET e == Trace[l]
           badNodes == {i \in 1..Len(e.nodes) : ~NodeOK(e.nodes[i], e.opts)}
           ok == e.outcome = "ok" /\ e.refMarshal /\ e.roundtrip /\ badNodes = {}
       IN IF ok THEN TRUE
          ELSE PrintT("VERDICT " \o ToJson([l |-> l,
                   sig |-> IF e.outcome = "timeout" /\ e.fanout THEN "timeout:recursive-fanout"
                           ELSE IF e.outcome = "panic" /\ e.nofields THEN "panic:no-fields"
                           ELSE IF e.outcome # "ok" THEN e.outcome
                           ELSE IF ~e.refMarshal THEN "refmarshal" ELSE IF ~e.roundtrip THEN "roundtrip"
                           ELSE Why(e.nodes[CHOOSE i \in badNodes : TRUE], e.opts)]))
    /\ l' = l + 1
Init == l = 1
Spec == Init /\ [][Step]_l
AllConsumed == TLCGet("stats").diameter = Len(Trace) + 1 /\ PrintT("TRACE-DONE " \o ToString(Len(Trace)))
=============================================================================
