SPECIFICATION Spec
VIEW View
INVARIANT SkipProgress
INVARIANT SkipAgrees
INVARIANT SkipSound
CHECK_DEADLOCK FALSE
