-------------------------------- MODULE Plugin ------------------------------
(***************************************************************************)
(* Exhaustive check of the request space of PluginModel (see there).       *)
(***************************************************************************)
EXTENDS PluginModel

SetToSeq(S) == CHOOSE s \in [1..Cardinality(S) -> S] : \A i, j \in 1..Cardinality(S) : i # j => s[i] # s[j]

VARIABLES fp, pp, mp, flag, gen, iter
vars == <<fp, pp, mp, flag, gen, iter>>

GenLists == { <<>>, <<"A">>, <<"B">>, <<"C">>, <<"E">>, <<"D">>, <<"E", "A">>, <<"A", "B">>, <<"B", "A">>, <<"A", "C">>, <<"C", "A">>, <<"A", "D">>, <<"D", "E">>,
              <<"A", "B", "C">>, <<"C", "B", "A">>, <<"A", "B", "C", "D", "E">>, <<"E", "D", "C", "B", "A">>,
              <<"F">>, <<"G">>, <<"H">>, <<"G", "H">>, <<"H", "G">>, <<"F", "H", "G", "A">>,
              <<"X">>, <<"X", "C">>, <<"C", "X">>, <<"X", "A">>, <<"I">>, <<"I", "A">> }

Init == fp \in FeatureParams /\ pp \in PathsParams /\ mp \in MParams /\ flag \in FlagParams /\ gen \in GenLists /\ iter \in {1, 2}
Next == UNCHANGED vars
Spec == Init /\ [][Next]_vars

\* C13: the response does not depend on the map iteration order
IterIndependent == Outcome(fp, pp, mp, flag, gen, 1) = Outcome(fp, pp, mp, flag, gen, 2)
\* C13: what is generated for a file does not depend on the other files of the request or their order
CoGenIndependent ==
    \A g2 \in GenLists :
        LET o1 == Outcome(fp, pp, mp, flag, gen, iter)
            o2 == Outcome(fp, pp, mp, flag, g2, iter)
        IN \A x \in o1.files : \A y \in o2.files : x.file = y.file => x = y
\* C12: proto2 and unrequested files produce nothing; unknown features are answered with an error
NoOutputForOthers ==
    LET o == Outcome(fp, pp, mp, flag, gen, iter)
    IN \A x \in o.files : x.file \in Proto3 /\ \E i \in 1..Len(gen) : gen[i] = x.file
UnknownIsError == ("?" \in Asked(fp) /\ flag = "none" /\ pp # "bogus") => Outcome(fp, pp, mp, flag, gen, iter).kind = "error"

ExportInv == (IOEnv.VERIF_EXPORT = "1" /\ iter = 1) =>
    PrintT("CASE " \o ToJson([fp |-> fp, pp |-> pp, mp |-> mp, flag |-> flag, gen |-> gen,
                              kind |-> Outcome(fp, pp, mp, flag, gen, 1).kind,
                              files |-> SetToSeq({x.file : x \in Outcome(fp, pp, mp, flag, gen, 1).files})]))
=============================================================================
