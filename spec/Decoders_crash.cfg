SPECIFICATION Spec
INVARIANT NoCrash
CHECK_DEADLOCK FALSE
