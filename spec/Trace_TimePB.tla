---------------------------- MODULE Trace_TimePB ----------------------------
(***************************************************************************)
(* Trace validation of recorded timepb.Add / AddStd calls at TRUE scale.   *)
(* Seconds are 64-bit two's complement words (module Digits), nanos are    *)
(* plain integers (|n| < 2^31).  The expected result is the exact instant  *)
(* sum, normalised; when the seconds of that sum do not fit in 64 bits the *)
(* call must panic.                                                        *)
(***************************************************************************)
EXTENDS Digits, TLC, Json, IOUtils
Trace == ndJsonDeserialize(IOEnv.VERIF_TRACE)
NS == 1000000000

Add64(a, b) == Norm64(SubSeq(AddC(a, b, 128, 0), 1, 10))
One64 == <<1, 0, 0, 0, 0, 0, 0, 0, 0, 0>>
MinusOne64 == <<127, 127, 127, 127, 127, 127, 127, 127, 127, 1>>
\* signed overflow of a + b = s
Ovf(a, b, s) == IsNeg64(a) = IsNeg64(b) /\ IsNeg64(s) # IsNeg64(a)

\* exact sum: [s, n, ovf]
Exact(ts, tn, ds, dn) ==
    LET s0 == Add64(ts, ds)
        o0 == Ovf(ts, ds, s0)
        n0 == tn + dn
        adj == IF n0 >= NS THEN One64 ELSE IF n0 < 0 THEN MinusOne64 ELSE Zeros(10)
        n1 == IF n0 >= NS THEN n0 - NS ELSE IF n0 < 0 THEN n0 + NS ELSE n0
        s1 == Add64(s0, adj)
        o1 == Ovf(s0, adj, s1)
        \* the two partial overflows cancel when they go in opposite directions
        ovf == o0 # o1
    IN [s |-> s1, n |-> n1, ovf |-> ovf]

VARIABLE l
Step ==
    /\ l <= Len(Trace)
    /\ LET e == Trace[l]
           w == Exact(e.ts, e.tn, e.ds, e.dn)
           addOk == IF w.ovf THEN e.panic
                    ELSE ~e.panic /\ e.rs = w.s /\ e.rn = w.n /\ e.fresh
           stdOk == e.std => (~e.std_panic /\ e.std_s = w.s /\ e.std_n = w.n)
       IN IF addOk /\ stdOk THEN TRUE
          ELSE PrintT("VERDICT " \o ToJson([l |-> l, add |-> addOk, std |-> stdOk, ovf |-> w.ovf,
                                             norm |-> e.rn >= 0 /\ e.rn < NS, want_n |-> w.n]))
    /\ l' = l + 1
Init == l = 1
Spec == Init /\ [][Step]_l
AllConsumed == TLCGet("stats").diameter = Len(Trace) + 1 /\ PrintT("TRACE-DONE " \o ToString(Len(Trace)))
=============================================================================
