---- MODULE APA_Oneof ----
(* Unbounded-history proof (Apalache, inductive invariant) of the oneof discipline of the
   reflection machine (spec/Reflect.tla, C08): over ALL histories of Set / SetNew / Mutable /
   Clear / Reset on a message with 2 oneofs (3 and 2 members, one message-kind member each) and
   2 plain fields, every oneof holds at most one member, a Clear of a member that is not the one
   set changes nothing, and a write to one member leaves the other oneof alone.

   The state is the set of populated field numbers `pop` -- exactly the part of Codec's message
   value that the discipline talks about -- plus history variables for the two action properties.
   Reflect!ApplyAt is transcribed branch by branch for these operations (DropOthers, the default
   value rule for plain scalars, Clear of an unset oneof member).

   Inductive check:   apalache-mc check --init=IndInit --inv=IndInv --length=1
   (IndInit is the invariant itself as a state predicate), base case: --init=Init --length=0.
   Non-vacuity: with Dropped == FALSE (a Set that forgets to drop the other members) the same
   command must find a counterexample (inv=IndInvBroken uses NextBroken). *)
EXTENDS Integers, FiniteSets

Fields == 1..7
\* @type: Int => Int;
OneofOf(f) == IF f \in {1, 2, 3} THEN 1 ELSE IF f \in {4, 5} THEN 2 ELSE 0
\* message-kind fields
MsgKind == {3, 5, 7}
\* @type: Int => Set(Int);
Others(f) == IF OneofOf(f) = 0 THEN {} ELSE {g \in Fields : OneofOf(g) = OneofOf(f) /\ g # f}

VARIABLES
  \* @type: Set(Int);
  pop,
  \* @type: Set(Int);
  prev,
  \* @type: Str;
  lastOp,
  \* @type: Int;
  lastF,
  \* @type: Bool;
  lastDefault,
  \* @type: Bool;
  stepped

Init == pop = {} /\ prev = {} /\ lastOp = "init" /\ lastF = 0 /\ lastDefault = FALSE /\ stepped = FALSE

\* Set of a scalar: oneof members are populated even at the default value and replace the other
\* members; plain proto3 scalars are populated iff the value is not the default
SetScalar(f, isDefault) ==
  /\ f \notin MsgKind
  /\ pop' = IF OneofOf(f) # 0 THEN (pop \ Others(f)) \cup {f}
            ELSE IF isDefault THEN pop \ {f} ELSE pop \cup {f}
  /\ lastOp' = "Set" /\ lastF' = f /\ lastDefault' = isDefault
\* Set(fd, NewField(fd)) and Mutable(fd) of a message-kind field
SetNewOrMutable(f, name) ==
  /\ f \in MsgKind
  /\ pop' = (pop \ Others(f)) \cup {f}
  /\ lastOp' = name /\ lastF' = f /\ lastDefault' = FALSE
Clear(f) ==
  /\ pop' = pop \ {f}
  /\ lastOp' = "Clear" /\ lastF' = f /\ lastDefault' = FALSE
Reset ==
  /\ pop' = {}
  /\ lastOp' = "Reset" /\ lastF' = 0 /\ lastDefault' = FALSE

Next ==
  /\ prev' = pop /\ stepped' = TRUE
  /\ \/ \E f \in Fields : \E b \in BOOLEAN : SetScalar(f, b)
     \/ \E f \in Fields : SetNewOrMutable(f, "SetNew") \/ SetNewOrMutable(f, "Mutable")
     \/ \E f \in Fields : Clear(f)
     \/ Reset

\* ---- the properties ---------------------------------------------------------------------------
AtMostOne(S) == \A f \in S : \A g \in S : (OneofOf(f) # 0 /\ OneofOf(f) = OneofOf(g)) => f = g
Exclusive == AtMostOne(pop)
\* Clear of a member that is not the one set changes nothing
ClearOtherIsNoop == (lastOp = "Clear" /\ lastF \notin prev) => pop = prev
\* a write to a member of one oneof leaves every field outside that oneof (and outside itself) alone
Frame == (lastOp \in {"Set", "SetNew", "Mutable", "Clear"}) =>
            \A g \in Fields : (g # lastF /\ (OneofOf(lastF) = 0 \/ OneofOf(g) # OneofOf(lastF))) => ((g \in pop) <=> (g \in prev))
\* setting a member makes it THE member
SetWins == (lastOp \in {"SetNew", "Mutable"} \/ (lastOp = "Set" /\ OneofOf(lastF) # 0)) => lastF \in pop

TypeOK == stepped \in BOOLEAN /\ pop \subseteq Fields /\ prev \subseteq Fields /\ lastF \in 0..7
          /\ lastOp \in {"init", "Set", "SetNew", "Mutable", "Clear", "Reset"}
\* the inductive invariant: exclusivity of the current AND of the remembered previous state
\* (the action properties are then consequences of one step)
IndInv == TypeOK /\ Exclusive /\ AtMostOne(prev)
IndInit == /\ pop \in SUBSET Fields /\ prev \in SUBSET Fields /\ lastF \in 0..7 /\ lastDefault \in BOOLEAN
           /\ lastOp \in {"init", "Set", "SetNew", "Mutable", "Clear", "Reset"}
           /\ Exclusive /\ AtMostOne(prev) /\ stepped = FALSE
\* action properties: IndInv /\ Next => StepProps'  (checked on the state after one step from an
\* arbitrary state satisfying the invariant)
StepProps == stepped => (ClearOtherIsNoop /\ Frame /\ SetWins /\ Exclusive)

\* ---- non-vacuity: a Set that does not drop the other members ------------------------------------
SetScalarBroken(f) ==
  /\ f \notin MsgKind /\ OneofOf(f) # 0
  /\ pop' = pop \cup {f}
  /\ lastOp' = "Set" /\ lastF' = f /\ lastDefault' = FALSE
NextBroken == prev' = pop /\ stepped' = TRUE /\ \E f \in Fields : SetScalarBroken(f)
====
