-------------------------------- MODULE Codec -------------------------------
(***************************************************************************)
(* Protobuf (proto3) message values, the deterministic encoder, the size   *)
(* function, an implementation-shaped back-filling encoder, and the        *)
(* decoder as a record-at-a-time machine (DecRecord) with its functional   *)
(* closure (DecInto).                                                      *)
(*                                                                         *)
(* A schema S is a function  type name -> [fields: Seq(FieldDef), oneofs]  *)
(* FieldDef == [num, name, kind, card, packed, oo, msg, kk, vk, vmsg]      *)
(*   card \in {"one","rep","map","oneof"}; oo = 1-based oneof index or 0   *)
(*   kind/kk/vk \in the 17 protobuf kinds; msg/vmsg = message type name    *)
(*                                                                         *)
(* A message value is [f |-> (ToString(num) :> FieldVal ...), u |-> bytes] *)
(* holding only *populated* fields (proto3 presence).  Scalars are bit     *)
(* patterns (module Digits).  Lists are sequences, maps are functions      *)
(* key -> value, messages are nested values.                               *)
(***************************************************************************)
EXTENDS Wire, TLC, SequencesExt

VarintKinds  == {"int32", "int64", "uint32", "uint64", "sint32", "sint64", "bool", "enum"}
Fixed32Kinds == {"fixed32", "sfixed32", "float"}
Fixed64Kinds == {"fixed64", "sfixed64", "double"}
LenKinds     == {"string", "bytes"}
W32Kinds     == {"int32", "uint32", "sint32", "enum"}
W64Kinds     == {"int64", "uint64", "sint64"}
NumericKinds == VarintKinds \cup Fixed32Kinds \cup Fixed64Kinds

WireOf(kind) == CASE kind \in VarintKinds -> 0
                  [] kind \in Fixed64Kinds -> 1
                  [] kind \in Fixed32Kinds -> 5
                  [] OTHER -> 2

ZeroOf(kind) == CASE kind \in W32Kinds -> Zeros(5)
                  [] kind \in W64Kinds -> Zeros(10)
                  [] kind = "bool" -> <<0>>
                  [] kind \in Fixed32Kinds -> Zeros(4)
                  [] kind \in Fixed64Kinds -> Zeros(8)
                  [] OTHER -> <<>>

IsDefault(kind, x) == IF kind \in LenKinds THEN x = <<>> ELSE IsZero(x)

EmptyMsg == [f |-> <<>>, u |-> <<>>]

Key(fd) == ToString(fd.num)
HasF(v, fd) == Key(fd) \in DOMAIN v.f
GetF(v, fd) == v.f[Key(fd)]
Without(f, ks) == [k \in (DOMAIN f) \ ks |-> f[k]]
SetF(v, fd, x) == [v EXCEPT !.f = (Key(fd) :> x) @@ Without(v.f, {Key(fd)})]
ClearF(v, fd) == [v EXCEPT !.f = Without(v.f, {Key(fd)})]

FieldsOf(S, T) == S[T].fields
FieldByNum(S, T, num) ==
    LET idx == {i \in 1..Len(FieldsOf(S, T)) : FieldsOf(S, T)[i].num = num}
    IN IF idx = {} THEN [num |-> 0] ELSE FieldsOf(S, T)[CHOOSE i \in idx : TRUE]
OneofMembers(S, T, oo) == {FieldsOf(S, T)[i] : i \in {j \in 1..Len(FieldsOf(S, T)) : FieldsOf(S, T)[j].oo = oo}}

(***************************************************************************)
(* Scalar payload encoding / decoding                                      *)
(***************************************************************************)
VarintWord(kind, x) ==
    CASE kind \in {"int32", "enum"} -> SignExtend32(x)
      [] kind = "uint32" -> ZeroExtend32(x)
      [] kind = "sint32" -> ZeroExtend32(ZigZag32(x))
      [] kind = "sint64" -> ZigZag64(x)
      [] kind = "bool"   -> Pad(x, 10)
      [] OTHER -> x

EncScalar(kind, x) ==
    CASE kind \in VarintKinds -> Varint(VarintWord(kind, x))
      [] kind \in LenKinds -> LenPrefixed(x)
      [] OTHER -> x

SizeScalar(kind, x) ==
    CASE kind \in VarintKinds -> Sov(VarintWord(kind, x))
      [] kind \in Fixed32Kinds -> 4
      [] kind \in Fixed64Kinds -> 8
      [] OTHER -> Len(NatVarint(Len(x))) + Len(x)

\* from the raw content of a record of the right wire type
DecScalar(kind, val) ==
    CASE kind \in {"int32", "enum", "uint32"} -> Trunc32(val)
      [] kind = "sint32" -> UnZigZag32(Trunc32(val))
      [] kind \in {"int64", "uint64"} -> Norm64(val)
      [] kind = "sint64" -> UnZigZag64(Norm64(val))
      [] kind = "bool" -> IF IsZero(val) THEN <<0>> ELSE <<1>>
      [] OTHER -> val

KeyLess(kk, a, b) ==
    CASE kk \in {"int32", "sint32"} -> LessS(a, b, IsNeg32)
      [] kk \in {"int64", "sint64"} -> LessS(a, b, IsNeg64)
      [] kk \in {"sfixed32", "sfixed64"} -> LessS(a, b, IsNegBytes)
      [] kk = "string" -> LessLex(a, b)
      [] OTHER -> LessU(a, b)

SortedKeys(kk, m) == SetToSortSeq(DOMAIN m, LAMBDA a, b : KeyLess(kk, a, b))

RECURSIVE ConcatAll(_)
ConcatAll(ss) == IF ss = <<>> THEN <<>> ELSE ss[1] \o ConcatAll(Tail(ss))

RECURSIVE SumAll(_)
SumAll(ns) == IF ns = <<>> THEN 0 ELSE ns[1] + SumAll(Tail(ns))

(***************************************************************************)
(* Deterministic encoder: non-oneof fields by ascending number, oneof      *)
(* members by oneof declaration order, unknown bytes last.                 *)
(*                                                                         *)
(* The encoder takes an options record o == [det, ord, fwd]:               *)
(*   det  Deterministic flag; ord  the iteration order Go's map range      *)
(*   happens to produce ("asc"/"desc" stand for two different orders);     *)
(*   fwd  whether the flag is forwarded to nested marshals (TRUE in the    *)
(*   required behaviour; FALSE is the non-vacuity variant for C05).        *)
RECURSIVE EncMsgO(_, _, _, _)
RECURSIVE EncFieldO(_, _, _, _)

DetOpts == [det |-> TRUE, ord |-> "asc", fwd |-> TRUE]
Nested(o) == IF o.fwd THEN o ELSE [o EXCEPT !.det = FALSE]

RevSeq(s) == [i \in 1..Len(s) |-> s[Len(s) + 1 - i]]
IterKeys(kk, m, o) == IF o.det \/ o.ord = "asc" THEN SortedKeys(kk, m) ELSE RevSeq(SortedKeys(kk, m))

EncElemO(S, kind, msg, x, o) == IF kind = "message" THEN LenPrefixed(EncMsgO(S, msg, x, Nested(o))) ELSE EncScalar(kind, x)

EncMapEntryO(S, fd, k, x, o) ==
    RecBytes(fd.num, TagBytes(1, WireOf(fd.kk)) \o EncScalar(fd.kk, k)
                     \o TagBytes(2, WireOf(fd.vk)) \o EncElemO(S, fd.vk, fd.vmsg, x, o))

EncFieldO(S, fd, x, o) ==
    CASE fd.card \in {"one", "oneof"} ->
            TagBytes(fd.num, WireOf(fd.kind)) \o EncElemO(S, fd.kind, fd.msg, x, o)
      [] fd.card = "rep" ->
            IF fd.packed /\ fd.kind \in NumericKinds
            THEN IF x = <<>> THEN <<>>
                 ELSE RecBytes(fd.num, ConcatAll([i \in 1..Len(x) |-> EncScalar(fd.kind, x[i])]))
            ELSE ConcatAll([i \in 1..Len(x) |-> TagBytes(fd.num, WireOf(fd.kind)) \o EncElemO(S, fd.kind, fd.msg, x[i], o)])
      [] fd.card = "map" ->
            LET ks == IterKeys(fd.kk, x, o)
            IN ConcatAll([i \in 1..Len(ks) |-> EncMapEntryO(S, fd, ks[i], x[ks[i]], o)])

PlainFieldsAsc(S, T) ==
    SortSeq(SelectSeq(FieldsOf(S, T), LAMBDA fd : fd.oo = 0), LAMBDA a, b : a.num < b.num)

\* the populated member of oneof `oo` as a sequence of 0 or 1 field defs
OneofSet(S, T, v, oo) == SelectSeq(FieldsOf(S, T), LAMBDA fd : fd.oo = oo /\ HasF(v, fd))

EncMsgO(S, T, v, o) ==
    LET plain == PlainFieldsAsc(S, T)
        p1 == ConcatAll([i \in 1..Len(plain) |-> IF HasF(v, plain[i]) THEN EncFieldO(S, plain[i], GetF(v, plain[i]), o) ELSE <<>>])
        p2 == ConcatAll([oo \in 1..S[T].oneofs |->
                 LET mem == OneofSet(S, T, v, oo)
                 IN IF mem = <<>> THEN <<>> ELSE EncFieldO(S, mem[1], GetF(v, mem[1]), o)])
    IN p1 \o p2 \o v.u

EncMsg(S, T, v) == EncMsgO(S, T, v, DetOpts)
EncField(S, fd, x) == EncFieldO(S, fd, x, DetOpts)
EncElem(S, kind, msg, x) == EncElemO(S, kind, msg, x, DetOpts)
EncMapEntry(S, fd, k, x) == EncMapEntryO(S, fd, k, x, DetOpts)

(***************************************************************************)
(* Size, written independently of the encoder (shape of the size template):*)
(* SizeIsLen == SizeMsg = Len(EncMsg) is checked by TLC.                   *)
(***************************************************************************)
RECURSIVE SizeMsg(_, _, _)
RECURSIVE SizeField(_, _, _)

SizeElem(S, kind, msg, x) ==
    IF kind = "message" THEN LET l == SizeMsg(S, msg, x) IN l + Len(NatVarint(l)) ELSE SizeScalar(kind, x)

SizeField(S, fd, x) ==
    CASE fd.card \in {"one", "oneof"} -> TagSize(fd.num, WireOf(fd.kind)) + SizeElem(S, fd.kind, fd.msg, x)
      [] fd.card = "rep" ->
            IF fd.packed /\ fd.kind \in NumericKinds
            THEN IF x = <<>> THEN 0
                 ELSE LET l == SumAll([i \in 1..Len(x) |-> SizeScalar(fd.kind, x[i])])
                      IN TagSize(fd.num, 2) + Len(NatVarint(l)) + l
            ELSE SumAll([i \in 1..Len(x) |-> TagSize(fd.num, WireOf(fd.kind)) + SizeElem(S, fd.kind, fd.msg, x[i])])
      [] fd.card = "map" ->
            LET ks == SortedKeys(fd.kk, x)
            IN SumAll([i \in 1..Len(ks) |->
                   LET e == 1 + SizeScalar(fd.kk, ks[i]) + 1 + SizeElem(S, fd.vk, fd.vmsg, x[ks[i]])
                   IN TagSize(fd.num, 2) + Len(NatVarint(e)) + e])

SizeMsg(S, T, v) ==
    LET fs == FieldsOf(S, T)
    IN SumAll([i \in 1..Len(fs) |-> IF HasF(v, fs[i]) THEN SizeField(S, fs[i], GetF(v, fs[i])) ELSE 0]) + Len(v.u)

(***************************************************************************)
(* BackFill: the shape of the generated marshal method.  A buffer of       *)
(* SizeMsg bytes is filled from the end: unknown bytes first, then the     *)
(* oneofs in reverse declaration order, then the plain fields by           *)
(* descending number; repeated elements and sorted map keys are walked in  *)
(* reverse.  The write index must reach 0 and the result must equal EncMsg.*)
(***************************************************************************)
Rev(s) == [i \in 1..Len(s) |-> s[Len(s) + 1 - i]]

RECURSIVE PrependAll(_, _)
\* pieces are written in the order given, each in front of what is already there
PrependAll(pieces, buf) == IF pieces = <<>> THEN buf ELSE PrependAll(Tail(pieces), pieces[1] \o buf)

BackFillField(S, fd, x) ==
    \* elements in reverse order, each written in front
    CASE fd.card = "rep" /\ ~(fd.packed /\ fd.kind \in NumericKinds) ->
            PrependAll([i \in 1..Len(x) |-> TagBytes(fd.num, WireOf(fd.kind)) \o EncElem(S, fd.kind, fd.msg, Rev(x)[i])], <<>>)
      [] fd.card = "map" ->
            LET ks == Rev(SortedKeys(fd.kk, x))
            IN PrependAll([i \in 1..Len(ks) |-> EncMapEntry(S, fd, ks[i], x[ks[i]])], <<>>)
      [] OTHER -> EncField(S, fd, x)

BackFill(S, T, v) ==
    LET plainDesc == Rev(PlainFieldsAsc(S, T))
        oneofsRev == Rev([o \in 1..S[T].oneofs |-> o])
        afterU  == v.u
        afterOO == PrependAll([k \in 1..Len(oneofsRev) |->
                       LET mem == OneofSet(S, T, v, oneofsRev[k])
                       IN IF mem = <<>> THEN <<>> ELSE BackFillField(S, mem[1], GetF(v, mem[1]))], afterU)
    IN PrependAll([k \in 1..Len(plainDesc) |->
            IF HasF(v, plainDesc[k]) THEN BackFillField(S, plainDesc[k], GetF(v, plainDesc[k])) ELSE <<>>], afterOO)

(***************************************************************************)
(* The decoder machine.  DecRecord consumes one parsed record into the     *)
(* value under construction.  Results are [ok, val] / [ok |-> FALSE, err]. *)
(* opts == [discard |-> BOOLEAN, depth |-> Nat, dev |-> SUBSET DevNames]    *)
(*                                                                         *)
(* dev = {} is the REQUIRED behaviour.  The named deviations model what    *)
(* the implementation was observed to do where it departs from it; they    *)
(* exist only so that a mismatching trace event can be attributed to a     *)
(* precise, known finding (and to nothing else):                           *)
(*   "resetNested"     a second occurrence of a singular message field     *)
(*                     replaces the sub-message instead of merging         *)
(*   "replaceOneofMsg" a second occurrence of the same oneof message       *)
(*                     member replaces instead of merging                  *)
(***************************************************************************)
DevNames == {"resetNested", "replaceOneofMsg"}
Ok(v) == [ok |-> TRUE, val |-> v]
Bad(e) == [ok |-> FALSE, err |-> e]

RECURSIVE DecInto(_, _, _, _, _)
RECURSIVE DecFrom(_, _, _, _, _, _)
RECURSIVE DecRecord(_, _, _, _, _, _)
RECURSIVE DecPacked(_, _, _, _)
RECURSIVE DecEntry(_, _, _, _, _, _, _)

\* elements of a packed run b (from index i) appended to acc
DecPacked(kind, b, i, acc) ==
    IF i > Len(b) THEN Ok(acc)
    ELSE CASE kind \in VarintKinds ->
                LET vl == VarLenAt(b, i)
                IN IF vl = 0 \/ (vl = 10 /\ b[i + 9] > 1) THEN Bad("packed")
                   ELSE DecPacked(kind, b, i + vl, Append(acc, DecScalar(kind, VarDigitsAt(b, i, vl))))
           [] kind \in Fixed32Kinds ->
                IF i + 3 > Len(b) THEN Bad("packed") ELSE DecPacked(kind, b, i + 4, Append(acc, SubBytes(b, i, 4)))
           [] kind \in Fixed64Kinds ->
                IF i + 7 > Len(b) THEN Bad("packed") ELSE DecPacked(kind, b, i + 8, Append(acc, SubBytes(b, i, 8)))

\* map entry payload: fold inner records into (k, x)
DecEntry(S, fd, b, i, k, x, opts) ==
    IF i > Len(b) THEN [ok |-> TRUE, k |-> k, x |-> x]
    ELSE LET r == ParseAt(b, i, MaxGroupDepth)
         IN IF ~r.ok THEN Bad(r.err)
            ELSE IF r.wt = 4 THEN Bad("endgroup")
            ELSE IF r.num = 1 THEN
                    IF r.wt # WireOf(fd.kk) THEN Bad("wiretype")
                    ELSE DecEntry(S, fd, b, r.e, DecScalar(fd.kk, r.val), x, opts)
            ELSE IF r.num = 2 THEN
                    IF r.wt # WireOf(fd.vk) THEN Bad("wiretype")
                    ELSE IF fd.vk = "message"
                    THEN IF opts.depth = 0 THEN Bad("depth")
                         ELSE LET d == DecInto(S, fd.vmsg, r.val, x, [opts EXCEPT !.depth = @ - 1])
                              IN IF ~d.ok THEN d ELSE DecEntry(S, fd, b, r.e, k, d.val, opts)
                    ELSE DecEntry(S, fd, b, r.e, k, DecScalar(fd.vk, r.val), opts)
            ELSE DecEntry(S, fd, b, r.e, k, x, opts)   \* unknown inner record: skipped

DecRecord(S, T, v, r, raw, opts) ==
    LET fd == FieldByNum(S, T, r.num)
    IN IF fd.num = 0 THEN
            \* unknown field: kept verbatim in arrival order, or dropped
            Ok(IF opts.discard THEN v ELSE [v EXCEPT !.u = @ \o raw])
       ELSE CASE fd.card = "one" /\ fd.kind # "message" ->
                   IF r.wt # WireOf(fd.kind) THEN Bad("wiretype")
                   ELSE LET x == DecScalar(fd.kind, r.val)
                        IN Ok(IF IsDefault(fd.kind, x) THEN ClearF(v, fd) ELSE SetF(v, fd, x))
              [] fd.card = "one" /\ fd.kind = "message" ->
                   IF r.wt # 2 THEN Bad("wiretype")
                   ELSE IF opts.depth = 0 THEN Bad("depth")
                   ELSE LET d == DecInto(S, fd.msg, r.val,
                                         IF HasF(v, fd) /\ "resetNested" \notin opts.dev THEN GetF(v, fd) ELSE EmptyMsg,
                                         [opts EXCEPT !.depth = @ - 1])
                        IN IF ~d.ok THEN d ELSE Ok(SetF(v, fd, d.val))
              [] fd.card = "oneof" ->
                   IF r.wt # WireOf(fd.kind) THEN Bad("wiretype")
                   ELSE LET others == {Key(g) : g \in OneofMembers(S, T, fd.oo)} \ {Key(fd)}
                            v0 == [v EXCEPT !.f = Without(@, others)]
                        IN IF fd.kind # "message" THEN Ok(SetF(v0, fd, DecScalar(fd.kind, r.val)))
                           ELSE IF opts.depth = 0 THEN Bad("depth")
                           ELSE LET d == DecInto(S, fd.msg, r.val,
                                                 IF HasF(v0, fd) /\ "replaceOneofMsg" \notin opts.dev THEN GetF(v0, fd) ELSE EmptyMsg,
                                                 [opts EXCEPT !.depth = @ - 1])
                                IN IF ~d.ok THEN d ELSE Ok(SetF(v0, fd, d.val))
              [] fd.card = "rep" ->
                   LET cur == IF HasF(v, fd) THEN GetF(v, fd) ELSE <<>>
                   IN IF fd.kind = "message" THEN
                          IF r.wt # 2 THEN Bad("wiretype")
                          ELSE IF opts.depth = 0 THEN Bad("depth")
                          ELSE LET d == DecInto(S, fd.msg, r.val, EmptyMsg, [opts EXCEPT !.depth = @ - 1])
                               IN IF ~d.ok THEN d ELSE Ok(SetF(v, fd, Append(cur, d.val)))
                      ELSE IF r.wt = WireOf(fd.kind) THEN Ok(SetF(v, fd, Append(cur, DecScalar(fd.kind, r.val))))
                      ELSE IF r.wt = 2 /\ fd.kind \in NumericKinds THEN
                          LET d == DecPacked(fd.kind, r.val, 1, cur)
                          IN IF ~d.ok THEN d
                             ELSE Ok(IF d.val = <<>> THEN ClearF(v, fd) ELSE SetF(v, fd, d.val))
                      ELSE Bad("wiretype")
              [] fd.card = "map" ->
                   IF r.wt # 2 THEN Bad("wiretype")
                   ELSE LET cur == IF HasF(v, fd) THEN GetF(v, fd) ELSE <<>>
                            e == DecEntry(S, fd, r.val, 1, ZeroOf(fd.kk),
                                          IF fd.vk = "message" THEN EmptyMsg ELSE ZeroOf(fd.vk), opts)
                        IN IF ~e.ok THEN e
                           ELSE Ok(SetF(v, fd, (e.k :> e.x) @@ [kk \in (DOMAIN cur) \ {e.k} |-> cur[kk]]))

DecFrom(S, T, b, i, v, opts) ==
    IF i > Len(b) THEN Ok(v)
    ELSE LET r == ParseAt(b, i, MaxGroupDepth)
         IN IF ~r.ok THEN Bad(r.err)
            ELSE IF r.wt = 4 THEN Bad("endgroup")
            ELSE LET d == DecRecord(S, T, v, r, RawOf(b, r), opts)
                 IN IF ~d.ok THEN d ELSE DecFrom(S, T, b, r.e, d.val, opts)

\* decode b into (merge onto) v
DecInto(S, T, b, v, opts) == DecFrom(S, T, b, 1, v, opts)

DefaultOpts == [discard |-> FALSE, depth |-> 100, dev |-> {}]
Dec(S, T, b) == DecInto(S, T, b, EmptyMsg, DefaultOpts)

(***************************************************************************)
(* Value-level algorithms (proto.Merge / Reset / Equal on abstract values) *)
(***************************************************************************)
RECURSIVE MergeV(_, _, _, _)
MergeV(S, T, dst, src) ==
    LET fs == FieldsOf(S, T)
        RECURSIVE Go(_, _)
        Go(i, acc) ==
            IF i > Len(fs) THEN acc
            ELSE LET fd == fs[i]
                 IN IF ~HasF(src, fd) THEN Go(i + 1, acc)
                    ELSE LET x == GetF(src, fd)
                         IN CASE fd.card = "one" /\ fd.kind = "message" ->
                                   Go(i + 1, SetF(acc, fd, MergeV(S, fd.msg, IF HasF(acc, fd) THEN GetF(acc, fd) ELSE EmptyMsg, x)))
                              [] fd.card = "oneof" ->
                                   LET others == {Key(g) : g \in OneofMembers(S, T, fd.oo)} \ {Key(fd)}
                                       a0 == [acc EXCEPT !.f = Without(@, others)]
                                   IN IF fd.kind = "message"
                                      THEN Go(i + 1, SetF(a0, fd, MergeV(S, fd.msg, IF HasF(a0, fd) THEN GetF(a0, fd) ELSE EmptyMsg, x)))
                                      ELSE Go(i + 1, SetF(a0, fd, x))
                              [] fd.card = "rep" ->
                                   Go(i + 1, SetF(acc, fd, (IF HasF(acc, fd) THEN GetF(acc, fd) ELSE <<>>) \o x))
                              [] fd.card = "map" ->
                                   LET cur == IF HasF(acc, fd) THEN GetF(acc, fd) ELSE <<>>
                                   IN Go(i + 1, SetF(acc, fd, x @@ [k \in (DOMAIN cur) \ (DOMAIN x) |-> cur[k]]))
                              [] OTHER -> Go(i + 1, SetF(acc, fd, x))
    IN [Go(1, dst) EXCEPT !.u = @ \o src.u]

\* remove the unknown bytes at every nesting level
RECURSIVE Strip(_, _, _)
Strip(S, T, v) ==
    [f |-> [k \in DOMAIN v.f |->
              LET fs == FieldsOf(S, T)
                  fd == fs[CHOOSE i \in 1..Len(fs) : Key(fs[i]) = k]
                  x  == v.f[k]
              IN CASE fd.card \in {"one", "oneof"} /\ fd.kind = "message" -> Strip(S, fd.msg, x)
                   [] fd.card = "rep" /\ fd.kind = "message" -> [i \in 1..Len(x) |-> Strip(S, fd.msg, x[i])]
                   [] fd.card = "map" /\ fd.vk = "message" -> [kk \in DOMAIN x |-> Strip(S, fd.vmsg, x[kk])]
                   [] OTHER -> x],
     u |-> <<>>]

(***************************************************************************)
(* Normal form: what a projection of a real message always satisfies.      *)
(***************************************************************************)
RECURSIVE Normal(_, _, _)
Normal(S, T, v) ==
    /\ \A k \in DOMAIN v.f : \E i \in 1..Len(FieldsOf(S, T)) : Key(FieldsOf(S, T)[i]) = k
    /\ \A i \in 1..Len(FieldsOf(S, T)) :
         LET fd == FieldsOf(S, T)[i]
         IN HasF(v, fd) =>
            LET x == GetF(v, fd)
            IN CASE fd.card = "one" /\ fd.kind # "message" -> ~IsDefault(fd.kind, x)
                 [] fd.card = "one" -> Normal(S, fd.msg, x)
                 [] fd.card = "oneof" ->
                      /\ \A g \in OneofMembers(S, T, fd.oo) : HasF(v, g) => g.num = fd.num
                      /\ fd.kind = "message" => Normal(S, fd.msg, x)
                 [] fd.card = "rep" -> /\ x # <<>>
                                       /\ fd.kind = "message" => \A j \in 1..Len(x) : Normal(S, fd.msg, x[j])
                 [] fd.card = "map" -> /\ DOMAIN x # {}
                                       /\ fd.vk = "message" => \A k \in DOMAIN x : Normal(S, fd.vmsg, x[k])

=============================================================================
