SPECIFICATION Spec
POSTCONDITION AllConsumed
CHECK_DEADLOCK FALSE
