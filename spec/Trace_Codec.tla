----------------------------- MODULE Trace_Codec ----------------------------
(***************************************************************************)
(* Trace validation for the codec machine.  The state is the abstract      *)
(* value `msg` of the pulsar message object the harness is operating on    *)
(* and `rmsg`, the value of its dynamicpb twin (the reference              *)
(* implementation, run in lock-step).  Each recorded event -- one call of  *)
(* proto.Marshal / Size / MarshalAppend / Unmarshal / Reset -- must be a   *)
(* step of the specification for both objects.                             *)
(*                                                                         *)
(* The trace spec does not stop at a mismatch: it prints a verdict line    *)
(* and adopts the observed state, so the remainder of the trace is still   *)
(* checked (DESIGN 3.3).  A verdict with ref = FALSE means the spec and    *)
(* the reference disagree (a modelling error, never a violation).          *)
(* POSTCONDITION AllConsumed guards against a truncated validation.        *)
(***************************************************************************)
EXTENDS CodecJson, Json, IOUtils

S     == JsonDeserialize(IOEnv.VERIF_SCHEMA)
Trace == ndJsonDeserialize(IOEnv.VERIF_TRACE)

VARIABLES l, typ, msg, rmsg
vars == <<l, typ, msg, rmsg>>

DepthLimit == 10000
Opts(discard, dev) == [discard |-> discard, depth |-> DepthLimit, dev |-> dev]
\* e.limit = proto.UnmarshalOptions.RecursionLimit (0 = default); the root message itself uses up
\* one level, the decoder machine counts the levels below it
OptsE(e, dev) == [discard |-> e.discard, depth |-> IF e.limit > 0 THEN e.limit - 1 ELSE DepthLimit, dev |-> dev]

Verdict(e, impl, ref, sig) ==
    IF impl /\ ref THEN TRUE
    ELSE PrintT("VERDICT " \o ToJson([l |-> l, c |-> e.case, ev |-> e.ev, impl |-> impl, ref |-> ref, sig |-> sig]))

\* is b some encoding of v (non-deterministic mode)?
ValidEnc(T, b, v) ==
    LET d == DecInto(S, T, b, EmptyMsg, Opts(FALSE, {}))
    IN d.ok /\ d.val = v /\ Len(b) = SizeMsg(S, T, v)

IsEvent(name) == l <= Len(Trace) /\ Trace[l].ev = name

Load ==
    /\ IsEvent("load")
    /\ LET e == Trace[l]
           v == FromJ(S, e.t, e.v)
           st == FromJ(S, e.t, e.st)
           rst == FromJ(S, e.t, e.ref_st)
       IN /\ typ' = e.t
          /\ msg' = st
          /\ rmsg' = rst
          /\ Verdict(e, st = v /\ e.fast_eq /\ Normal(S, e.t, st), rst = v,
                     IF st # v THEN "load:state" ELSE IF ~e.fast_eq THEN "load:fastproj" ELSE "load:normal")
    /\ l' = l + 1

Reset ==
    /\ IsEvent("reset")
    /\ LET e == Trace[l]
           st == FromJ(S, typ, e.st)
           rst == FromJ(S, typ, e.ref_st)
       IN /\ msg' = st
          /\ rmsg' = rst
          /\ Verdict(e, e.ok /\ st = EmptyMsg /\ e.fast_eq, rst = EmptyMsg, "reset")
    /\ UNCHANGED typ
    /\ l' = l + 1

\* empty messages held in maps / lists / oneof wrappers replaced by nil pointers at Go level:
\* the abstract value must be unchanged
PlantNil ==
    /\ IsEvent("plantnil")
    /\ LET e == Trace[l]
           st == FromJ(S, typ, e.st)
       IN /\ Verdict(e, e.ok /\ st = msg /\ e.fast_eq, TRUE, IF ~e.ok THEN "plantnil:panic" ELSE "plantnil:nil-not-empty")
          /\ msg' = st
    /\ UNCHANGED <<typ, rmsg>>
    /\ l' = l + 1

Marshal ==
    /\ IsEvent("marshal")
    /\ LET e == Trace[l]
           \* out_direct: the fast-path method called directly with ONLY the Deterministic flag set
           impl == e.ok /\ (IF e.det THEN e.out = EncMsg(S, typ, msg) /\ e.out_direct = e.out ELSE ValidEnc(typ, e.out, msg))
           ref  == e.ref_ok /\ (IF e.det THEN e.ref_out = EncMsg(S, typ, rmsg) ELSE ValidEnc(typ, e.ref_out, rmsg))
       IN Verdict(e, impl, ref,
                  IF ~e.ok THEN "marshal:error"
                  ELSE IF Len(e.out) # SizeMsg(S, typ, msg) THEN "marshal:length"
                  ELSE IF e.det /\ e.out = EncMsg(S, typ, msg) /\ e.out_direct # e.out THEN "marshal:direct-flags" ELSE "marshal:bytes")
    /\ UNCHANGED <<typ, msg, rmsg>>
    /\ l' = l + 1

\* marshal, then decode the produced bytes into a fresh message of the same type: the fresh
\* message (logged as st) must equal msg; the twin decodes the same bytes (logged as ref_st)
Roundtrip ==
    /\ IsEvent("roundtrip")
    /\ LET e == Trace[l]
           encOk == e.ok /\ (IF e.det THEN e.out = EncMsg(S, typ, msg) ELSE ValidEnc(typ, e.out, msg))
           st == FromJ(S, typ, e.st)
       IN Verdict(e, encOk /\ st = msg, e.ok => (e.ref_ok /\ FromJ(S, typ, e.ref_st) = st),
                  IF ~e.ok THEN "roundtrip:error"
                  ELSE IF ~encOk THEN "roundtrip:bytes" ELSE "roundtrip:state")
    /\ UNCHANGED <<typ, msg, rmsg>>
    /\ l' = l + 1

\* C05: every deterministic marshal of every history of the same value gives the same bytes
DetN ==
    /\ IsEvent("detn")
    /\ LET e == Trace[l]
           want == EncMsg(S, typ, msg)
       IN Verdict(e, e.ok /\ Len(e.outs) = 1 /\ \A i \in 1..Len(e.outs) : e.outs[i] = want,
                  e.ref_out = EncMsg(S, typ, rmsg),
                  IF ~e.ok THEN "detn:error" ELSE IF Len(e.outs) # 1 THEN "detn:unstable" ELSE "detn:bytes")
    /\ UNCHANGED <<typ, msg, rmsg>>
    /\ l' = l + 1

\* C07 (Mem.tla: InputNotAliased): decode `in` into a fresh message, overwrite the caller's buffer;
\* the value and the bytes observed before and after the overwrite must both be Dec(in)
AliasIn ==
    /\ IsEvent("alias_in")
    /\ LET e == Trace[l]
           exp == DecInto(S, typ, e.in, EmptyMsg, Opts(FALSE, {}))
       IN Verdict(e, exp.ok => (e.ok /\ FromJ(S, typ, e.st_before) = exp.val /\ FromJ(S, typ, e.st) = exp.val
                                /\ e.out_before = EncMsg(S, typ, exp.val) /\ e.out = e.out_before), TRUE,
                  IF ~e.ok THEN "alias_in:error"
                  ELSE IF FromJ(S, typ, e.st_before) # exp.val THEN "alias_in:decode" ELSE "alias_in:input-aliased")
    /\ UNCHANGED <<typ, msg, rmsg>>
    /\ l' = l + 1

\* C07 (Mem.tla: OutputNotAliased)
AliasOut ==
    /\ IsEvent("alias_out")
    /\ LET e == Trace[l]
       IN Verdict(e, e.ok /\ e.out = e.out_before /\ (e.det => e.out = EncMsg(S, typ, msg)), TRUE,
                  IF e.out # e.out_before \/ ~e.ok THEN "alias_out:output-aliased" ELSE "alias_out:bytes")
    /\ UNCHANGED <<typ, msg, rmsg>>
    /\ l' = l + 1

\* C07 (Mem.tla: ReadOnly leaves every buffer unchanged)
ReadOnlyEv ==
    /\ IsEvent("readonly")
    /\ LET e == Trace[l]
       IN Verdict(e, e.ro_changed = <<>> /\ e.ro_calls > 0, TRUE, "readonly:struct-changed")
    /\ UNCHANGED <<typ, msg, rmsg>>
    /\ l' = l + 1

\* C10: proto.Equal / Clone / CheckInitialized / JSON / text on the current value, then
\* proto.Merge(current, other): the state becomes Codec!MergeV(msg, other)
Lib ==
    /\ IsEvent("lib")
    /\ LET e == Trace[l]
           other == FromJ(S, typ, e.v)
           st == FromJ(S, typ, e.st)
           rst == FromJ(S, typ, e.ref_st)
           impl == /\ e.ok /\ e.equal_self /\ e.clone_ok /\ e.init_ok /\ e.json_ok /\ e.text_ok /\ e.fast_eq
                   /\ (msg = other => e.equal) /\ (e.equal = e.ref_equal)
                   /\ st = (IF e.ro THEN msg ELSE MergeV(S, typ, msg, other))
           ref == rst = (IF e.ro THEN rmsg ELSE MergeV(S, typ, rmsg, other)) /\ (rmsg = other => e.ref_equal)
       IN /\ msg' = st
          /\ rmsg' = rst
          /\ Verdict(e, impl, ref,
                     IF ~e.ok THEN "lib:panic"
                     ELSE IF ~e.equal_self \/ e.equal # e.ref_equal \/ (msg = other /\ ~e.equal) THEN "lib:equal"
                     ELSE IF ~e.clone_ok THEN "lib:clone"
                     ELSE IF ~e.json_ok THEN "lib:json"
                     ELSE IF ~e.text_ok THEN "lib:text"
                     ELSE IF ~e.init_ok THEN "lib:checkinitialized"
                     ELSE IF st # (IF e.ro THEN msg ELSE MergeV(S, typ, msg, other)) THEN "lib:merge" ELSE "lib:fastproj")
    /\ UNCHANGED typ
    /\ l' = l + 1

Size ==
    /\ IsEvent("size")
    /\ LET e == Trace[l]
           n == SizeMsg(S, typ, msg)
       IN Verdict(e, e.ok /\ e.n = n /\ e.n_direct = n, e.ref_n = SizeMsg(S, typ, rmsg),
                  IF ~e.ok THEN "size:panic" ELSE "size:value")
    /\ UNCHANGED <<typ, msg, rmsg>>
    /\ l' = l + 1

AppendEv ==
    /\ IsEvent("append")
    /\ LET e == Trace[l]
           pl == Len(e.prefix)
           okShape(out, v) == /\ Len(out) >= pl
                              /\ SubSeq(out, 1, pl) = e.prefix
                              /\ LET rest == SubSeq(out, pl + 1, Len(out))
                                 IN IF e.det THEN rest = EncMsg(S, typ, v) ELSE ValidEnc(typ, rest, v)
           \* out_nil: MarshalAppend(prefix, typed nil pointer) -- a nil message encodes as the empty one
       IN Verdict(e, e.ok /\ okShape(e.out, msg) /\ e.out_nil = e.prefix \o EncMsg(S, typ, EmptyMsg), e.ref_ok /\ okShape(e.ref_out, rmsg),
                  IF ~e.ok THEN "append:error"
                  ELSE IF Len(e.out) < pl \/ SubSeq(e.out, 1, pl) # e.prefix THEN "append:prefix"
                  ELSE IF e.out_nil # e.prefix THEN "append:nil-receiver" ELSE "append:bytes")
    /\ UNCHANGED <<typ, msg, rmsg>>
    /\ l' = l + 1

\* attribute a wrong decode result to a named deviation of Codec!DecRecord, if any explains it
Diagnose(e, st) ==
    LET cands == {D \in SUBSET DevNames : D # {} /\
                    LET d == DecInto(S, typ, e.in, IF e.merge THEN msg ELSE EmptyMsg, OptsE(e, D))
                    IN d.ok /\ d.val = st}
    IN IF ~e.ok THEN "unmarshal:error"
       ELSE IF ~e.fast_eq THEN "unmarshal:fastproj"
       ELSE IF {"resetNested"} \in cands THEN "dev:resetNested"
       ELSE IF {"replaceOneofMsg"} \in cands THEN "dev:replaceOneofMsg"
       ELSE IF cands # {} THEN "dev:resetNested+replaceOneofMsg"
       ELSE "unmarshal:state"

Unmarshal ==
    /\ IsEvent("unmarshal")
    /\ LET e == Trace[l]
           exp  == DecInto(S, typ, e.in, IF e.merge THEN msg ELSE EmptyMsg, OptsE(e, {}))
           rexp == DecInto(S, typ, e.in, IF e.merge THEN rmsg ELSE EmptyMsg, OptsE(e, {}))
           st == FromJ(S, typ, e.st)
           rst == FromJ(S, typ, e.ref_st)
           impl == exp.ok => (e.ok /\ st = exp.val /\ e.fast_eq)
           ref  == rexp.ok => (e.ref_ok /\ rst = rexp.val)
       IN /\ msg' = st
          /\ rmsg' = rst
          /\ (exp.ok => TLCSet(1, TLCGet(1) + 1))
          /\ Verdict(e, impl, ref, IF impl THEN "ref" ELSE Diagnose(e, st))
    /\ UNCHANGED typ
    /\ l' = l + 1

Init == l = 1 /\ typ = "" /\ msg = EmptyMsg /\ rmsg = EmptyMsg /\ TLCSet(1, 0)
Next == Load \/ Reset \/ PlantNil \/ Marshal \/ Roundtrip \/ DetN \/ AliasIn \/ AliasOut \/ ReadOnlyEv \/ Lib \/ Size \/ AppendEv \/ Unmarshal
Spec == Init /\ [][Next]_vars

AllConsumed ==
    /\ TLCGet("stats").diameter = Len(Trace) + 1
    /\ PrintT("TRACE-DONE " \o ToString(Len(Trace)) \o " welltyped-unmarshals " \o ToString(TLCGet(1)))
=============================================================================
