SPECIFICATION Spec
VIEW View
INVARIANT SovFormula
INVARIANT SozFormula
INVARIANT VarintRoundTrip
INVARIANT ZigZagRoundTrip
INVARIANT ZigZag32RoundTrip
INVARIANT SignExt
INVARIANT EncodeFrame
INVARIANT ExportInv
CHECK_DEADLOCK FALSE
