--------------------------------- MODULE Mem --------------------------------
(***************************************************************************)
(* Buffers with identities (C07).  A message does not hold values but      *)
(* REFERENCES to buffers; its abstract value is read through them.         *)
(* Caller-visible buffers: the Unmarshal input and the Marshal output.     *)
(*                                                                         *)
(*   Unmarshal(in)  the message refers to fresh buffers holding copies of  *)
(*                  the input's content (ALIAS variant: to `in` itself)    *)
(*   Marshal        returns a fresh buffer with the encoding (ALIAS        *)
(*                  variant: a buffer the message refers to)               *)
(*   Scribble(b)    the caller overwrites a buffer it owns                 *)
(*   MutateMsg      the message's own buffers are overwritten in place     *)
(*   ReadOnly       Size/Marshal/Equal/Range/Get: no buffer changes        *)
(*                                                                         *)
(* Invariants: the value observed right after Unmarshal is still observed  *)
(* after any caller Scribble; an output returned by Marshal still has the  *)
(* content it had when returned after any MutateMsg.                       *)
(* ALIAS = TRUE must violate them (non-vacuity, `verif selftest`).         *)
(***************************************************************************)
EXTENDS Naturals, Sequences, FiniteSets, TLC, IOUtils

ALIAS == IF "VERIF_ALIAS" \in DOMAIN IOEnv THEN IOEnv.VERIF_ALIAS = "1" ELSE FALSE
MaxSteps == 4
Contents == {"orig", "scribbled", "mutated"}

VARIABLES content,   \* buffer id -> content
          msgRefs,   \* set of buffer ids the message reads its value through
          input,     \* id of the caller's input buffer (0 = none yet)
          outs,      \* buffer ids returned by Marshal -> content at the time of return
          decoded,   \* [known, v]: the value observed right after Unmarshal, while still expected
          steps
vars == <<content, msgRefs, input, outs, decoded, steps>>

Fresh == Cardinality(DOMAIN content) + 1
ValueOf(refs) == {content[b] : b \in refs}

Init == content = <<>> /\ msgRefs = {} /\ input = 0 /\ outs = <<>> /\ decoded = [known |-> FALSE, v |-> {}] /\ steps = 0

Unmarshal ==
    /\ input = 0
    /\ LET in == Fresh
           copy == Fresh + 1
       IN /\ content' = IF ALIAS THEN content @@ (in :> "orig") ELSE content @@ (in :> "orig") @@ (copy :> "orig")
          /\ msgRefs' = IF ALIAS THEN {in} ELSE {copy}
          /\ input' = in
          /\ decoded' = [known |-> TRUE, v |-> {"orig"}]
    /\ UNCHANGED outs

Marshal ==
    /\ msgRefs # {}
    /\ LET o == IF ALIAS THEN CHOOSE b \in msgRefs : TRUE ELSE Fresh
       IN /\ content' = IF ALIAS THEN content ELSE content @@ (o :> "orig")
          /\ outs' = (o :> (IF ALIAS THEN content[o] ELSE "orig")) @@ outs
    /\ UNCHANGED <<msgRefs, input, decoded>>

Scribble ==
    /\ input # 0
    /\ content' = [content EXCEPT ![input] = "scribbled"]
    /\ UNCHANGED <<msgRefs, input, outs, decoded>>

MutateMsg ==
    /\ msgRefs # {}
    /\ content' = [b \in DOMAIN content |-> IF b \in msgRefs THEN "mutated" ELSE content[b]]
    \* the message was changed on purpose: what it decoded to is no longer expected
    /\ decoded' = [known |-> FALSE, v |-> {}]
    /\ UNCHANGED <<msgRefs, input, outs>>

ReadOnly == UNCHANGED <<content, msgRefs, input, outs, decoded>>

Next == /\ steps < MaxSteps
        /\ steps' = steps + 1
        /\ (Unmarshal \/ Marshal \/ Scribble \/ MutateMsg \/ ReadOnly)
Spec == Init /\ [][Next]_vars

\* overwriting the input afterwards leaves the message unchanged
InputNotAliased == decoded.known => ValueOf(msgRefs) = decoded.v
\* bytes returned by Marshal share no memory with the message
OutputNotAliased == \A o \in DOMAIN outs : content[o] = outs[o]
=============================================================================
