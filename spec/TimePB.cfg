SPECIFICATION Spec
INVARIANT ExactOnValid
INVARIANT OverflowPanics
INVARIANT CompareChrono
INVARIANT ExportInv
CHECK_DEADLOCK FALSE
