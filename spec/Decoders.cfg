SPECIFICATION Spec
INVARIANT NoSharedState
INVARIANT NoCrash
INVARIANT ResultsSequential
CHECK_DEADLOCK FALSE
