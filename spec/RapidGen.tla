------------------------------- MODULE RapidGen -----------------------------
(***************************************************************************)
(* rapidproto.MessageGenerator as a recursive-descent machine (C18).       *)
(*                                                                         *)
(* Model: a recursive message type R { enum e; R child; repeated R kids;   *)
(* repeated int32 nums } generated top-down with a nesting limit L.  Every *)
(* draw is a nondeterministic choice: whether an optional message field is *)
(* set, list lengths (0..MaxList), the enum draw.  TLC explores ALL draw    *)
(* sequences and checks                                                    *)
(*   Terminates     the work list empties; no node is deeper than L + 1    *)
(*   WellFormed     every produced node obeys the output rules below       *)
(* EnumByIndex = TRUE is the behaviour of the pinned revision (it drew an  *)
(* INDEX into the value list and used it as the NUMBER): WellFormed must   *)
(* then fail for an enum whose numbers are not 0..n-1 (non-vacuity).       *)
(*                                                                         *)
(* NodeOK(node, opts) is also the predicate applied to the facts recorded  *)
(* from real generator outputs (Trace_RapidGen).                           *)
(***************************************************************************)
EXTENDS Naturals, Sequences, FiniteSets, TLC, IOUtils

Limit == IF "VERIF_LIMIT" \in DOMAIN IOEnv THEN atoi(IOEnv.VERIF_LIMIT) ELSE 10

\* facts of one generated message node: depth and counts of rule breaches observed in it
\* [depth, enumBad, emptyLists, emptyScalarLists, nilMsgs, badUtf8, unmapped, tsBad, durBad, anyBad, maskBad]
NodeOK(n, o) ==
    /\ n.enumBad = 0            \* enum fields hold declared numbers
    /\ n.badUtf8 = 0            \* strings are valid UTF-8
    /\ n.tsBad = 0 /\ n.durBad = 0   \* Timestamp / Duration valid
    /\ n.anyBad = 0  \* Any (when type URLs are configured): resolvable URL, value decodes as that type
    /\ n.maskBad = 0            \* FieldMask carries the drawn paths (1..5, well-formed)
    /\ (o.mapped => n.unmapped = 0)                          \* field mappers honoured
    /\ ((o.noempty /\ n.depth < Limit) => n.emptyLists = 0)
    /\ ((o.noempty /\ n.depth <= Limit) => n.emptyScalarLists = 0)  \* NoEmptyLists within the nesting limit
    /\ ((o.nonil /\ n.depth < Limit) => n.nilMsgs = 0)       \* DisallowNilMessages within the limit

(***************************************************************************)
(* The generation machine at small scale                                   *)
(***************************************************************************)
L == 2
MaxList == 2
EnumNumbers == {0, 4, 5}      \* declared numbers of the model's enum (not 0..n-1 on purpose)
EnumByIndex == IF "VERIF_ENUMIDX" \in DOMAIN IOEnv THEN IOEnv.VERIF_ENUMIDX = "1" ELSE FALSE
NoEmpty == IF "VERIF_NOEMPTY" \in DOMAIN IOEnv THEN IOEnv.VERIF_NOEMPTY = "1" ELSE TRUE
NoNil   == IF "VERIF_NONIL" \in DOMAIN IOEnv THEN IOEnv.VERIF_NONIL = "1" ELSE FALSE

VARIABLES work,   \* sequence of depths of message nodes still to be generated
          done,   \* set of generated nodes (facts)
          maxDepth
vars == <<work, done, maxDepth>>

Init == work = <<0>> /\ done = {} /\ maxDepth = 0

\* generate the node at the head of the work list: draw its fields
Gen ==
    /\ work # <<>>
    /\ LET d == Head(work) IN
       IF d > L
       THEN \* setFields refuses: the parent clears the field / truncates the list
            /\ work' = Tail(work) /\ UNCHANGED <<done, maxDepth>>
       ELSE \E childSet \in (IF NoNil THEN {TRUE} ELSE BOOLEAN),
               nKids \in (IF NoEmpty THEN 1..MaxList ELSE 0..MaxList),
               nNums \in (IF NoEmpty THEN 1..MaxList ELSE 0..MaxList),
               enumDraw \in 0..(Cardinality(EnumNumbers) - 1) :
            LET enumVal == IF EnumByIndex THEN enumDraw
                           ELSE CHOOSE x \in EnumNumbers : Cardinality({y \in EnumNumbers : y < x}) = enumDraw
                \* children at depth d+1 only materialise if d+1 <= L
                kidsKept == IF d + 1 > L THEN 0 ELSE nKids
                childKept == childSet /\ d + 1 <= L
                node == [depth |-> d, enumBad |-> IF enumVal \in EnumNumbers THEN 0 ELSE 1,
                         emptyLists |-> IF kidsKept = 0 THEN 1 ELSE 0, emptyScalarLists |-> IF nNums = 0 THEN 1 ELSE 0,
                         nilMsgs |-> IF childKept THEN 0 ELSE 1,
                         badUtf8 |-> 0, unmapped |-> 0, tsBad |-> 0, durBad |-> 0, anyBad |-> 0, maskBad |-> 0]
            IN /\ done' = done \cup {node}
               /\ maxDepth' = IF d > maxDepth THEN d ELSE maxDepth
               /\ work' = Tail(work) \o (IF childSet THEN <<d + 1>> ELSE <<>>) \o [i \in 1..nKids |-> d + 1]

Next == Gen
Spec == Init /\ [][Next]_vars /\ WF_vars(Next)

Opts == [noempty |-> NoEmpty, nonil |-> NoNil, mapped |-> FALSE, any |-> FALSE]
ModelNodeOK(n) == NodeOK([n EXCEPT !.depth = n.depth + (Limit - L)], Opts)   \* shift: the model's limit L plays the role of Limit
WellFormed == \A n \in done : ModelNodeOK(n)
DepthBounded == maxDepth <= L /\ \A i \in 1..Len(work) : work[i] <= L + 1
Terminates == <>(work = <<>>)
View == <<work, done>>
=============================================================================
