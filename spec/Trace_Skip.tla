----------------------------- MODULE Trace_Skip -----------------------------
(***************************************************************************)
(* Record-length sweep for runtime.Skip (C15) and for the storage of       *)
(* unknown records (C14): well-formed records described by (field number,  *)
(* wire type, payload length / varint width) far outside the byte alphabet *)
(* of MC_Parse -- every payload length 0..1100 and the lengths around the  *)
(* 2- and 3-byte length-prefix boundaries, tags of every width, varint     *)
(* values of every width including padded (non-minimal) encodings, padded  *)
(* tags, each                                                              *)
(* followed by trailing bytes that must not be consumed.                   *)
(*                                                                         *)
(* The harness builds the bytes from the description, calls Skip and       *)
(* decodes them into a message type that declares no such field; this      *)
(* module derives the expected record length from the description alone    *)
(* (Wire!TagBytes, Digits!Varint).                                         *)
(***************************************************************************)
EXTENDS Wire, TLC, Json, IOUtils
Trace == ndJsonDeserialize(IOEnv.VERIF_TRACE)
VARIABLE l
\* protowire.ConsumeField: a budget of 10000 levels below the outermost record
GroupDepthLimit == 10001

\* body length of the described record; e.nd = payload length as base-128 digits (wire type 2),
\* e.d = varint value digits and e.vlen its encoded width (wire type 0)
BodyLen(e) ==
    CASE e.wt = 0 -> e.vlen
      [] e.wt = 1 -> 8
      [] e.wt = 5 -> 4
      [] e.wt = 2 -> Len(Varint(e.nd)) + e.n
      \* a group: e.n start tags (this one included), e.vlen two-byte records, e.n end tags
      [] e.wt = 3 -> (2 * e.n - 1) * TagSize(e.num, 3) + 2 * e.vlen
WellDescribed(e) ==
    /\ e.num >= 1 /\ e.num <= 536870911
    /\ e.tpad >= 0 /\ TagSize(e.num, e.wt) + e.tpad <= 10
    /\ (e.wt = 0 => e.vlen >= Len(Varint(e.d)) /\ e.vlen <= 10)
    /\ (e.wt = 3 => e.n >= 1 /\ e.vlen >= 0)
    /\ (e.wt = 2 => DigitsToNat(e.nd) = e.n)
\* e.tpad: extra continuation groups in the TAG varint (a non-minimal but valid encoding)
RecLen(e) == TagSize(e.num, e.wt) + e.tpad + BodyLen(e)

Step ==
    /\ l <= Len(Trace)
    /\ LET e == Trace[l]
           want == RecLen(e)
           \* groups nested deeper than the reference budget: Skip may refuse or skip them
           \* (decoding must then agree with the reference: e.unk_ok)
           deep == e.wt = 3 /\ e.n > GroupDepthLimit
           skipOK == /\ e.panic = "" /\ e.reclen = want
                     /\ IF deep THEN e.err \/ e.got = want ELSE ~e.err /\ e.got = want
           \* decoded into a type without that field: the record is stored byte for byte, alone and
           \* before a second record, and re-emitted unchanged
           unkOK == e.unk_ok
       IN IF ~WellDescribed(e) THEN PrintT("VERDICT " \o ToJson([l |-> l, what |-> "INTERNAL bad description", want |-> want]))
          ELSE IF skipOK /\ unkOK THEN TRUE
          ELSE PrintT("VERDICT " \o ToJson([l |-> l, what |-> IF ~skipOK THEN "skip" ELSE "unknown", want |-> want]))
    /\ l' = l + 1
Init == l = 1
Spec == Init /\ [][Step]_l
AllConsumed == TLCGet("stats").diameter = Len(Trace) + 1 /\ PrintT("TRACE-DONE " \o ToString(Len(Trace)))
=============================================================================
