SPECIFICATION Spec
INVARIANT InputNotAliased
INVARIANT OutputNotAliased
CHECK_DEADLOCK FALSE
