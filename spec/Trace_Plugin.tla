----------------------------- MODULE Trace_Plugin ---------------------------
(***************************************************************************)
(* Trace validation of recorded plugin runs (fresh processes, varied       *)
(* environments) against Plugin.tla:                                       *)
(*  - the response class and the set of emitted files are those of the     *)
(*    model (C12);                                                         *)
(*  - the bytes of a file (their hash) are a function of the model's       *)
(*    content key only: equal across repeated runs, across subsets and     *)
(*    permutations of files_to_generate, across environments (C13);        *)
(*  - output names are a function of the model's name key;                 *)
(*  - nothing environment-dependent appears in the content;                *)
(*  - an error answer is the same text for the same request.               *)
(* State: the hash / name first seen for each key.                         *)
(***************************************************************************)
EXTENDS PluginModel
Trace == ndJsonDeserialize(IOEnv.VERIF_TRACE)

VARIABLES l, seenSha, seenName, seenErr
tvars == <<l, seenSha, seenName, seenErr>>

Rng(s) == {s[i] : i \in 1..Len(s)}

Step ==
    /\ l <= Len(Trace)
    /\ LET e == Trace[l]
           want == Outcome(e.fp, e.pp, e.mp, e.flag, e.gen, 1)
           obsFiles == {e.out[i].file : i \in 1..Len(e.out)}
           classOk == e.obs = want.kind /\ obsFiles = {x.file : x \in want.files} /\ Len(e.out) = Cardinality(obsFiles)
           keyOf(f) == (CHOOSE x \in want.files : x.file = f).key
           nameOf(f) == (CHOOSE x \in want.files : x.file = f).name
           shaOk == classOk => \A i \in 1..Len(e.out) :
                        LET k == keyOf(e.out[i].file) IN k \in DOMAIN seenSha => seenSha[k] = e.out[i].sha
           nameOk == classOk => \A i \in 1..Len(e.out) :
                        LET k == nameOf(e.out[i].file) IN k \in DOMAIN seenName => seenName[k] = e.out[i].name
           hermOk == e.hermetic = <<>>
           \* the response is a function of the request also when it is an error message
           req == <<e.fp, e.pp, e.mp, e.flag, e.gen>>
           errOk == (e.obs = "error" /\ req \in DOMAIN seenErr) => seenErr[req] = e.errsha
       IN /\ (IF classOk /\ shaOk /\ nameOk /\ hermOk /\ errOk THEN TRUE
              ELSE PrintT("VERDICT " \o ToJson([l |-> l, class |-> classOk, sha |-> shaOk /\ errOk, name |-> nameOk, hermetic |-> hermOk])))
          /\ seenErr' = IF e.obs = "error" /\ req \notin DOMAIN seenErr THEN (req :> e.errsha) @@ seenErr ELSE seenErr
          /\ seenSha' = IF classOk
                        THEN [k \in DOMAIN seenSha \cup {keyOf(e.out[i].file) : i \in 1..Len(e.out)} |->
                                 IF k \in DOMAIN seenSha THEN seenSha[k]
                                 ELSE e.out[CHOOSE i \in 1..Len(e.out) : keyOf(e.out[i].file) = k].sha]
                        ELSE seenSha
          /\ seenName' = IF classOk
                         THEN [k \in DOMAIN seenName \cup {nameOf(e.out[i].file) : i \in 1..Len(e.out)} |->
                                  IF k \in DOMAIN seenName THEN seenName[k]
                                  ELSE e.out[CHOOSE i \in 1..Len(e.out) : nameOf(e.out[i].file) = k].name]
                         ELSE seenName
    /\ l' = l + 1

TInit == l = 1 /\ seenSha = <<>> /\ seenName = <<>> /\ seenErr = <<>>
TSpec == TInit /\ [][Step]_tvars
AllConsumed == TLCGet("stats").diameter = Len(Trace) + 1 /\ PrintT("TRACE-DONE " \o ToString(Len(Trace)))
=============================================================================
