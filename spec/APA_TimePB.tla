---- MODULE APA_TimePB ----
(* timepb.Add at TRUE scale with unbounded integers (Apalache): seconds are int64 with
   wrap-around, nanos as in valid Timestamps / Durations.  ExactOnValid: for every valid
   Timestamp and valid Duration the algorithm of the code returns the exact, normalised sum.
   OverflowPanics: for arbitrary int64 seconds, a sum whose seconds do not fit panics and any
   other sum is exact.  PinnedBorrow is the borrow rule of the pinned revision (<= -1s); checking
   ExactOnValidPinned must yield a counterexample (non-vacuity). *)
EXTENDS Integers
VARIABLES
  \* @type: Int;
  ts,
  \* @type: Int;
  tn,
  \* @type: Int;
  ds,
  \* @type: Int;
  dn
NS == 1000000000
SMIN == -9223372036854775808
SMAX == 9223372036854775807
TMIN == -62135596800
TMAX == 253402300799
DMAX == 315576000000
\* @type: Int => Int;
Wrap(x) == ((x - SMIN) % 18446744073709551616) + SMIN
\* @type: (Int, Int, Int, Int) => Int;
Compare(s1, n1, s2, n2) == IF s1 = s2 /\ n1 = n2 THEN 0 ELSE IF s1 < s2 \/ (s1 = s2 /\ n1 < n2) THEN -1 ELSE 1
Init == /\ ts \in Int /\ tn \in Int /\ ds \in Int /\ dn \in Int
        /\ ts >= SMIN /\ ts <= SMAX /\ ds >= SMIN /\ ds <= SMAX
        /\ tn >= 0 /\ tn < NS /\ dn > -NS /\ dn < NS
        /\ (ds > 0 => dn >= 0) /\ (ds < 0 => dn <= 0)
Next == UNCHANGED <<ts, tn, ds, dn>>
Valid == ts >= TMIN /\ ts <= TMAX /\ ds >= -DMAX /\ ds <= DMAX
Total == (ts * NS + tn) + (ds * NS + dn)
WantS == Total \div NS
WantN == Total % NS
S0 == Wrap(ts + ds)
N0 == tn + dn
\* @type: Bool => Int;
S1(pinned) == IF N0 >= NS THEN Wrap(S0 + 1) ELSE IF (IF pinned THEN N0 <= -NS ELSE N0 < 0) THEN Wrap(S0 - 1) ELSE S0
\* @type: Bool => Int;
N1(pinned) == IF N0 >= NS THEN N0 - NS ELSE IF (IF pinned THEN N0 <= -NS ELSE N0 < 0) THEN N0 + NS ELSE N0
Neg == ds < 0 \/ (ds = 0 /\ dn < 0)
\* @type: Bool => Bool;
Panics(pinned) == IF ds = 0 /\ dn = 0 THEN FALSE
                  ELSE IF Neg THEN Compare(ts, tn, S1(pinned), N1(pinned)) < 0 ELSE Compare(ts, tn, S1(pinned), N1(pinned)) > 0
\* @type: Bool => Int;
RS(pinned) == IF ds = 0 /\ dn = 0 THEN ts ELSE S1(pinned)
\* @type: Bool => Int;
RN(pinned) == IF ds = 0 /\ dn = 0 THEN tn ELSE N1(pinned)
ExactOnValid == Valid => (~Panics(FALSE) /\ RS(FALSE) = WantS /\ RN(FALSE) = WantN /\ RN(FALSE) >= 0 /\ RN(FALSE) < NS)
OverflowPanics == IF WantS < SMIN \/ WantS > SMAX THEN Panics(FALSE) ELSE (~Panics(FALSE) /\ RS(FALSE) = WantS /\ RN(FALSE) = WantN)
ExactOnValidPinned == Valid => (~Panics(TRUE) /\ RS(TRUE) = WantS /\ RN(TRUE) = WantN)
====
