SPECIFICATION Spec
INVARIANT ViewRangeExact
CHECK_DEADLOCK FALSE
