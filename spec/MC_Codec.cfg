SPECIFICATION Spec
VIEW View
INVARIANT RoundTrip
INVARIANT SizeIsLen
INVARIANT BackFillRefinesEnc
INVARIANT NormalInv
INVARIANT EncWellFormed
INVARIANT UnknownLast
CHECK_DEADLOCK FALSE
