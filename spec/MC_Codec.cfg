SPECIFICATION Spec
VIEW View
INVARIANT RoundTrip
INVARIANT SizeIsLen
INVARIANT BackFillRefinesEnc
INVARIANT NormalInv
INVARIANT EncWellFormed
INVARIANT UnknownLast
INVARIANT DetIsPure
INVARIANT NonDetValid
CHECK_DEADLOCK FALSE
