------------------------------ MODULE Decoders ------------------------------
(***************************************************************************)
(* Concurrent decodes of DIFFERENT inputs into DIFFERENT messages (C06:    *)
(* "for every byte string, unmarshalling terminates and returns a message  *)
(* or an error" must hold for every call, whatever other calls are under   *)
(* way).  Each of K goroutines decodes its own input, a sequence of map    *)
(* keys, record by record into its own output.  The calls share nothing    *)
(* the caller handed them; the only thing they can share is state the      *)
(* generated code keeps between calls.                                     *)
(*                                                                         *)
(* INTERN = TRUE is the named deviation: decoded keys are interned in a    *)
(* package-level table -- look the key up (a read of the table), and if    *)
(* it is absent insert it (a write that takes two steps: a Go map is not   *)
(* updated atomically).  Two writers inside the table at once, or a reader *)
(* while a writer is inside, is what the Go runtime answers with           *)
(* "fatal error: concurrent map writes / read and map write": the process  *)
(* is gone (`crashed`).                                                    *)
(*                                                                         *)
(*   NoSharedState      nothing outside the call's own message is written  *)
(*   NoCrash            no decode brings the process down                  *)
(*   ResultsSequential  a finished decode holds exactly its own input      *)
(* TLC explores every interleaving.  INTERN = TRUE must violate            *)
(* NoSharedState and NoCrash (`verif selftest`).  The executions bound to  *)
(* this model are the decode storms of the C06 check (child processes:     *)
(* a crash there is `concurrent:process-died`, a wrong result              *)
(* `concurrent:result`).                                                   *)
(***************************************************************************)
EXTENDS Naturals, Sequences, FiniteSets, TLC, IOUtils

INTERN == IF "VERIF_INTERN" \in DOMAIN IOEnv THEN IOEnv.VERIF_INTERN = "1" ELSE FALSE
K == 3
\* the inputs: goroutines 1 and 2 meet a key neither has seen before at the same position
Input == << <<"a", "k">>, <<"b", "k">>, <<"c">> >>

VARIABLES pos,      \* per goroutine: records consumed
          out,      \* per goroutine: its own message (the keys decoded so far)
          phase,    \* per goroutine: "idle" | "lookup" | "insert1" | "insert2"
          table,    \* INTERN: the package-level table
          inside,   \* INTERN: goroutines currently inside a write of the table
          shared,   \* number of writes to state outside the call's own message
          crashed
vars == <<pos, out, phase, table, inside, shared, crashed>>

Init == /\ pos = [p \in 1..K |-> 0]
        /\ out = [p \in 1..K |-> <<>>]
        /\ phase = [p \in 1..K |-> "idle"]
        /\ table = {}
        /\ inside = {}
        /\ shared = 0
        /\ crashed = FALSE

Key(p) == Input[p][pos[p] + 1]

\* store the decoded key in the call's own message and move on
Store(p) ==
    /\ out' = [out EXCEPT ![p] = Append(@, Key(p))]
    /\ pos' = [pos EXCEPT ![p] = @ + 1]
    /\ phase' = [phase EXCEPT ![p] = "idle"]

\* without the table one record is one step
Record(p) ==
    /\ ~INTERN /\ ~crashed
    /\ pos[p] < Len(Input[p]) /\ phase[p] = "idle"
    /\ Store(p)
    /\ UNCHANGED <<table, inside, shared, crashed>>

\* with it: look the key up (a read of the table: fatal while a writer is inside) ...
Lookup(p) ==
    /\ INTERN /\ ~crashed
    /\ pos[p] < Len(Input[p]) /\ phase[p] = "idle"
    /\ IF inside # {} THEN crashed' = TRUE /\ UNCHANGED <<pos, out, phase>>
       ELSE /\ UNCHANGED crashed
            /\ IF Key(p) \in table THEN Store(p)
               ELSE phase' = [phase EXCEPT ![p] = "insert1"] /\ UNCHANGED <<pos, out>>
    /\ UNCHANGED <<table, inside, shared>>
\* ... and insert it in two steps (fatal if another writer is inside)
Insert1(p) ==
    /\ INTERN /\ ~crashed /\ phase[p] = "insert1"
    /\ IF inside # {} THEN crashed' = TRUE /\ UNCHANGED <<inside, phase>>
       ELSE inside' = inside \cup {p} /\ phase' = [phase EXCEPT ![p] = "insert2"] /\ UNCHANGED crashed
    /\ UNCHANGED <<pos, out, table, shared>>
Insert2(p) ==
    /\ INTERN /\ ~crashed /\ phase[p] = "insert2"
    /\ table' = table \cup {Key(p)}
    /\ shared' = shared + 1
    /\ inside' = inside \ {p}
    /\ Store(p)
    /\ UNCHANGED crashed

Next == \E p \in 1..K : Record(p) \/ Lookup(p) \/ Insert1(p) \/ Insert2(p)
Spec == Init /\ [][Next]_vars

NoSharedState == shared = 0
NoCrash == ~crashed
ResultsSequential == \A p \in 1..K : pos[p] = Len(Input[p]) => out[p] = Input[p]
=============================================================================
