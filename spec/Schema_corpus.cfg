SPECIFICATION Spec
INVARIANT CorpusOK
CHECK_DEADLOCK FALSE
