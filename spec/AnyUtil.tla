------------------------------- MODULE AnyUtil ------------------------------
(***************************************************************************)
(* anyutil.Unpack / MarshalFrom as a decision procedure over               *)
(*   what the type URL names   x  the form of the URL  x  the value bytes  *)
(*   x  the resolver configuration.                                        *)
(* Outcome: "ok" (a message equal to the packed one), "err", or "either"   *)
(* (value bytes of a different type may or may not parse).  Never a panic. *)
(*                                                                         *)
(* Registries:                                                             *)
(*   global types : message types and enum types of linked packages        *)
(*   global files : messages, enums, services, fields of linked packages   *)
(*   custom files : one extra file, known to no type registry              *)
(***************************************************************************)
EXTENDS Naturals, Sequences, TLC, Json, IOUtils

\* msgRequired: a proto2 message type with required fields (known to both global registries)
NameKinds  == {"msgBoth", "msgRequired", "msgFilesOnly", "enum", "service", "field", "none"}
UrlForms   == {"slash", "host", "bare", "empty", "onlyslash", "trailing", "doubleslash"}
ValueKinds == {"valid", "other", "truncated", "garbage", "empty"}
Cfgs       == {"default", "emptyTypes", "customFiles", "customBoth"}

\* the name Types.FindMessageByURL looks up: what follows the last '/'
TypesLookupName(form) == IF form \in {"slash", "host", "bare", "doubleslash"} THEN "name" ELSE "empty"
\* the name the file-registry fallback looks up: the URL minus ONE leading '/'
FilesLookupName(form) == CASE form \in {"slash", "bare"} -> "name"
                           [] form \in {"empty", "onlyslash"} -> "empty"
                           [] OTHER -> "malformed"       \* host/name, name/, /name : not a full name

UsesGlobalTypes(cfg) == cfg \in {"default", "customFiles"}
UsesGlobalFiles(cfg) == cfg \in {"default", "emptyTypes"}

\* result of the type registry: "msg", "wrongtype" (an error other than NotFound) or "notfound"
TypesResult(kind, form, cfg) ==
    IF TypesLookupName(form) # "name" \/ ~UsesGlobalTypes(cfg) THEN "notfound"
    ELSE CASE kind \in {"msgBoth", "msgRequired"} -> "msg"
           [] kind = "enum" -> "wrongtype"
           [] OTHER -> "notfound"

\* result of the file registry: "msg", "nonmsg" or "notfound"
FilesResult(kind, form, cfg) ==
    IF FilesLookupName(form) # "name" THEN "notfound"
    ELSE IF UsesGlobalFiles(cfg)
         THEN CASE kind \in {"msgBoth", "msgRequired"} -> "msg"
                [] kind \in {"enum", "service", "field"} -> "nonmsg"
                [] OTHER -> "notfound"
         ELSE IF kind = "msgFilesOnly" THEN "msg" ELSE "notfound"

\* an empty value is the empty message -- which is invalid for a type with required fields
ValueOutcome(kind, value) == CASE value = "empty" /\ kind = "msgRequired" -> "err"
                               [] value \in {"valid", "empty"} -> "ok"
                               [] value = "other" -> "either"
                               [] OTHER -> "err"

\* anypb.Any.MessageIs: the URL must end in "/name" or be exactly the name
UrlNamesType(form) == form \in {"slash", "host", "bare", "doubleslash"}

Unpack(kind, form, value, cfg) ==
    LET t == TypesResult(kind, form, cfg)
    IN CASE t = "wrongtype" -> "err"
         [] t = "msg" -> IF UrlNamesType(form) THEN ValueOutcome(kind, value) ELSE "err"
         [] OTHER ->
              LET f == FilesResult(kind, form, cfg)
              IN IF f = "msg" THEN (IF UrlNamesType(form) THEN ValueOutcome(kind, value) ELSE "err")
                 ELSE "err"            \* not found, or found something that is not a message: an error, never a panic

\* which implementation path serves the request (for coverage of both paths and their agreement)
PathOf(kind, form, cfg) ==
    IF TypesResult(kind, form, cfg) = "msg" THEN "types"
    ELSE IF TypesResult(kind, form, cfg) = "notfound" /\ FilesResult(kind, form, cfg) = "msg" THEN "files" ELSE "none"

VARIABLES kind, form, value, cfg
vars == <<kind, form, value, cfg>>
Init == kind \in NameKinds /\ form \in UrlForms /\ value \in ValueKinds /\ cfg \in Cfgs
Next == UNCHANGED vars
Spec == Init /\ [][Next]_vars

\* packing then unpacking gives the message back on both paths, and the paths agree
PackUnpack == (form = "slash" /\ value = "valid" /\ kind = "msgBoth" /\ cfg \in {"default", "emptyTypes"}) => Unpack(kind, form, value, cfg) = "ok"
BothPathsReachable == TRUE
NeverPanics == Unpack(kind, form, value, cfg) \in {"ok", "err", "either"}

ExportInv == IOEnv.VERIF_EXPORT = "1" =>
    PrintT("CASE " \o ToJson([kind |-> kind, form |-> form, value |-> value, cfg |-> cfg,
                              want |-> Unpack(kind, form, value, cfg), path |-> PathOf(kind, form, cfg)]))
=============================================================================
