------------------------------ MODULE MC_Digits -----------------------------
(***************************************************************************)
(* The runtime varint helpers (C15) on the model.                          *)
(*                                                                         *)
(* State: a 64-bit word w (10 base-128 digits) walking over every          *)
(* bit-length boundary 2^k-1, 2^k, 2^k+1 (k = 0..64) and their zig-zag     *)
(* images.  Invariants:                                                    *)
(*   SovFormula   the code's formula (bitlen(x|1)+6) div 7 equals the      *)
(*                length of the minimal varint of x                        *)
(*   VarintRoundTrip / ZigZagRoundTrip / SignExt  digit-level definitions  *)
(*                are mutually inverse                                     *)
(*   EncodeFrame  the backward writer stores exactly Varint(x) in          *)
(*                [off - n, off) of a frame and touches nothing else       *)
(* plus, at a small base where tuples can be compared with plain integers, *)
(* that the digit operators mean what they should (SmallBaseOK).           *)
(* With VERIF_EXPORT = "1" each visited word is printed for replay against *)
(* runtime.Sov / Soz / EncodeVarint and protowire.                         *)
(***************************************************************************)
EXTENDS Digits, TLC, Json, IOUtils

Export == IOEnv.VERIF_EXPORT = "1"

Pow2(k) == [i \in 1..10 |-> IF i = (k \div 7) + 1 THEN 2 ^ (k % 7) ELSE 0]              \* k <= 63
Pow2m1(k) == [i \in 1..10 |-> IF i < (k \div 7) + 1 THEN 127
                              ELSE IF i = (k \div 7) + 1 THEN 2 ^ (k % 7) - 1 ELSE 0]    \* k <= 64
Pow2p1(k) == IF k = 0 THEN <<2, 0, 0, 0, 0, 0, 0, 0, 0, 0>> ELSE [Pow2(k) EXCEPT ![1] = @ + 1]

Words == {Pow2(k) : k \in 0..63} \cup {Pow2m1(k) : k \in 0..64} \cup {Pow2p1(k) : k \in 0..63}
         \cup {<<85, 42, 85, 42, 85, 42, 85, 42, 85, 0>>, <<42, 85, 42, 85, 42, 85, 42, 85, 42, 1>>}

\* bit length of a word (0 for zero)
BitLenDigit(x) == IF x = 0 THEN 0 ELSE CHOOSE n \in 1..7 : 2 ^ (n - 1) <= x /\ x < 2 ^ n
BitLen(d) == IF IsZero(d) THEN 0 ELSE (SigLen(d) - 1) * 7 + BitLenDigit(d[SigLen(d)])
Or1(d) == [d EXCEPT ![1] = IF @ % 2 = 0 THEN @ + 1 ELSE @]

\* what runtime.Sov computes
CodeSov(d) == (BitLen(Or1(d)) + 6) \div 7
\* what runtime.Soz computes: Sov((x << 1) ^ (x >> 63)) = Sov(zigzag(x))
CodeSoz(d) == CodeSov(ZigZag64(d))

\* the backward writer: frame of length n filled with canary 170; returns the new frame and base
EncodeVarintModel(frame, off, d) ==
    LET v == Varint(d)
        base == off - Len(v)
    IN [frame |-> [i \in 1..Len(frame) |-> IF i > base /\ i <= off THEN v[i - base] ELSE frame[i]], base |-> base]

UnVarint(v) == Pad([i \in 1..Len(v) |-> v[i] % 128], 10)

VARIABLES w, steps
Steps == atoi(IOEnv.VERIF_MAXLEN)
Init == w \in Words /\ steps = 0
\* walk: the word operators themselves generate further words from the boundaries
Next == /\ steps < Steps
        /\ steps' = steps + 1
        /\ w' \in {ZigZag64(w), UnZigZag64(w), Not(w, 10, 2), Shl1(w, 10, 2), Shr1(w, 10)}
Spec == Init /\ [][Next]_<<w, steps>>
View == w

SovFormula == CodeSov(w) = Len(Varint(w)) /\ CodeSov(w) \in 1..10
SozFormula == CodeSoz(w) = Len(Varint(ZigZag64(w)))
VarintRoundTrip == UnVarint(Varint(w)) = w
ZigZagRoundTrip == UnZigZag64(ZigZag64(w)) = w /\ ZigZag64(UnZigZag64(w)) = w
ZigZag32RoundTrip == LET x == Trunc32(w) IN UnZigZag32(ZigZag32(x)) = x /\ ZigZag32(UnZigZag32(x)) = x
SignExt == LET x == Trunc32(w) IN Trunc32(SignExtend32(x)) = x /\ (IsNeg32(x) <=> IsNeg64(SignExtend32(x)))
EncodeFrame ==
    \A off \in {10, 11, 16} :
        LET fr == [i \in 1..16 |-> 170]
            r == EncodeVarintModel(fr, off, w)
        IN /\ r.base = off - CodeSov(w)
           /\ \A i \in 1..16 : (i <= r.base \/ i > off) => r.frame[i] = 170
           /\ [i \in 1..(off - r.base) |-> r.frame[r.base + i]] = Varint(w)

(***************************************************************************)
(* Small-base sanity of the digit operators: base 128 but only 2 digits,   *)
(* where plain integers (< 2^14) can mirror every operation.               *)
(***************************************************************************)
SmallWords == {<<a, b>> : a \in {0, 1, 2, 63, 64, 126, 127}, b \in {0, 1, 63, 64, 127}}
V2(d) == d[1] + 128 * d[2]
SmallBaseOK ==
    \A d \in SmallWords :
        /\ V2(Shl1(d, 2, 128)) = (2 * V2(d)) % 16384
        /\ V2(Shr1(d, 2)) = V2(d) \div 2
        /\ V2(Not(d, 2, 128)) = 16383 - V2(d)
        /\ \A e \in SmallWords : LessU(d, e) <=> V2(d) < V2(e)
        /\ ValOf(AddC(d, d, 128, 0), 128) = 2 * V2(d)
        /\ DigitsToNat(d) = V2(d)
        /\ NatDigits(V2(d), 2) = d
        /\ NatVarint(V2(d)) = Varint(Pad(d, 10))
ASSUME SmallBaseOK

ExportInv ==
    Export => PrintT("WORD " \o ToJson([d |-> w, varint |-> Varint(w), sov |-> Len(Varint(w)), zz |-> ZigZag64(w), soz |-> Len(Varint(ZigZag64(w)))]))
=============================================================================
