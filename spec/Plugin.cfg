SPECIFICATION Spec
INVARIANT IterIndependent
INVARIANT CoGenIndependent
INVARIANT NoOutputForOthers
INVARIANT UnknownIsError
INVARIANT ExportInv
CHECK_DEADLOCK FALSE
