------------------------------ MODULE MC_Parse ------------------------------
(***************************************************************************)
(* Byte-level model for totality (C06) and for the record skipper (C15).   *)
(* The state is a byte string that grows by one byte per action, over a    *)
(* byte alphabet chosen to contain tags of every wire type (legal and      *)
(* illegal), group delimiters, small lengths and varint continuation       *)
(* bytes.  TLC therefore visits EVERY byte string up to length L; in each  *)
(* state the total parser (Wire!ParseAt) and the skipper (Wire!StrictSkip, *)
(* or with VERIF_LAX = "1" the lax loop machine Wire!LaxSkip that the code *)
(* implemented before the fix) are evaluated and compared.                 *)
(*                                                                         *)
(*   SkipProgress  -- a successful Skip consumes at least one byte (and    *)
(*                    every iteration of the lax machine advances idx)     *)
(*   SkipAgrees    -- on a buffer that starts with a well-formed record    *)
(*                    (groups matched) Skip returns exactly its length     *)
(*   SkipSound     -- Skip accepts NOTHING else: what it accepts is kept   *)
(*                    verbatim as unknown fields and re-parsed by          *)
(*                    protobuf-go, which panics on invalid wire data (C06: *)
(*                    "a message it accepts can afterwards be compared")   *)
(*                                                                         *)
(* With VERIF_EXPORT = "1" each state is printed with the model's outcome  *)
(* for replay against runtime.Skip, protowire.ConsumeField and Unmarshal.  *)
(***************************************************************************)
EXTENDS Wire, TLC, Json, IOUtils

L      == atoi(IOEnv.VERIF_MAXLEN)
Export == IOEnv.VERIF_EXPORT = "1"
Lax    == "VERIF_LAX" \in DOMAIN IOEnv /\ IOEnv.VERIF_LAX = "1"
Skip(b) == IF Lax THEN LaxSkip(b) ELSE StrictSkip(b)

\*         0  1  2  f1:varint f1:fixed64 f1:bytes f1:sgroup f1:egroup f1:fixed32 wt6 wt7 f2:sgroup f2:egroup  0x7f 0x80 0xff
Bytes == {0, 1, 2, 8,       9,         10,      11,       12,       13,        14, 15, 19,       20,        127, 128, 255}

VARIABLES buf


\* all loop iterations of the Skip machine advance (checked along the run)
RECURSIVE SkipProgressFrom(_, _, _)
SkipProgressFrom(b, idx, depth) ==
    IF idx >= Len(b) THEN TRUE
    ELSE LET s == LaxSkipStep(b, idx, depth)
         IN IF s.err # "" \/ s.done THEN (s.err # "" \/ s.idx > idx)
            ELSE s.idx > idx /\ SkipProgressFrom(b, s.idx, s.depth)

SkipProgress == /\ (Skip(buf).err = "" => Skip(buf).n >= 1 /\ (~Lax => Skip(buf).n <= Len(buf)))
                /\ (Lax => SkipProgressFrom(buf, 0, 0))

First == ParseAt(buf, 1, MaxGroupDepth)

\* first record well-formed, not a stray end-group, and entirely inside the buffer
FirstOK == buf # <<>> /\ First.ok /\ First.wt # 4

SkipAgrees == FirstOK => Skip(buf) = [err |-> "", n |-> First.e - 1]

\* whatever Skip accepts starts with a well-formed record (nesting beyond the model's group depth
\* bound is outside the model: class "depth")
SkipSound == (buf # <<>> /\ ~FirstOK /\ ~(~First.ok /\ First.err = "depth")) => Skip(buf).err # ""

Outcome ==
    [b |-> buf, skip |-> Skip(buf), first |-> IF First.ok THEN [ok |-> TRUE, e |-> First.e - 1, wt |-> First.wt] ELSE [ok |-> FALSE, err |-> First.err],
     wf |-> WellFormedBytes(buf)]

\* one step appends a single byte of the alphabet, or a whole fixed-width payload (so that
\* complete fixed32/fixed64 records are reachable within a small number of steps)
Chunks == {<<x>> : x \in Bytes} \cup {<<1, 0, 0, 128>>, <<255, 255, 255, 255, 255, 255, 255, 127>>, <<128, 128, 128, 128, 128, 128, 128, 128, 128>>}

VARIABLE steps
Init == buf = <<>> /\ steps = 0
Next == /\ steps < L
        /\ steps' = steps + 1
        /\ \E ch \in Chunks :
              /\ buf' = buf \o ch
              /\ (Export => LET b2 == buf \o ch
                                f2 == ParseAt(b2, 1, MaxGroupDepth)
                            IN PrintT("BUF " \o ToJson([b |-> b2, skip |-> Skip(b2),
                                   first |-> IF f2.ok THEN [ok |-> TRUE, e |-> f2.e - 1, wt |-> f2.wt] ELSE [ok |-> FALSE, err |-> f2.err, e |-> 0, wt |-> 0],
                                   wf |-> WellFormedBytes(b2)])))
vars == <<buf, steps>>
Spec == Init /\ [][Next]_vars
View == buf
=============================================================================
