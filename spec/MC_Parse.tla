------------------------------ MODULE MC_Parse ------------------------------
(***************************************************************************)
(* Byte-level model for totality (C06) and for the record skipper (C15).   *)
(* The state is a byte string that grows by one byte per action, over a    *)
(* byte alphabet chosen to contain tags of every wire type (legal and      *)
(* illegal), group delimiters, small lengths and varint continuation       *)
(* bytes.  TLC therefore visits EVERY byte string up to length L; in each  *)
(* state the total parser (Wire!ParseAt) and the Skip machine              *)
(* (Wire!SkipStep, mirroring runtime.Skip loop iteration by iteration) are *)
(* evaluated and compared.                                                 *)
(*                                                                         *)
(*   SkipProgress  -- every Skip loop iteration strictly advances idx      *)
(*   SkipAgrees    -- on a buffer that starts with a well-formed record    *)
(*                    (groups matched) Skip returns exactly its length     *)
(*   SkipSound     -- Skip never reports success on a buffer whose first   *)
(*                    record is truncated or has an illegal wire type      *)
(*                                                                         *)
(* With VERIF_EXPORT = "1" each state is printed with the model's outcome  *)
(* for replay against runtime.Skip, protowire.ConsumeField and Unmarshal.  *)
(***************************************************************************)
EXTENDS Wire, TLC, Json, IOUtils

L      == atoi(IOEnv.VERIF_MAXLEN)
Export == IOEnv.VERIF_EXPORT = "1"

\*         0  1  2  f1:varint f1:fixed64 f1:bytes f1:sgroup f1:egroup f1:fixed32 wt6 wt7 f2:sgroup f2:egroup  0x7f 0x80 0xff
Bytes == {0, 1, 2, 8,       9,         10,      11,       12,       13,        14, 15, 19,       20,        127, 128, 255}

VARIABLES buf


\* all loop iterations of the Skip machine advance (checked along the run)
RECURSIVE SkipProgressFrom(_, _, _)
SkipProgressFrom(b, idx, depth) ==
    IF idx >= Len(b) THEN TRUE
    ELSE LET s == SkipStep(b, idx, depth)
         IN IF s.err # "" \/ s.done THEN (s.err # "" \/ s.idx > idx)
            ELSE s.idx > idx /\ SkipProgressFrom(b, s.idx, s.depth)

SkipProgress == SkipProgressFrom(buf, 0, 0)

First == ParseAt(buf, 1, MaxGroupDepth)

\* first record well-formed, not a stray end-group, and entirely inside the buffer
FirstOK == buf # <<>> /\ First.ok /\ First.wt # 4

SkipAgrees == FirstOK => Skip(buf) = [err |-> "", n |-> First.e - 1]

\* Skip may be more lenient than the total parser only in the documented ways: unmatched group
\* numbers, fixed-width payloads running past the end (the generated caller re-checks the
\* bound), tag numbers it does not validate (0, > 2^29-1), and 10th varint bytes > 1
Lenient == {"group", "eof", "tag0", "bigtag", "overflow", "depth"}
SkipSound == (buf # <<>> /\ ~First.ok /\ First.err \notin Lenient) => Skip(buf).err # ""

Outcome ==
    [b |-> buf, skip |-> Skip(buf), first |-> IF First.ok THEN [ok |-> TRUE, e |-> First.e - 1, wt |-> First.wt] ELSE [ok |-> FALSE, err |-> First.err],
     wf |-> WellFormedBytes(buf)]

\* one step appends a single byte of the alphabet, or a whole fixed-width payload (so that
\* complete fixed32/fixed64 records are reachable within a small number of steps)
Chunks == {<<x>> : x \in Bytes} \cup {<<1, 0, 0, 128>>, <<255, 255, 255, 255, 255, 255, 255, 127>>, <<128, 128, 128, 128, 128, 128, 128, 128, 128>>}

VARIABLE steps
Init == buf = <<>> /\ steps = 0
Next == /\ steps < L
        /\ steps' = steps + 1
        /\ \E ch \in Chunks :
              /\ buf' = buf \o ch
              /\ (Export => LET b2 == buf \o ch
                                f2 == ParseAt(b2, 1, MaxGroupDepth)
                            IN PrintT("BUF " \o ToJson([b |-> b2, skip |-> Skip(b2),
                                   first |-> IF f2.ok THEN [ok |-> TRUE, e |-> f2.e - 1, wt |-> f2.wt] ELSE [ok |-> FALSE, err |-> f2.err, e |-> 0, wt |-> 0],
                                   wf |-> WellFormedBytes(b2)])))
vars == <<buf, steps>>
Spec == Init /\ [][Next]_vars
View == buf
=============================================================================
