SPECIFICATION Spec
INVARIANT WellFormed
INVARIANT DepthBounded
PROPERTY Terminates
CHECK_DEADLOCK FALSE
