------------------------------ MODULE CodecJson -----------------------------
(***************************************************************************)
(* Boundary between JSON-carried values (maps as sequences of [k, v]       *)
(* pairs, as the Go harness writes them) and the values of module Codec    *)
(* (maps as functions).                                                    *)
(***************************************************************************)
EXTENDS Codec

FieldByKey(S, T, k) ==
    LET fs == FieldsOf(S, T)
    IN fs[CHOOSE i \in 1..Len(fs) : ToString(fs[i].num) = k]

RECURSIVE FromJ(_, _, _)
FromJ(S, T, j) ==
    [f |-> [k \in DOMAIN j.f |->
              LET fd == FieldByKey(S, T, k)
                  x  == j.f[k]
              IN CASE fd.card \in {"one", "oneof"} ->
                        IF fd.kind = "message" THEN FromJ(S, fd.msg, x) ELSE x
                   [] fd.card = "rep" ->
                        IF fd.kind = "message" THEN [i \in 1..Len(x) |-> FromJ(S, fd.msg, x[i])] ELSE x
                   [] fd.card = "map" ->
                        [key \in {x[i].k : i \in 1..Len(x)} |->
                            LET p == x[CHOOSE i \in 1..Len(x) : x[i].k = key]
                            IN IF fd.vk = "message" THEN FromJ(S, fd.vmsg, p.v) ELSE p.v]],
     u |-> j.u]

RECURSIVE ToJ(_, _, _)
ToJ(S, T, v) ==
    [f |-> [k \in DOMAIN v.f |->
              LET fd == FieldByKey(S, T, k)
                  x  == v.f[k]
              IN CASE fd.card \in {"one", "oneof"} ->
                        IF fd.kind = "message" THEN ToJ(S, fd.msg, x) ELSE x
                   [] fd.card = "rep" ->
                        IF fd.kind = "message" THEN [i \in 1..Len(x) |-> ToJ(S, fd.msg, x[i])] ELSE x
                   [] fd.card = "map" ->
                        LET ks == SortedKeys(fd.kk, x)
                        IN [i \in 1..Len(ks) |->
                              [k |-> ks[i], v |-> IF fd.vk = "message" THEN ToJ(S, fd.vmsg, x[ks[i]]) ELSE x[ks[i]]]]],
     u |-> v.u]

=============================================================================
