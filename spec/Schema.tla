-------------------------------- MODULE Schema ------------------------------
(***************************************************************************)
(* The universe of proto3 schemas the generator must accept (C12): kinds,  *)
(* cardinalities, oneofs, maps, nesting through references (including      *)
(* self-reference), field numbers over the whole tag-width range, names.   *)
(*                                                                         *)
(* Two uses:                                                               *)
(*  1. WellFormed(F) -- the static corpus written in Go (harness/corpus)   *)
(*     is dumped as JSON and every file must satisfy it (checked by TLC    *)
(*     with VERIF_CORPUS set), so the corpus stays inside the supported    *)
(*     subset;                                                             *)
(*  2. schema construction as a state machine (AddMsg / AddField /         *)
(*     AddOneof).  `tlc -simulate` walks of it are the RANDOM SCHEMAS of   *)
(*     a seed; every state reached satisfies WellFormed (invariant).       *)
(*                                                                         *)
(* A file is [name, pkg, gopkg, syntax, group, tags, msgs] with            *)
(* msgs = Seq([name, fields, oneofs]), fields as in harness/corpus.F.      *)
(***************************************************************************)
EXTENDS Integers, Sequences, FiniteSets, TLC, Json, IOUtils

ScalarKinds == {"double", "float", "int64", "uint64", "int32", "fixed64", "fixed32", "bool", "string", "bytes",
                "uint32", "sfixed32", "sfixed64", "sint32", "sint64"}
Kinds == ScalarKinds \cup {"enum", "message"}
MapKeyKinds == ScalarKinds \ {"double", "float", "bytes"}
PackableKinds == Kinds \ {"string", "bytes", "message"}
Cards == {"one", "rep", "map", "oneof"}

MaxFieldNumber == 536870911
ValidNumber(n) == n >= 1 /\ n <= MaxFieldNumber /\ ~(n >= 19000 /\ n <= 19999)

Range(s) == {s[i] : i \in 1..Len(s)}

\* every message of file F, by its fully qualified name with leading dot (top level only here;
\* the static corpus also nests messages, which the Go side flattens into `allTypes`)
TypeNames(F) == {"." \o F.pkg \o "." \o F.msgs[i].name : i \in 1..Len(F.msgs)}

FieldOK(F, m, f, known) ==
    /\ ValidNumber(f.num)
    /\ f.card \in Cards
    /\ f.kind \in Kinds
    /\ (f.card = "map" => f.kk \in MapKeyKinds /\ f.vk \in Kinds)
    /\ (f.card = "oneof" => \E o \in Range(m.oneofs) : o = f.oneof)
    /\ ((f.card # "map" /\ f.kind \in {"message", "enum"}) => f.type \in known)
    /\ ((f.card = "map" /\ f.vk \in {"message", "enum"}) => f.vtype \in known)
    /\ (("unpack" \in DOMAIN f /\ f.unpack) => (f.card = "rep" /\ f.kind \in PackableKinds))

MsgOK(F, m, known) ==
    /\ \A i, j \in 1..Len(m.fields) : i # j => (m.fields[i].num # m.fields[j].num /\ m.fields[i].name # m.fields[j].name)
    /\ \A i \in 1..Len(m.fields) : FieldOK(F, m, m.fields[i], known)
    \* every declared oneof has at least one member (protoc rejects empty oneofs)
    /\ \A o \in Range(m.oneofs) : \E i \in 1..Len(m.fields) : m.fields[i].card = "oneof" /\ m.fields[i].oneof = o

\* `known` = the type names the file may reference (its own, its dependencies', well-known types)
WellFormedIn(F, known) ==
    /\ F.syntax \in {"proto3"}
    /\ \A i, j \in 1..Len(F.msgs) : i # j => F.msgs[i].name # F.msgs[j].name
    /\ \A i \in 1..Len(F.msgs) : MsgOK(F, F.msgs[i], known)

(***************************************************************************)
(* Construction machine                                                    *)
(***************************************************************************)
MaxMsgs   == atoi(IOEnv.VERIF_MAXMSGS)
MaxFields == atoi(IOEnv.VERIF_MAXFIELDS)
Steps     == atoi(IOEnv.VERIF_STEPS)
Tag       == IOEnv.VERIF_TAG            \* distinguishes packages of different walks

NumPool == {1, 2, 3, 4, 5, 6, 7, 8, 9, 10, 11, 12, 13, 14, 15, 16, 17, 100, 2047, 2048, 18999, 20000, 262143, 262144,
            33554431, 33554432, 536870911}
NamePool == {"a", "b", "value", "key", "x", "n", "l", "i", "size", "get", "set", "has", "type", "range", "clear", "descriptor",
             "new", "interface", "mutable", "is_valid", "string", "reset", "options", "input", "err", "fd", "m", "v", "k"}
EnumName == ".verif.rnd" \o Tag \o ".E"

VARIABLES msgs, steps
vars == <<msgs, steps>>

MsgName(i) == "R" \o ToString(i)
FQ(i) == ".verif.rnd" \o Tag \o "." \o MsgName(i)

File == [name |-> "verif/rnd" \o Tag \o "/rnd.proto", pkg |-> "verif.rnd" \o Tag, gopkg |-> "rnd" \o Tag, syntax |-> "proto3",
         group |-> "rnd" \o Tag, tags |-> <<"random">>, msgs |-> msgs,
         enums |-> << [name |-> "E", values |-> << [name |-> "E_ZERO_" \o Tag, num |-> 0], [name |-> "E_ONE_" \o Tag, num |-> 1],
                                                    [name |-> "E_NEG_" \o Tag, num |-> -2], [name |-> "E_BIG_" \o Tag, num |-> 1000000] >>] >>]

Known == {FQ(i) : i \in 1..Len(msgs)} \cup {EnumName}

UsedNums(m) == {m.fields[i].num : i \in 1..Len(m.fields)}
UsedNames(m) == {m.fields[i].name : i \in 1..Len(m.fields)}

TypeFor(kind, j) == IF kind = "message" THEN FQ(j) ELSE IF kind = "enum" THEN EnumName ELSE ""

AddMsg ==
    /\ Len(msgs) < MaxMsgs
    /\ msgs' = Append(msgs, [name |-> MsgName(Len(msgs) + 1), fields |-> <<>>, oneofs |-> <<>>, nested |-> <<>>, enums |-> <<>>])

AddField ==
    \E mi \in 1..Len(msgs) :
      LET m == msgs[mi] IN
      /\ Len(m.fields) < MaxFields
      \* numbers, names and key kinds are drawn at random (TLC!RandomElement, seeded by -seed), the
      \* structural choices (kind, cardinality, referenced type) are explored as alternatives
      /\ \E kind \in Kinds, card \in {"one", "rep", "map"}, j \in 1..Len(msgs) :
           LET num == RandomElement(NumPool \ UsedNums(m))
               name == RandomElement(NamePool \ UsedNames(m))
               kk == RandomElement(MapKeyKinds)
               unpack == RandomElement(BOOLEAN)
               f == IF card = "map"
                    THEN [name |-> name, num |-> num, kind |-> "message", card |-> "map", unpack |-> FALSE, oneof |-> "", type |-> "",
                          kk |-> kk, vk |-> kind, vtype |-> TypeFor(kind, j)]
                    ELSE [name |-> name, num |-> num, kind |-> kind, card |-> card, unpack |-> (unpack /\ card = "rep" /\ kind \in PackableKinds),
                          oneof |-> "", type |-> TypeFor(kind, j), kk |-> "", vk |-> "", vtype |-> ""]
           IN msgs' = [msgs EXCEPT ![mi].fields = Append(@, f)]

\* a oneof is added together with its first member (a oneof cannot be empty); further members
\* join an existing oneof
AddOneofMember ==
    \E mi \in 1..Len(msgs) :
      LET m == msgs[mi] IN
      /\ Len(m.fields) < MaxFields
      /\ \E kind \in Kinds, j \in 1..Len(msgs), fresh \in BOOLEAN :
           LET num == RandomElement(NumPool \ UsedNums(m))
               name == RandomElement(NamePool \ UsedNames(m))
               oname == IF fresh \/ m.oneofs = <<>> THEN "oo" \o ToString(Len(m.oneofs) + 1) ELSE m.oneofs[Len(m.oneofs)]
               f == [name |-> name, num |-> num, kind |-> kind, card |-> "oneof", unpack |-> FALSE, oneof |-> oname,
                     type |-> TypeFor(kind, j), kk |-> "", vk |-> "", vtype |-> ""]
           IN /\ name \notin Range(m.oneofs) /\ oname \notin UsedNames(m)
              /\ msgs' = [msgs EXCEPT ![mi].fields = Append(@, f),
                                      ![mi].oneofs = IF oname \in Range(@) THEN @ ELSE Append(@, oname)]

Next == /\ steps < Steps
        /\ steps' = steps + 1
        /\ (AddMsg \/ AddField \/ AddOneofMember)

Init == msgs = << [name |-> MsgName(1), fields |-> <<>>, oneofs |-> <<>>, nested |-> <<>>, enums |-> <<>>] >> /\ steps = 0
Spec == Init /\ [][Next]_vars

WellFormedInv == WellFormedIn(File, Known)

\* printed once per walk, at its last state
ExportInv == (steps = Steps) => PrintT("SCHEMA " \o ToJson(File))

(***************************************************************************)
(* C19: the entities a generated package must expose for a file: every     *)
(* message (nested ones included) and enum under its full name, with its   *)
(* fields / values.  Exported as obligations for the live packages.        *)
(***************************************************************************)
RECURSIVE MsgEntities(_, _)
MsgEntities(prefix, ms) ==
    IF ms = <<>> THEN <<>>
    ELSE LET m == ms[1]
             full == prefix \o "." \o m.name
             fieldsE == [i \in 1..Len(m.fields) |-> [name |-> m.fields[i].name, num |-> m.fields[i].num, kind |-> m.fields[i].kind,
                                                     card |-> m.fields[i].card, oneof |-> m.fields[i].oneof]]
             enumsE == [i \in 1..Len(m.enums) |-> [kind |-> "enum", name |-> full \o "." \o m.enums[i].name, values |-> m.enums[i].values]]
         IN << [kind |-> "message", name |-> full, fields |-> fieldsE, oneofs |-> m.oneofs] >>
            \o enumsE \o MsgEntities(full, m.nested) \o MsgEntities(prefix, Tail(ms))

Entities(F) ==
    MsgEntities(F.pkg, F.msgs)
    \o [i \in 1..Len(F.enums) |-> [kind |-> "enum", name |-> F.pkg \o "." \o F.enums[i].name, values |-> F.enums[i].values]]

EntitiesOK ==
    LET C == JsonDeserialize(IOEnv.VERIF_CORPUS)
    IN \A i \in 1..Len(C) : PrintT("ENTITIES " \o ToJson([file |-> C[i].name, pkg |-> C[i].pkg, entities |-> Entities(C[i])]))

(***************************************************************************)
(* Static corpus check: VERIF_CORPUS = JSON array of files, VERIF_KNOWN =  *)
(* JSON array of all type names those files may reference.                 *)
(***************************************************************************)
CorpusOK ==
    LET C == JsonDeserialize(IOEnv.VERIF_CORPUS)
        K == Range(JsonDeserialize(IOEnv.VERIF_KNOWN))
    IN \A i \in 1..Len(C) :
          IF WellFormedIn(C[i], K) THEN TRUE ELSE Assert(FALSE, <<"corpus file not well-formed", C[i].name>>)
=============================================================================
