------------------------------- MODULE Reflect ------------------------------
(***************************************************************************)
(* The protoreflect.Message / List / Map API as a state machine over the   *)
(* abstract message values of module Codec.                                *)
(*                                                                         *)
(* An operation addresses a message by a PATH from the root (through       *)
(* populated singular message fields, list elements and map values) and,   *)
(* for List/Map operations, a field of that message and the way the view   *)
(* was obtained ("mutable": Mutable(fd), "get": Get(fd)).                  *)
(*                                                                         *)
(* Apply(S, T, root, op) = [st |-> new root, ret |-> returned value]       *)
(* where ret = "PANIC" when the API must panic (writes through read-only   *)
(* empty views, Mutable of a scalar, index out of range ...).              *)
(*                                                                         *)
(* Handle discipline (DESIGN 3.1): views are re-obtained after any         *)
(* operation that may detach them (Clear / Set / Mutable-on-oneof /        *)
(* Reset); the behaviour of stale views is unspecified (the two reference  *)
(* implementations disagree) and is neither generated nor checked.         *)
(***************************************************************************)
EXTENDS Codec

\* Every returned value is a record [kind, v] so that results of different shapes can be compared
Ret(kind, v) == [kind |-> kind, v |-> v]
PANIC   == Ret("panic", 0)
OK      == Ret("ok", 0)
INVALID == Ret("invalid", 0)
NOPATH  == Ret("nopath", 0)
MISUSE  == Ret("misuse", 0)
IsPanic(r) == r.kind = "panic"


\* An operation is a record with ALL of the keys op, p, f, oo, i, k, x, u, via (unused ones hold
\* 0 / <<>> / ""), so that the same records travel as JSON between TLC and the Go harness.
MkOp(name, p, f) == [op |-> name, p |-> p, f |-> f, oo |-> 0, i |-> 0, k |-> <<>>, x |-> <<>>, u |-> <<>>, via |-> "mutable"]
\* path step: [f |-> field number, t |-> "f" | "i" | "k", i |-> list index (0-based), k |-> map key]
StepF(f) == [f |-> f, t |-> "f", i |-> 0, k |-> <<>>]
StepI(f, i) == [f |-> f, t |-> "i", i |-> i, k |-> <<>>]
StepK(f, k) == [f |-> f, t |-> "k", i |-> 0, k |-> k]
FieldOf(S, T, num) == FieldByNum(S, T, num)

\* navigate: returns [ok, T, v] -- the message type and value at the end of path p
RECURSIVE AtPath(_, _, _, _)
AtPath(S, T, v, p) ==
    IF p = <<>> THEN [ok |-> TRUE, T |-> T, v |-> v]
    ELSE LET s == p[1]
             fd == FieldOf(S, T, s.f)
         IN IF fd.num = 0 \/ ~HasF(v, fd) THEN [ok |-> FALSE]
            ELSE LET x == GetF(v, fd)
                 IN CASE s.t = "f" /\ fd.card \in {"one", "oneof"} /\ fd.kind = "message" ->
                            AtPath(S, fd.msg, x, Tail(p))
                      [] s.t = "i" /\ fd.card = "rep" /\ fd.kind = "message" /\ s.i + 1 \in 1..Len(x) ->
                            AtPath(S, fd.msg, x[s.i + 1], Tail(p))
                      [] s.t = "k" /\ fd.card = "map" /\ fd.vk = "message" /\ s.k \in DOMAIN x ->
                            AtPath(S, fd.vmsg, x[s.k], Tail(p))
                      [] OTHER -> [ok |-> FALSE]

\* rebuild the root with the message at path p replaced by nv
RECURSIVE PutPath(_, _, _, _, _)
PutPath(S, T, v, p, nv) ==
    IF p = <<>> THEN nv
    ELSE LET s == p[1]
             fd == FieldOf(S, T, s.f)
             x == GetF(v, fd)
         IN CASE s.t = "f" -> SetF(v, fd, PutPath(S, fd.msg, x, Tail(p), nv))
              [] s.t = "i" -> SetF(v, fd, [x EXCEPT ![s.i + 1] = PutPath(S, fd.msg, x[s.i + 1], Tail(p), nv)])
              [] s.t = "k" -> SetF(v, fd, [x EXCEPT ![s.k] = PutPath(S, fd.vmsg, x[s.k], Tail(p), nv)])

OthersOf(S, T, fd) == {Key(g) : g \in OneofMembers(S, T, fd.oo)} \ {Key(fd)}
DropOthers(S, T, v, fd) == IF fd.card = "oneof" THEN [v EXCEPT !.f = Without(@, OthersOf(S, T, fd))] ELSE v

\* how a returned composite is rendered: validity and a size -- the number of elements of a list
\* or map; for a message the number of populated fields plus the length of its unknown bytes (so
\* that "a fresh message" means an EMPTY one, and a view of a populated message shows its content)
ViewOf(valid, n) == Ret("view", [valid |-> valid, len |-> n])
MsgSize(x) == Cardinality(DOMAIN x.f) + Len(x.u)
Scalar(x) == Ret("scalar", x)
Bool(b) == Ret("bool", b)
IntR(n) == Ret("int", n)
DefaultRet(fd) ==
    CASE fd.card = "rep" -> ViewOf(FALSE, 0)
      [] fd.card = "map" -> ViewOf(FALSE, 0)
      [] fd.kind = "message" -> ViewOf(FALSE, 0)
      [] OTHER -> Scalar(ZeroOf(fd.kind))
ValueRet(fd, x) ==
    CASE fd.card = "rep" -> ViewOf(TRUE, Len(x))
      [] fd.card = "map" -> ViewOf(TRUE, Cardinality(DOMAIN x))
      [] fd.kind = "message" -> ViewOf(TRUE, MsgSize(x))
      [] OTHER -> Scalar(x)

\* store a list / map back, keeping the normal form (empty container = unpopulated)
PutList(v, fd, l) == IF l = <<>> THEN ClearF(v, fd) ELSE SetF(v, fd, l)
PutMap(v, fd, m) == IF DOMAIN m = {} THEN ClearF(v, fd) ELSE SetF(v, fd, m)

ListOf(v, fd) == IF HasF(v, fd) THEN GetF(v, fd) ELSE <<>>
MapOf(v, fd) == IF HasF(v, fd) THEN GetF(v, fd) ELSE <<>>

ElemZero(kind) == IF kind = "message" THEN ViewOf(TRUE, 0) ELSE Scalar(ZeroOf(kind))
ElemRet(kind, x) == IF kind = "message" THEN ViewOf(TRUE, MsgSize(x)) ELSE Scalar(x)

\* a view obtained through Get of an unpopulated list/map is read-only: writes panic
ReadOnly(v, fd, op) == op.via = "get" /\ ~HasF(v, fd)

SortedNums(ns) == SetToSortSeq(ns, LAMBDA a, b : a < b)

(***************************************************************************)
(* One operation on the message value v of type T (already navigated).     *)
(* Result: [v |-> new value, ret |-> ...]                                  *)
(***************************************************************************)
R(v, ret) == [v |-> v, ret |-> ret]

ApplyAt(S, T, v, op) ==
    LET fd == FieldOf(S, T, op.f)
    IN CASE op.op = "Has" -> R(v, Bool(HasF(v, fd)))
         [] op.op = "Get" -> R(v, IF HasF(v, fd) THEN ValueRet(fd, GetF(v, fd)) ELSE DefaultRet(fd))
         [] op.op = "Getter" -> R(v, IF HasF(v, fd) THEN ValueRet(fd, GetF(v, fd))
                                     ELSE IF fd.kind = "message" \/ fd.card \in {"rep", "map"} THEN ViewOf(FALSE, 0)
                                     ELSE Scalar(ZeroOf(fd.kind)))
         [] op.op = "Set" ->
              \* scalar Set
              IF fd.card \in {"rep", "map"} \/ fd.kind = "message" THEN R(v, PANIC)
              ELSE IF fd.card = "oneof" THEN R(SetF(DropOthers(S, T, v, fd), fd, op.x), OK)
              ELSE R(IF IsDefault(fd.kind, op.x) THEN ClearF(v, fd) ELSE SetF(v, fd, op.x), OK)
         [] op.op = "SetNew" ->
              \* Set(fd, NewField(fd)): a fresh empty composite
              IF fd.card = "rep" \/ fd.card = "map" THEN R(ClearF(v, fd), OK)
              ELSE IF fd.kind = "message" THEN R(SetF(DropOthers(S, T, v, fd), fd, EmptyMsg), OK)
              ELSE R(v, PANIC)
         [] op.op = "Clear" ->
              IF fd.card = "oneof" THEN R(IF HasF(v, fd) THEN ClearF(v, fd) ELSE v, OK)
              ELSE R(ClearF(v, fd), OK)
         [] op.op = "Mutable" ->
              IF fd.card \in {"rep", "map"} THEN R(v, ViewOf(TRUE, IF HasF(v, fd) THEN (IF fd.card = "rep" THEN Len(GetF(v, fd)) ELSE Cardinality(DOMAIN GetF(v, fd))) ELSE 0))
              ELSE IF fd.kind = "message"
                   THEN R(IF HasF(v, fd) THEN v ELSE SetF(DropOthers(S, T, v, fd), fd, EmptyMsg),
                          ViewOf(TRUE, IF HasF(v, fd) THEN MsgSize(GetF(v, fd)) ELSE 0))
              ELSE R(v, PANIC)
         [] op.op = "NewField" ->
              R(v, CASE fd.card \in {"rep", "map"} -> ViewOf(TRUE, 0)
                     [] fd.kind = "message" -> ViewOf(TRUE, 0)
                     [] OTHER -> Scalar(ZeroOf(fd.kind)))
         [] op.op = "Which" ->
              LET mem == OneofSet(S, T, v, op.oo) IN R(v, IntR(IF mem = <<>> THEN 0 ELSE mem[1].num))
         [] op.op = "Range" ->
              R(v, Ret("nums", SortedNums({FieldsOf(S, T)[i].num : i \in {j \in 1..Len(FieldsOf(S, T)) : HasF(v, FieldsOf(S, T)[j])}})))
         \* Range with a callback that returns FALSE at once: exactly one call if anything is populated
         [] op.op = "RangeFirst" ->
              R(v, IntR(IF \E i \in 1..Len(FieldsOf(S, T)) : HasF(v, FieldsOf(S, T)[i]) THEN 1 ELSE 0))
         [] op.op = "MRangeFirst" -> R(v, IntR(IF DOMAIN MapOf(v, fd) = {} THEN 0 ELSE 1))
         \* replace the unknown set while still holding the slice GetUnknown returned before:
         \* returns what that slice shows afterwards (must still be the old bytes)
         [] op.op = "SetUnknownHold" -> R([v EXCEPT !.u = op.u], Ret("bytes", v.u))
         \* the unknown bytes handed to ANOTHER message of the type (SetUnknown stores the slice it is
         \* given), then emptied here and refilled by appending to what GetUnknown returns (the idiom
         \* proto.Merge uses): returns what the other message shows afterwards -- still the old bytes
         [] op.op = "UnknownHandover" -> R([v EXCEPT !.u = op.u], Ret("bytes", v.u))
         [] op.op = "GetUnknown" -> R(v, Ret("bytes", v.u))
         [] op.op = "SetUnknown" -> R([v EXCEPT !.u = op.u], OK)
         [] op.op = "IsValid" -> R(v, Bool(TRUE))
         \* ---- List ----
         [] op.op = "LLen" -> R(v, IntR(Len(ListOf(v, fd))))
         [] op.op = "LIsValid" -> R(v, Bool(~ReadOnly(v, fd, op)))
         [] op.op = "LGet" ->
              LET l == ListOf(v, fd) IN IF op.i + 1 \in 1..Len(l) THEN R(v, ElemRet(fd.kind, l[op.i + 1])) ELSE R(v, PANIC)
         [] op.op = "LSet" ->
              LET l == ListOf(v, fd)
              IN IF op.i + 1 \in 1..Len(l) /\ fd.kind # "message" THEN R(SetF(v, fd, [l EXCEPT ![op.i + 1] = op.x]), OK) ELSE R(v, PANIC)
         [] op.op = "LAppend" ->
              IF ReadOnly(v, fd, op) \/ fd.kind = "message" THEN R(v, PANIC)
              ELSE R(SetF(v, fd, Append(ListOf(v, fd), op.x)), OK)
         [] op.op = "LAppendNew" ->
              \* Append(NewElement()) for message lists
              IF ReadOnly(v, fd, op) \/ fd.kind # "message" THEN R(v, PANIC)
              ELSE R(SetF(v, fd, Append(ListOf(v, fd), EmptyMsg)), OK)
         [] op.op = "LAppendMutable" ->
              IF ReadOnly(v, fd, op) \/ fd.kind # "message" THEN R(v, PANIC)
              ELSE R(SetF(v, fd, Append(ListOf(v, fd), EmptyMsg)), ViewOf(TRUE, 0))
         \* Truncate(n) with n above the length is misuse whose outcome depends on the spare capacity
         \* of the Go slice behind the list in every implementation (a reslice within capacity
         \* succeeds and brings back a slot): it is outside the model (MISUSE: the operation is not
         \* enabled) unless the list is read-only, where it panics everywhere
         [] op.op = "LTruncate" ->
              LET l == ListOf(v, fd)
              IN IF ReadOnly(v, fd, op) THEN R(v, PANIC)
                 ELSE IF op.i \in 0..Len(l) THEN R(PutList(v, fd, SubSeq(l, 1, op.i)), OK)
                 ELSE R(v, MISUSE)
         [] op.op = "LNewElement" -> R(v, ElemZero(fd.kind))
         \* ONE list view (obtained with Mutable) kept across three calls: Append(x) [AppendMutable for
         \* messages]; Truncate(back to the old length); Append(x) [Append(NewElement())].  Neither
         \* call detaches the view in the reference implementations, so the view stays live.
         [] op.op = "LRetained" ->
              IF fd.card # "rep" THEN R(v, PANIC)
              ELSE R(SetF(v, fd, Append(ListOf(v, fd), IF fd.kind = "message" THEN EmptyMsg ELSE op.x)), OK)
         \* a list or map view obtained with Mutable is still valid after the field is cleared behind
         \* its back (what it then shows differs between the reference implementations -- a detached
         \* copy or the live empty field -- and is not observed)
         [] op.op = "ViewClear" ->
              IF fd.card \in {"rep", "map"} THEN R(ClearF(v, fd), Bool(TRUE)) ELSE R(v, PANIC)
         \* Set(fd, w) with w = what Get(fd) answers on an EMPTY message of this type: a read-only
         \* empty list / map / message.  Storing it is refused everywhere and changes nothing.
         [] op.op = "SetInvalid" ->
              IF fd.card \in {"rep", "map"} \/ fd.kind = "message" THEN R(v, PANIC) ELSE R(v, Ret("unknown-op", 0))
         \* e = AppendMutable() on a message list, e.SetUnknown(u), Truncate(back to the old length):
         \* the message e that was dropped from the list is still the caller's, with its content
         [] op.op = "LElemKept" ->
              IF fd.card = "rep" /\ fd.kind = "message" THEN R(v, Ret("bytes", op.u)) ELSE R(v, PANIC)
         \* ---- Map ----
         [] op.op = "MLen" -> R(v, IntR(Cardinality(DOMAIN MapOf(v, fd))))
         [] op.op = "MIsValid" -> R(v, Bool(~ReadOnly(v, fd, op)))
         [] op.op = "MHas" -> R(v, Bool(op.k \in DOMAIN MapOf(v, fd)))
         [] op.op = "MGet" ->
              LET m == MapOf(v, fd) IN R(v, IF op.k \in DOMAIN m THEN ElemRet(fd.vk, m[op.k]) ELSE INVALID)
         [] op.op = "MSet" ->
              IF ReadOnly(v, fd, op) \/ fd.vk = "message" THEN R(v, PANIC)
              ELSE LET m == MapOf(v, fd) IN R(SetF(v, fd, (op.k :> op.x) @@ [kk \in (DOMAIN m) \ {op.k} |-> m[kk]]), OK)
         [] op.op = "MSetNew" ->
              \* Set(k, NewValue()) for message-valued maps
              IF ReadOnly(v, fd, op) \/ fd.vk # "message" THEN R(v, PANIC)
              ELSE LET m == MapOf(v, fd) IN R(SetF(v, fd, (op.k :> EmptyMsg) @@ [kk \in (DOMAIN m) \ {op.k} |-> m[kk]]), OK)
         [] op.op = "MMutable" ->
              IF ReadOnly(v, fd, op) \/ fd.vk # "message" THEN R(v, PANIC)
              ELSE LET m == MapOf(v, fd)
                   IN R(IF op.k \in DOMAIN m THEN v ELSE SetF(v, fd, (op.k :> EmptyMsg) @@ m),
                        ViewOf(TRUE, IF op.k \in DOMAIN m THEN MsgSize(m[op.k]) ELSE 0))
         [] op.op = "MClear" ->
              LET m == MapOf(v, fd)
              IN IF ReadOnly(v, fd, op) THEN R(v, OK)   \* deleting from an empty read-only map is a no-op everywhere
                 ELSE R(PutMap(v, fd, [kk \in (DOMAIN m) \ {op.k} |-> m[kk]]), OK)
         \* ONE map view kept across three calls: Set(k, x) [Mutable(k) for messages]; Clear(k);
         \* Set(k, x) [Set(k, NewValue())] -- also when k was the only entry in between
         [] op.op = "MRetained" ->
              IF fd.card # "map" THEN R(v, PANIC)
              ELSE LET m == MapOf(v, fd)
                   IN R(SetF(v, fd, (op.k :> (IF fd.vk = "message" THEN EmptyMsg ELSE op.x)) @@ [kk \in (DOMAIN m) \ {op.k} |-> m[kk]]), OK)
         \* w = NewField(fd); Set(fd, w); w.Set(k, x): store first, fill afterwards -- the stored map is
         \* the value's map in both references, so the entry is in the message
         [] op.op = "MSetFill" ->
              IF fd.card # "map" THEN R(v, PANIC)
              ELSE R(SetF(v, fd, (op.k :> (IF fd.vk = "message" THEN EmptyMsg ELSE op.x))), OK)
         [] op.op = "MRange" -> R(v, Ret("keys", SortedKeys(fd.kk, MapOf(v, fd))))
         [] op.op = "MNewValue" -> R(v, ElemZero(fd.vk))
         [] OTHER -> R(v, Ret("unknown-op", 0))

\* Reset applies to the root only
Apply(S, T, root, op) ==
    IF op.op = "Reset" THEN [st |-> EmptyMsg, ret |-> OK, enabled |-> TRUE]
    ELSE LET at == AtPath(S, T, root, op.p)
         IN IF ~at.ok THEN [st |-> root, ret |-> NOPATH, enabled |-> FALSE]
            ELSE LET r == ApplyAt(S, at.T, at.v, op)
                 IN [st |-> IF r.v = at.v THEN root ELSE PutPath(S, T, root, op.p, r.v), ret |-> r.ret, enabled |-> r.ret # MISUSE]

IsRead(op) == op.op \in {"Has", "Get", "Getter", "NewField", "Which", "Range", "RangeFirst", "MRangeFirst", "GetUnknown", "IsValid", "LLen", "LIsValid", "LGet",
                         "LNewElement", "MLen", "MIsValid", "MHas", "MGet", "MRange", "MNewValue"}

(***************************************************************************)
(* Read-only / nil messages (C09): every read on an invalid message (nil   *)
(* pointer, Type().Zero(), Get of an unpopulated message field, nil list   *)
(* element, nil map value, oneof wrapper holding nil) answers as the empty *)
(* message does; every write panics.                                       *)
(***************************************************************************)
ApplyNil(S, T, op) ==
    IF IsRead(op) THEN (IF op.op \in {"IsValid", "LIsValid", "MIsValid"} THEN Bool(FALSE)
                        ELSE ApplyAt(S, T, EmptyMsg, [op EXCEPT !.via = "get"]).ret)
    ELSE PANIC

=============================================================================
