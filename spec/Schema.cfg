SPECIFICATION Spec
INVARIANT WellFormedInv
INVARIANT ExportInv
CHECK_DEADLOCK FALSE
